package props

import (
	"fmt"
	"go/ast"
	"go/token"
	"go/types"
	"strings"

	"golang.org/x/tools/go/cfg"

	"verif/sa/core"
)

func init() { register("C09", c09); register("C10", c10) }

const (
	mAppend   = "internal/metrics.(*Metric).AppendLabelValue"
	mGetDatum = "internal/metrics.(*Metric).GetDatum"
	mRemove   = "internal/metrics.(*Metric).RemoveDatum"
	mExpire   = "internal/metrics.(*Metric).ExpireDatum"
	mFind     = "internal/metrics.(*Metric).FindLabelValueOrNil"
	mEmit     = "internal/metrics.(*Metric).EmitLabelSets"
	mOldest   = "internal/metrics.(*Metric).RemoveOldestDatum"
	storeGc   = "internal/metrics.(*Store).Gc"
)

// metricFieldWrites lists the names of Metric fields assigned (or deleted from / appended to) in f.
func metricFieldWrites(f *core.Func) map[string][]ast.Node {
	out := map[string][]ast.Node{}
	info := f.Info()
	fieldOf := func(e ast.Expr) string {
		for {
			switch x := core.Unparen(e).(type) {
			case *ast.IndexExpr:
				e = x.X
				continue
			case *ast.SliceExpr:
				e = x.X
				continue
			}
			break
		}
		sel, ok := core.Unparen(e).(*ast.SelectorExpr)
		if !ok {
			return ""
		}
		s := info.Selections[sel]
		if s == nil || s.Kind() != types.FieldVal {
			return ""
		}
		r := s.Recv().String()
		if strings.HasSuffix(r, "metrics.Metric") || strings.HasSuffix(r, "metrics.LabelValue") || strings.HasSuffix(r, "metrics.Store") {
			return r[strings.LastIndex(r, ".")+1:] + "." + sel.Sel.Name
		}
		return ""
	}
	ast.Inspect(f.Body, func(n ast.Node) bool {
		switch x := n.(type) {
		case *ast.AssignStmt:
			for _, l := range x.Lhs {
				if fl := fieldOf(l); fl != "" {
					out[fl] = append(out[fl], x)
				}
			}
		case *ast.IncDecStmt:
			if fl := fieldOf(x.X); fl != "" {
				out[fl] = append(out[fl], x)
			}
		case *ast.CallExpr:
			if f.CalleeID(x) == "builtin.delete" {
				if fl := fieldOf(x.Args[0]); fl != "" {
					out[fl] = append(out[fl], x)
				}
			}
		}
		return true
	})
	return out
}

// mxSpliceInfo describes a statement that shortens a metric's label-value slice.
type mxSpliceInfo struct {
	stmt       *ast.AssignStmt
	recognised bool     // the right-hand side is append(s[:a], s[b:]...) or slices.Delete(s, a, b) on the assigned slice itself
	a, b       ast.Expr // bounds (a may be nil only when not recognised)
}

// mxSplices lists the statements of f that assign a shortened slice to a Metric's LabelValues.
func mxSplices(f *core.Func) []mxSpliceInfo {
	isLV := lvAliases(f)
	var out []mxSpliceInfo
	core.InspectNoLit(f.Body, func(n ast.Node) bool {
		as, ok := n.(*ast.AssignStmt)
		if !ok || len(as.Lhs) != 1 || len(as.Rhs) != 1 || !isLV(as.Lhs[0]) {
			return true
		}
		lhs := mxCanon(f, as.Lhs[0], as)
		rhs := core.Unparen(as.Rhs[0])
		if _, isSlice := rhs.(*ast.SliceExpr); isSlice {
			out = append(out, mxSpliceInfo{stmt: as})
			return true
		}
		call, ok := rhs.(*ast.CallExpr)
		if !ok {
			return true
		}
		switch f.CalleeID(call) {
		case "builtin.append":
			if len(call.Args) == 0 {
				return true
			}
			s0, ok0 := core.Unparen(call.Args[0]).(*ast.SliceExpr)
			if !ok0 {
				return true
			}
			sp := mxSpliceInfo{stmt: as}
			if len(call.Args) == 2 && call.Ellipsis.IsValid() {
				if s1, ok1 := core.Unparen(call.Args[1]).(*ast.SliceExpr); ok1 {
					lowZero := s0.Low == nil
					if v, ok := mxConstInt(f, s0.Low); s0.Low != nil && ok && v == 0 {
						lowZero = true
					}
					if lowZero && s0.High != nil && s1.Low != nil && s1.High == nil && !s0.Slice3 && !s1.Slice3 &&
						mxCanon(f, s0.X, as) == lhs && mxCanon(f, s1.X, as) == lhs {
						sp.recognised, sp.a, sp.b = true, s0.High, s1.Low
					}
				}
			}
			out = append(out, sp)
		case "slices.Delete":
			sp := mxSpliceInfo{stmt: as}
			if len(call.Args) == 3 && mxCanon(f, call.Args[0], as) == lhs {
				sp.recognised, sp.a, sp.b = true, call.Args[1], call.Args[2]
			}
			out = append(out, sp)
		}
		return true
	})
	return out
}

// mxIsSucc reports whether b denotes a+1.
func mxIsSucc(f *core.Func, a, b ast.Expr, at ast.Node) bool {
	be, ok := mxResolveAt(f, b, at).(*ast.BinaryExpr)
	if !ok || be.Op != token.ADD {
		return false
	}
	ca := mxCanon(f, a, at)
	if v, ok := mxConstInt(f, be.Y); ok && v == 1 && mxCanon(f, be.X, at) == ca {
		return true
	}
	if v, ok := mxConstInt(f, be.X); ok && v == 1 && mxCanon(f, be.Y, at) == ca {
		return true
	}
	return false
}

func c09(c *core.Check) {
	mxInlineProg = c.Prog
	c.Explain = "A metric keeps its label sets twice — the insertion-ordered slice LabelValues and the lookup map labelValuesMap.  This check decides, on every path of the current source, the structural conditions under which the pair behaves as one insertion-ordered map: (R1) every Metric field that can hold a LabelValue is written by both the insertion and the removal primitive, and within each primitive slice and map updates come in pairs; (R2) every insertion is preceded by a failed lookup of the same tuple under the metric's lock, or by a removal of the same tuple; (R3) removing an absent tuple reaches `return nil` without any write, marking expiry on an absent tuple returns an error, wrong-length tuples are rejected first (shared with C08-R3); (R4) enumeration sends exactly one label set per element of the slice, built from that element's own labels and value, then closes; (R5) removal splices exactly the found element and stops; the slice is never sorted or reordered in place.  Conditions are read off the control-flow graph's condition edges and variables are followed to their definitions, so if/else, early-return, switch and negated forms, either operand order, renamed variables and extracted helpers are the same to the rules.  Values and timestamps inside data are not decided."
	c.Assume = append(c.Assume, "callers hold the metric's lock as decided under C11")
	app := c.MustFn("C09-R1", mAppend)
	remAPI := c.MustFn("C09-R1", mRemove)
	get := c.MustFn("C09-R2", mGetDatum)
	if app == nil || remAPI == nil || get == nil {
		return
	}
	// the removal primitive: RemoveDatum itself or the helper it delegates to
	rem := findInClosure(remAPI, splicesLabelValues)
	if rem == nil {
		c.Undecided("C09-R1", mRemove+"|splice", pos(c, remAPI.Decl), "no function reachable from RemoveDatum splices the label-value slice: removal primitive not recognised")
		return
	}
	c.Analysed(rem)
	c.Extra["removal_primitive"] = rem.Key
	// the insertion primitive likewise
	appPrim := findInClosure(app, mxAppendsLabelValues)
	if appPrim == nil {
		c.Undecided("C09-R1", mAppend+"|append", pos(c, app.Decl), "no function reachable from AppendLabelValue appends to the label-value slice: insertion primitive not recognised")
		return
	}
	c.Analysed(appPrim)
	c.Extra["insertion_primitive"] = appPrim.Key
	keyInjective(c, "C09-R0") // a map from tuples needs distinct tuples to have distinct keys (shared with C08-R1)
	c.Rule("C09-R1", "PAIRED: the Metric fields whose type mentions LabelValue are each written in RemoveDatum if they are written on insertion (AppendLabelValue/GetDatum); in AppendLabelValue the slice append and the map store come as one pair on every path (either order, directly or through a helper); in RemoveDatum the splice and the map delete likewise")
	if pkg := c.Prog.Pkgs["internal/metrics"]; pkg != nil {
		st, _ := pkg.Types.Scope().Lookup("Metric").Type().Underlying().(*types.Struct)
		insW := mergedFieldWrites(app)
		for k, v := range mergedFieldWrites(get) {
			insW[k] = append(insW[k], v...)
		}
		remW := mergedFieldWrites(remAPI)
		for i := 0; st != nil && i < st.NumFields(); i++ {
			fl := st.Field(i)
			if !strings.Contains(fl.Type().String(), "metrics.LabelValue") {
				continue
			}
			k := "Metric." + fl.Name()
			_, wi := insW[k]
			_, wr := remW[k]
			c.Verdict(!wi || wr, "C09-R1", "field "+fl.Name(), "-", fmt.Sprintf("written on insertion=%v, on removal=%v", wi, wr), "Metric."+fl.Name()+" can hold a label value, is updated when one is inserted or looked up but not when one is removed: after a deletion it still refers to the deleted datum (a later lookup of that tuple returns the deleted datum without re-inserting it)")
		}
	}
	{
		g := appPrim.Graph()
		var apps []ast.Node
		for _, as := range mxAppendStmts(appPrim) {
			apps = append(apps, as)
		}
		stores := mxMapWrites(appPrim, false)
		storers := mxMapWriters(c, false)
		for _, h := range g.Calls(func(id string, call *ast.CallExpr) bool {
			cf := appPrim.CalleeFunc(call)
			return cf != nil && cf != appPrim && storers[cf] && !mxAppendsLabelValues(cf)
		}) {
			stores = append(stores, h.N)
		}
		msg, tr, ok := mxPairedEitherOrder(g, mxPoints(g, apps), mxPoints(g, stores))
		c.Verdict(ok, "C09-R1", mAppend+"|append/store", pos(c, appPrim.Decl), "slice append and map store paired", "insertion updates the slice and the map inconsistently: "+msg, tr...)
	}
	splices := mxSplices(rem)
	{
		g := rem.Graph()
		var spl []ast.Node
		for _, sp := range splices {
			spl = append(spl, sp.stmt)
		}
		dels := mxMapWrites(rem, true)
		deleters := mxMapWriters(c, true)
		for _, h := range g.Calls(func(id string, call *ast.CallExpr) bool {
			cf := rem.CalleeFunc(call)
			return cf != nil && cf != rem && deleters[cf] && !splicesLabelValues(cf)
		}) {
			dels = append(dels, h.N)
		}
		msg, tr, ok := mxPairedEitherOrder(g, mxPoints(g, spl), mxPoints(g, dels))
		c.Verdict(ok, "C09-R1", mRemove+"|splice/delete", pos(c, rem.Decl), "slice splice and map delete paired", "removal updates the slice and the map inconsistently: "+msg, tr...)

		c.Rule("C09-R5", "SPLICE: the removal is `s = append(s[:i], s[i+1:]...)` (or slices.Delete(s, i, i+1)) with s the metric's slice and i the index whose element was compared equal to the looked-up value on every path to the splice, and the loop is left right after; no sort.* call receives the metric's slice or an alias of it")
		loops := mxLoops(rem)
		for _, sp := range splices {
			as := sp.stmt
			key := mRemove + "|splice shape"
			p, _ := g.PointOf(as)
			// leaves the loop: no path from the splice back to itself
			from := p
			_, again := pathAvoiding(g, &from, []core.Point{p}, nil)
			if again {
				c.Fail("C09-R5", key, pos(c, as), "the removal keeps scanning after removing: the elements behind the removed one have moved down one slot, so another tuple's entry is skipped or dropped and the slice is corrupted")
				continue
			}
			if !sp.recognised {
				c.Undecided("C09-R5", key, pos(c, as), "the statement shortening the slice is not append(s[:i], s[i+1:]...) / slices.Delete(s, i, i+1) on the metric's own slice: which element it removes is not recognised")
				continue
			}
			if !mxIsSucc(rem, sp.a, sp.b, as) {
				c.Fail("C09-R5", key, pos(c, as), fmt.Sprintf("the removal does not splice out exactly the element that was found: it drops the elements [%s, %s) — another tuple's entry is dropped or a removed one is kept", exprStr(sp.a), exprStr(sp.b)))
				continue
			}
			// the element at index a was compared equal to the looked-up value on every path to the splice
			idx := identObj(rem.Info(), mxResolveAt(rem, sp.a, as))
			var loop *mxLoop
			for _, l := range loops {
				if l.Body.Pos() <= as.Pos() && as.End() <= l.Body.End() && l.Idx != nil && l.Idx == idx {
					loop = l
				}
			}
			if loop == nil {
				// i := m.indexOf(found); if i >= 0 { splice at i }
				if call, ok := mxResolveAt(rem, sp.a, as).(*ast.CallExpr); ok {
					if h := rem.CalleeFunc(call); h != nil && mxIndexOfFn(h) {
						okRecv := false
						if r := core.RecvExpr(call); r != nil {
							if sel, ok := mxIsField(rem.Info(), as.Lhs[0], "metrics.Metric", "LabelValues"); ok {
								okRecv = mxCanon(rem, r, as) == mxCanon(rem, sel.X, as)
							}
						}
						nonNeg := false
						dom, _ := mxDomEdges(g, nil, p, nil)
						ca := mxCanon(rem, sp.a, as)
						for _, e := range dom {
							if cmp, ok := mxCmpOf(e); ok {
								if oc, ok := cmp.mxOrient(func(x ast.Expr) bool { return mxCanon(rem, x, e.Cond) == ca }); ok {
									if k, isK := mxConstInt(rem, oc.R); isK && ((oc.Op == token.GEQ && k == 0) || (oc.Op == token.GTR && k == -1) || (oc.Op == token.NEQ && k == -1)) {
										nonNeg = true
									}
								}
							}
						}
						c.Analysed(h)
						if okRecv && nonNeg {
							c.Ok("C09-R5", key, pos(c, as), "removes exactly the element whose position "+h.Key+" found, once")
							continue
						}
					}
				}
				c.Undecided("C09-R5", key, pos(c, as), "the spliced index is not the index variable of an enclosing loop over the metric's slice: the element removed is not recognised")
				continue
			}
			start, back := mxIterStart(g, loop.Stmt)
			dom, _ := mxDomEdges(g, start, p, back)
			guard, anyEq := false, false
			lookedUp := map[types.Object]bool{}
			lookedUpExpr := map[ast.Expr]bool{}
			for _, lk := range mxLookups(rem, true) {
				if lk.Val != nil {
					lookedUp[lk.Val] = true
				}
				lookedUpExpr[lk.Expr] = true
			}
			for _, e := range dom {
				cmp, ok := mxCmpOf(e)
				if !ok || cmp.Op != token.EQL {
					continue
				}
				anyEq = true
				for _, pair := range [][2]ast.Expr{{cmp.L, cmp.R}, {cmp.R, cmp.L}} {
					if loop.isElem(pair[0]) {
						if o := identObj(rem.Info(), pair[1]); (o != nil && lookedUp[o]) || lookedUpExpr[mxResolveAt(rem, pair[1], e.Cond)] {
							guard = true
						}
					}
				}
			}
			switch {
			case guard:
				c.Ok("C09-R5", key, pos(c, as), "removes exactly the found element, once")
			case anyEq:
				c.Undecided("C09-R5", key, pos(c, as), "the splice is guarded by an equality that does not involve the element at the spliced index in a recognised way")
			default:
				tr, _ := mxReachAvoiding(g, start, p, nil, back)
				c.Fail("C09-R5", key, pos(c, as), "the removal does not splice out exactly the element that was found: the element at the spliced index is not compared with the looked-up value before it is removed — another tuple's entry is dropped", tr...)
			}
		}
	}
	for _, sf := range shipped(c) {
		isLV := lvAliases(sf)
		ast.Inspect(sf.Body, func(n ast.Node) bool {
			if call, ok := n.(*ast.CallExpr); ok && isSortCall(sf, call) && isLV(call.Args[0]) {
				c.Fail("C09-R5", sf.Key+"|sorts the label value slice", pos(c, call), "the metric's insertion-ordered slice (or a reslice sharing its backing array) is sorted in place: enumeration order changes and a concurrent or interleaved removal shifts elements under the sort")
			}
			return true
		})
	}
	c.Floor("C09-R1", 4)
	c.Floor("C09-R5", 1)

	c.Rule("C09-R2", "NO-DUPLICATE: in GetDatum every path to the insertion has taken the branch on which a lookup of the same tuple found nothing, with the metric's write lock held from the lookup to the insertion, and the inserted value carries that tuple; in Store.Add each insertion into the new metric is preceded by a removal of the same tuple from the same metric")
	inserters := c.Prog.Reaching(func(f *core.Func) bool {
		return core.Rel(f.Pkg.PkgPath) == "internal/metrics" && mxAppendsLabelValues(f)
	})
	rmv := removers(c)
	{
		g := get.Graph()
		hold := g.MustHold()
		info := get.Info()
		lookups := mxLookups(get, true)
		for i, h := range g.Calls(func(id string, call *ast.CallExpr) bool {
			cf := get.CalleeFunc(call)
			return cf != nil && cf != get && inserters[cf]
		}) {
			key := fmt.Sprintf("%s|insert#%d", mGetDatum, i+1)
			call := h.N.(*ast.CallExpr)
			// the tuple the inserted value carries
			var tuple ast.Expr
			if len(call.Args) == 1 {
				tuple = mxInsertedTuple(get, call.Args[0], call)
			}
			tupleCanon := ""
			if tuple != nil {
				tupleCanon = mxCanon(get, tuple, call)
			}
			okGuard, sawLookup := false, false
			var witness []string
			for _, lk := range lookups {
				if lk.Tuple == nil {
					continue
				}
				sawLookup = true
				if tuple != nil && mxCanon(get, lk.Tuple, lk.Expr) != tupleCanon {
					continue
				}
				_, absent := mxLookupEdges(get, lk)
				if len(absent) == 0 {
					continue
				}
				if tr, reach := mxReachAvoiding(g, nil, h.P, absent, nil); !reach {
					okGuard = true
				} else {
					witness = tr
				}
			}
			locked := core.Holds(hold.At(h.P), recvIdent(get), "W")
			if !okGuard && !sawLookup && mxUnclassifiedLookups(get) > 0 {
				c.Undecided("C09-R2", key, pos(c, h.N), "GetDatum obtains a label value from a function that is not a recognised lookup: whether the insertion follows a failed lookup is not decided")
				continue
			}
			c.Verdict(okGuard && locked, "C09-R2", key, pos(c, h.N), "only after a failed lookup, under the write lock", fmt.Sprintf("a label value is inserted without a failed lookup of the same tuple under the metric's write lock (lookup guard=%v, locked=%v, lookups in the function=%v): the tuple can be listed twice", okGuard, locked, sawLookup), witness...)
			// the inserted LabelValue carries the looked-up tuple: a parameter of GetDatum
			switch {
			case tuple == nil:
				c.Undecided("C09-R2", key+"|tuple", pos(c, call), "the Labels of the inserted label value are not recognised")
			default:
				_, isParam := mxPureParam(get, identObj(info, mxResolveAt(get, tuple, call)))
				c.Verdict(isParam, "C09-R2", key+"|tuple", pos(c, call), "inserted under the requested tuple", "the label value inserted does not carry the requested tuple")
			}
		}
		// any early return of a datum without consulting the map (a cache) must be invalidated on removal: covered by R1's field rule
	}
	if add := c.Prog.Fn(storeAdd); add != nil {
		c.Analysed(add)
		g := add.Graph()
		info := add.Info()
		rems := g.Calls(func(id string, call *ast.CallExpr) bool { cf := add.CalleeFunc(call); return cf != nil && rmv[cf] })
		takesLV := func(cf *core.Func) bool {
			for _, fl := range cf.Type.Params.List {
				if strings.HasSuffix(typeStr(cf.Info().TypeOf(fl.Type)), "metrics.LabelValue") {
					return true
				}
			}
			return false
		}
		for i, h := range g.Calls(func(id string, call *ast.CallExpr) bool {
			cf := add.CalleeFunc(call)
			return cf != nil && inserters[cf] && !rmv[cf] && takesLV(cf)
		}) {
			call := h.N.(*ast.CallExpr)
			key := fmt.Sprintf("%s|insert#%d", storeAdd, i+1)
			// removals of the same tuple from the same metric
			var same []core.Hit
			undecided := false
			var tuple ast.Expr
			if len(call.Args) == 1 {
				tuple = mxInsertedTuple(add, call.Args[0], call)
			}
			into := identObj(info, core.RecvExpr(call))
			for _, r := range rems {
				rc := r.N.(*ast.CallExpr)
				from := identObj(info, core.RecvExpr(rc))
				if into == nil || from == nil || tuple == nil || len(rc.Args) != 1 {
					undecided = true
					same = append(same, r)
					continue
				}
				if from == into && mxCanon(add, rc.Args[0], rc) == mxCanon(add, tuple, call) {
					same = append(same, r)
				}
			}
			tr, found := pathAvoiding(g, nil, []core.Point{h.P}, core.HitPoints(same))
			switch {
			case found:
				c.Fail("C09-R2", key, pos(c, h.N), "Store.Add inserts a carried-over label value without first removing that tuple from the new metric: the tuple can be listed twice", tr...)
			case undecided:
				c.Undecided("C09-R2", key, pos(c, h.N), "a removal precedes the insertion but its metric or tuple is not recognised")
			default:
				c.Ok("C09-R2", key, pos(c, h.N), "preceded by a removal of the same tuple from the same metric")
			}
		}
	}
	c.Floor("C09-R2", 3)

	c.Rule("C09-R3", "ABSENT/INVALID: in RemoveDatum every write lies behind the branch on which the map lookup succeeded and every exit past the arity guard returns nil; in ExpireDatum every path on which the lookup fails returns a non-nil error, every write lies behind the branch on which it succeeded and so does every nil return; all four tuple-taking methods have the arity guard first")
	{
		g := rem.Graph()
		var present []mxEdge
		for _, lk := range mxLookups(rem, true) {
			if lk.Tuple != nil {
				if _, isParam := mxPureParam(rem, identObj(rem.Info(), mxResolveAt(rem, lk.Tuple, lk.Expr))); !isParam {
					continue // a lookup of some other tuple
				}
			}
			p, _ := mxLookupEdges(rem, lk)
			present = append(present, p...)
		}
		okAll := true
		var witness []string
		for _, nodes := range metricFieldWrites(rem) {
			for _, n := range nodes {
				p, ok := g.PointOf(n)
				if !ok {
					continue
				}
				if tr, reach := mxReachAvoiding(g, nil, p, present, nil); reach {
					okAll = false
					witness = tr
				}
			}
		}
		switch {
		case okAll:
			c.Ok("C09-R3", mRemove+"|absent is a no-op", pos(c, rem.Decl), "all writes behind a successful lookup")
		case len(present) == 0 && mxUnclassifiedLookups(rem) > 0:
			c.Undecided("C09-R3", mRemove+"|absent is a no-op", pos(c, rem.Decl), "the removal obtains a label value from a function that is not a recognised lookup: whether its writes follow a successful lookup is not decided")
		case len(present) == 0:
			c.Fail("C09-R3", mRemove+"|absent is a no-op", pos(c, rem.Decl), "RemoveDatum writes to the metric without having tested that the tuple is present", witness...)
		default:
			c.Fail("C09-R3", mRemove+"|absent is a no-op", pos(c, rem.Decl), "RemoveDatum writes to the metric on the path where the tuple was not found", witness...)
		}
		// every exit of RemoveDatum past the arity guard returns nil
		ag := remAPI.Graph()
		match, _, _ := mxArityEdges(c, remAPI, 0)
		if len(match) > 0 {
			verdict, where := "ok", ast.Node(remAPI.Decl)
			for _, ex := range normalExits(ag) {
				if _, reach := mxReachAvoiding(ag, nil, ex.P, match, nil); reach {
					continue // an exit of the mismatch branch
				}
				if ex.Kind != "return" || returnsNil(remAPI.Info(), ex.Ret) {
					continue
				}
				r := core.Unparen(ex.Ret.Results[len(ex.Ret.Results)-1])
				if call, ok := mxResolveAt(remAPI, r, ex.Ret).(*ast.CallExpr); ok {
					if h := remAPI.CalleeFunc(call); h != nil && mxAlwaysNil(h) {
						continue
					}
					if strings.Contains(remAPI.CalleeID(call), "errors.") || strings.HasPrefix(remAPI.CalleeID(call), "fmt.Errorf") {
						verdict, where = "fail", ex.Ret
						break
					}
				}
				if verdict == "ok" {
					verdict, where = "undecided", ex.Ret
				}
			}
			switch verdict {
			case "ok":
				c.Ok("C09-R3", mRemove+"|returns nil", pos(c, remAPI.Decl), "every exit past the arity guard returns nil")
			case "fail":
				c.Fail("C09-R3", mRemove+"|returns nil", pos(c, where), "RemoveDatum returns an error for a tuple of the right length: deleting an absent tuple is not a no-op")
			default:
				c.Undecided("C09-R3", mRemove+"|returns nil", pos(c, where), "RemoveDatum returns a value past the arity guard that is not recognisably nil")
			}
		}
	}
	if exp := c.MustFn("C09-R3", mExpire); exp != nil {
		g := exp.Graph()
		var present, absent []mxEdge
		found := map[types.Object]bool{}
		foundExpr := map[ast.Expr]bool{}
		for _, lk := range mxLookups(exp, true) {
			if lk.Tuple != nil {
				if _, isParam := mxPureParam(exp, identObj(exp.Info(), mxResolveAt(exp, lk.Tuple, lk.Expr))); !isParam {
					continue // a lookup of some other tuple
				}
			}
			p, a := mxLookupEdges(exp, lk)
			present = append(present, p...)
			absent = append(absent, a...)
			if lk.Val != nil {
				found[lk.Val] = true
			}
			foundExpr[lk.Expr] = true
		}
		key := mExpire + "|absent is an error"
		if len(absent) == 0 || len(present) == 0 {
			hasWrites := len(mergedFieldWrites(exp)) > 0
			if !hasWrites || mxUnclassifiedLookups(exp) > 0 {
				c.Undecided("C09-R3", key, pos(c, exp.Decl), "ExpireDatum neither tests a recognised lookup nor writes an expiry: shape not recognised")
			} else {
				c.Fail("C09-R3", key, pos(c, exp.Decl), "marking expiry on an absent tuple does not return an error (or writes something): ExpireDatum does not branch on the outcome of a lookup of the tuple")
			}
		} else {
			okE := true
			why := ""
			var witness []string
			for _, a := range absent {
				for _, ex := range normalExits(g) {
					if tr, found := pathAvoiding(g, mxEdgeTarget(a), []core.Point{ex.P}, nil); found {
						if ex.Kind != "return" || returnsNil(exp.Info(), ex.Ret) {
							okE, why, witness = false, "the path on which the tuple is not found returns nil", tr
						}
					}
				}
			}
			for _, nodes := range metricFieldWrites(exp) {
				for _, n := range nodes {
					if p, ok := g.PointOf(n); ok {
						if tr, reach := mxReachAvoiding(g, nil, p, present, nil); reach {
							okE, why, witness = false, "a write is reachable without a successful lookup", tr
						}
					}
					// the expiry is written to the label value that was looked up
					if as, ok := n.(*ast.AssignStmt); ok {
						for _, l := range as.Lhs {
							if sel, ok := mxIsField(exp.Info(), l, "metrics.LabelValue", "Expiry"); ok {
								if o := identObj(exp.Info(), sel.X); !(o != nil && found[o]) && !foundExpr[mxResolveAt(exp, sel.X, as)] {
									okE, why = false, "the expiry is written to "+nospace(exprStr(sel.X))+", not to the label value that the lookup of the tuple returned: another tuple's datum is marked"
								}
							}
						}
					}
				}
			}
			// success only through the lookup: a nil return that the present-edge does not dominate reports
			// success for a tuple that was never looked up (so also for an absent one)
			if okE {
				for _, ex := range normalExits(g) {
					if ex.Kind == "return" && !returnsNil(exp.Info(), ex.Ret) {
						continue
					}
					if tr, reach := mxReachAvoiding(g, nil, ex.P, present, nil); reach {
						okE, why, witness = false, "ExpireDatum can return nil without having found the tuple (a success exit that no lookup precedes): for an absent tuple that is success instead of the error, and for a present one the mark is silently not applied", tr
					}
				}
			}
			c.Verdict(okE, "C09-R3", key, pos(c, exp.Decl), "not found -> error, no write, success only after the lookup", "marking expiry on an absent tuple does not return an error (or writes something): "+why, witness...)
		}
	}
	for _, name := range []string{"GetDatum", "RemoveDatum", "ExpireDatum", "AppendLabelValue"} {
		if mf := c.Prog.Fn("internal/metrics.(*Metric)." + name); mf != nil {
			c.Analysed(mf)
			arityGuard(c, "C09-R3", mf)
		}
	}
	c.Floor("C09-R3", 6)

	c.Rule("C09-R4", "ENUMERATION: EmitLabelSets loops over m.LabelValues, sends exactly one LabelSet per iteration built from that element's Labels (zipped with m.Keys) and Value, and closes the channel on every exit; zip stores values[i] under keys[i]")
	if em := c.MustFn("C09-R4", mEmit); em != nil {
		g := em.Graph()
		info := em.Info()
		var loop *mxLoop
		for _, l := range mxLoops(em) {
			loop = l
		}
		if loop == nil {
			c.Undecided("C09-R4", mEmit+"|loop", pos(c, em.Decl), "EmitLabelSets has no recognised loop over the metric's LabelValues")
		} else {
			sends := g.Find(func(n ast.Node) bool { _, ok := n.(*ast.SendStmt); return ok })
			cnt, ok := iterationCount(g, loop.Stmt, core.HitPoints(sends))
			c.Verdict(ok && cnt.Min == 1 && cnt.Max == 1, "C09-R4", mEmit+"|one per element", pos(c, loop.Stmt), "exactly one send per element", "an element of the slice is emitted "+cnt.String()+" times per iteration")
			recv := mxRecvObj(em)
			zf := c.Prog.Fn("internal/metrics.zip")
			verdict, detail := "undecided", "no LabelSet literal is sent inside the loop"
			for _, s := range sends {
				send := s.N.(*ast.SendStmt)
				if !(loop.Body.Pos() <= send.Pos() && send.End() <= loop.Body.End()) {
					continue
				}
				v := mxResolveAt(em, send.Value, send)
				// where the literal lives: EmitLabelSets itself, or a helper it calls with the element
				in := em
				isElem := loop.isElem
				isRecv := func(e ast.Expr) bool { return recv != nil && identObj(info, e) == recv }
				var at ast.Node = send
				if hc, ok := v.(*ast.CallExpr); ok {
					if h := em.CalleeFunc(hc); h != nil && h.Pkg == em.Pkg && h.Lit == nil && len(h.Body.List) == 1 && !hc.Ellipsis.IsValid() {
						if ret, ok := h.Body.List[0].(*ast.ReturnStmt); ok && len(ret.Results) == 1 {
							elemParams := map[types.Object]bool{}
							i := 0
							for _, fl := range h.Type.Params.List {
								for _, nm := range fl.Names {
									if i < len(hc.Args) && loop.isElem(hc.Args[i]) {
										elemParams[info.Defs[nm]] = true
									}
									i++
								}
							}
							hrecv := mxRecvObj(h)
							recvOK := hrecv != nil && core.RecvExpr(hc) != nil && isRecv(core.RecvExpr(hc))
							in, at = h, ret
							isElem = func(e ast.Expr) bool {
								o := identObj(info, e)
								return o != nil && elemParams[o] && len(mxDefsOf(h)[o]) == 0
							}
							isRecv = func(e ast.Expr) bool { return recvOK && identObj(info, e) == hrecv && len(mxDefsOf(h)[hrecv]) == 0 }
							v = core.Unparen(ret.Results[0])
							c.Analysed(h)
						}
					}
				}
				if u, ok := v.(*ast.UnaryExpr); ok && u.Op == token.AND {
					v = core.Unparen(u.X)
				}
				cl, ok := v.(*ast.CompositeLit)
				if !ok || !strings.HasSuffix(typeStr(info.TypeOf(cl)), "metrics.LabelSet") {
					detail = "the value sent is not a LabelSet literal"
					continue
				}
				labels, datum := mxStructElts(info, cl, "Labels", "Datum")
				if labels == nil || datum == nil {
					verdict, detail = "fail", "the LabelSet sent lacks its Labels or its Datum"
					continue
				}
				elemField := func(e ast.Expr, field string) bool {
					sel, ok := mxIsField(info, mxResolveAt(in, e, at), "metrics.LabelValue", field)
					return ok && isElem(sel.X)
				}
				okDatum := elemField(datum, "Value")
				okLabels := false
				if call, ok := mxResolveAt(in, labels, at).(*ast.CallExpr); ok && zf != nil && in.CalleeFunc(call) == zf && len(call.Args) == 2 {
					if sel, ok := mxIsField(info, mxResolveAt(in, call.Args[0], at), "metrics.Metric", "Keys"); ok && isRecv(sel.X) {
						okLabels = elemField(call.Args[1], "Labels")
					}
				} else if !ok || zf == nil {
					verdict, detail = "undecided", "the Labels of the LabelSet sent are not a call of zip"
					continue
				}
				if okDatum && okLabels {
					verdict = "ok"
				} else {
					verdict, detail = "fail", fmt.Sprintf("labels from the element's own Labels zipped with the metric's Keys=%v, datum the element's own Value=%v", okLabels, okDatum)
				}
			}
			switch verdict {
			case "ok":
				c.Ok("C09-R4", mEmit+"|own labels and value", pos(c, loop.Stmt), "LabelSet{zip(m.Keys, lv.Labels), lv.Value}")
			case "fail":
				c.Fail("C09-R4", mEmit+"|own labels and value", pos(c, loop.Stmt), "the label set emitted for an element is not built from that element's own labels and value: "+detail)
			default:
				c.Undecided("C09-R4", mEmit+"|own labels and value", pos(c, loop.Stmt), detail)
			}
			if early := earlyLoopExits(c, g, loop.Stmt); len(early) > 0 {
				c.Fail("C09-R4", mEmit+"|complete", pos(c, loop.Stmt), "the enumeration can stop before the last element: "+early[0])
			} else if loop.Whole == "no" {
				c.Fail("C09-R4", mEmit+"|complete", pos(c, loop.Stmt), "the enumeration walks only a part of the slice ("+nospace(exprStr(loop.Slice))+"): a live tuple is not listed")
			} else if loop.Whole != "yes" {
				c.Undecided("C09-R4", mEmit+"|complete", pos(c, loop.Stmt), "whether the loop visits every element of the slice is not recognised")
			} else {
				c.Ok("C09-R4", mEmit+"|complete", pos(c, loop.Stmt), "loop runs to the end")
			}
		}
		// close on every exit (a deferred close counts from the defer statement on)
		if len(em.Type.Params.List) > 0 && len(em.Type.Params.List[0].Names) > 0 {
			ch := info.Defs[em.Type.Params.List[0].Names[0]]
			closes := g.Calls(func(id string, call *ast.CallExpr) bool {
				return id == "builtin.close" && len(call.Args) == 1 && identObj(info, call.Args[0]) == ch
			})
			bad := false
			for _, ex := range normalExits(g) {
				if tr, found := pathAvoiding(g, nil, []core.Point{ex.P}, core.HitPoints(closes)); found {
					bad = true
					c.Fail("C09-R4", mEmit+"|closes", ppos(c, ex.P, em), "EmitLabelSets can return without closing the channel: the consumer never learns that the enumeration is complete", tr...)
					break
				}
			}
			if !bad {
				c.Ok("C09-R4", mEmit+"|closes", pos(c, em.Decl), "channel closed on every exit")
			}
		}
		// zip
		if zf := c.MustFn("C09-R4", "internal/metrics.zip"); zf != nil {
			verdict, detail := mxZipPairs(zf)
			switch verdict {
			case "ok":
				c.Ok("C09-R4", "zip", pos(c, zf.Decl), "r[keys[i]] = values[i]")
			case "fail":
				c.Fail("C09-R4", "zip", pos(c, zf.Decl), "zip does not pair the i-th key with the i-th value: "+detail)
			default:
				c.Undecided("C09-R4", "zip", pos(c, zf.Decl), detail)
			}
		}
	}
	c.Floor("C09-R4", 4)
}

// mxIndexOfFn reports whether h returns the position in its receiver's
// LabelValues of the element equal to its parameter, or a negative constant.
func mxIndexOfFn(h *core.Func) bool {
	if h.Lit != nil || core.Rel(h.Pkg.PkgPath) != "internal/metrics" || h.Decl.Recv == nil {
		return false
	}
	info := h.Info()
	g := h.Graph()
	recv := mxRecvObj(h)
	var loops []*mxLoop
	for _, l := range mxLoops(h) {
		if l.Alias && l.Base != nil && l.Base == recv && l.Idx != nil {
			loops = append(loops, l)
		}
	}
	if len(loops) != 1 {
		return false
	}
	loop := loops[0]
	found := false
	for _, ex := range normalExits(g) {
		if ex.Kind != "return" || len(ex.Ret.Results) != 1 {
			return false
		}
		r := core.Unparen(ex.Ret.Results[0])
		if k, ok := constInt(info, r); ok {
			if k >= 0 {
				return false
			}
			continue
		}
		if identObj(info, r) != loop.Idx || !(loop.Body.Pos() <= ex.Ret.Pos() && ex.Ret.End() <= loop.Body.End()) {
			return false
		}
		start, back := mxIterStart(g, loop.Stmt)
		dom, _ := mxDomEdges(g, start, ex.P, back)
		okEq := false
		for _, e := range dom {
			cmp, ok := mxCmpOf(e)
			if !ok || cmp.Op != token.EQL {
				continue
			}
			for _, pair := range [][2]ast.Expr{{cmp.L, cmp.R}, {cmp.R, cmp.L}} {
				if loop.isElem(pair[0]) {
					if pi, isParam := mxPureParam(h, identObj(info, core.Unparen(pair[1]))); isParam && pi >= 0 {
						okEq = true
					}
				}
			}
		}
		if !okEq {
			return false
		}
		found = true
	}
	return found
}

// mxStructElts returns the element expressions of a composite literal for the two named fields (keyed or positional).
func mxStructElts(info *types.Info, cl *ast.CompositeLit, a, b string) (ea, eb ast.Expr) {
	t := info.TypeOf(cl)
	if t == nil {
		return
	}
	st, ok := t.Underlying().(*types.Struct)
	if !ok {
		return
	}
	for i, el := range cl.Elts {
		name := ""
		val := el
		if kv, ok := el.(*ast.KeyValueExpr); ok {
			if id, ok := kv.Key.(*ast.Ident); ok {
				name = id.Name
			}
			val = kv.Value
		} else if i < st.NumFields() {
			name = st.Field(i).Name()
		}
		switch name {
		case a:
			ea = val
		case b:
			eb = val
		}
	}
	return
}

// mxInsertedTuple returns the expression stored as Labels of the label value
// passed to an insertion: the Labels element of the literal it was built
// from, or the right-hand side of the only `v.Labels = …` assignment.
func mxInsertedTuple(f *core.Func, arg ast.Expr, at ast.Node) ast.Expr {
	info := f.Info()
	obj := identObj(info, arg)
	v := mxResolveAt(f, arg, at)
	if u, ok := v.(*ast.UnaryExpr); ok && u.Op == token.AND {
		v = core.Unparen(u.X)
	}
	var tuple ast.Expr
	if cl, ok := v.(*ast.CompositeLit); ok && strings.HasSuffix(typeStr(info.TypeOf(cl)), "metrics.LabelValue") {
		tuple, _ = mxStructElts(info, cl, "Labels", "Value")
	}
	if obj != nil {
		n := 0
		var rhs ast.Expr
		ast.Inspect(f.Body, func(x ast.Node) bool {
			if as, ok := x.(*ast.AssignStmt); ok && len(as.Lhs) == len(as.Rhs) {
				for i, l := range as.Lhs {
					if sel, ok := mxIsField(info, l, "metrics.LabelValue", "Labels"); ok && identObj(info, sel.X) == obj {
						n++
						rhs = as.Rhs[i]
					}
				}
			}
			return true
		})
		if n == 1 && tuple == nil {
			tuple = rhs
		} else if n > 0 {
			return nil
		}
	}
	return tuple
}

// mxZipPairs decides whether zip(keys, values) stores values[i] under keys[i] for every i.
func mxZipPairs(zf *core.Func) (verdict, detail string) {
	info := zf.Info()
	var params []types.Object
	for _, fl := range zf.Type.Params.List {
		for _, n := range fl.Names {
			params = append(params, info.Defs[n])
		}
	}
	if len(params) != 2 {
		return "undecided", "zip does not take two named parameters"
	}
	keys, values := params[0], params[1]
	verdict, detail = "undecided", "no loop storing into the result map found"
	core.InspectNoLit(zf.Body, func(n ast.Node) bool {
		var body *ast.BlockStmt
		var idx, val, ranged types.Object
		switch s := n.(type) {
		case *ast.RangeStmt:
			body = s.Body
			ranged = identObj(info, s.X)
			if s.Key != nil {
				idx = identObj(info, s.Key)
			}
			if s.Value != nil {
				val = identObj(info, s.Value)
			}
		case *ast.ForStmt:
			body = s.Body
			if as, ok := s.Init.(*ast.AssignStmt); ok && len(as.Lhs) == 1 {
				idx = identObj(info, as.Lhs[0])
			}
		default:
			return true
		}
		// what an expression denotes: ("k", i) = keys[i], ("v", i) = values[i]
		classify := func(e ast.Expr) string {
			e = mxResolve(zf, e)
			if o := identObj(info, e); o != nil && o == val && val != nil {
				if ranged == keys {
					return "k"
				}
				if ranged == values {
					return "v"
				}
			}
			if ix, ok := e.(*ast.IndexExpr); ok && idx != nil && identObj(info, ix.Index) == idx {
				switch identObj(info, ix.X) {
				case keys:
					return "k"
				case values:
					return "v"
				}
				return "?"
			}
			return "?"
		}
		ast.Inspect(body, func(m ast.Node) bool {
			as, ok := m.(*ast.AssignStmt)
			if !ok || len(as.Lhs) != 1 || len(as.Rhs) != 1 {
				return true
			}
			ix, ok := core.Unparen(as.Lhs[0]).(*ast.IndexExpr)
			if !ok {
				return true
			}
			if _, isMap := info.TypeOf(ix.X).Underlying().(*types.Map); !isMap {
				return true
			}
			k, v := classify(ix.Index), classify(as.Rhs[0])
			switch {
			case k == "k" && v == "v":
				verdict, detail = "ok", ""
			case k == "?" || v == "?":
				if k == "v" || v == "k" {
					verdict, detail = "fail", "the map store uses a value as key or a key as value"
				} else if (k == "k" || v == "v") && idx != nil {
					verdict, detail = "fail", "key and value of the map store are not taken at the same index"
				} else {
					verdict, detail = "undecided", "the map store in zip is not recognised"
				}
			default:
				verdict, detail = "fail", "the map store uses a value as key or a key as value"
			}
			return true
		})
		return true
	})
	return
}

// mxTimeOf tells whose last-update time e denotes: it follows locals to a
// call `<X>.Value.TimeUTC()` and returns X.
func mxTimeOf(f *core.Func, e ast.Expr, at ast.Node) ast.Expr {
	call, ok := mxResolveAt(f, e, at).(*ast.CallExpr)
	if !ok || len(call.Args) != 0 || !strings.HasSuffix(f.CalleeID(call), ".TimeUTC") {
		return nil
	}
	r := core.RecvExpr(call)
	if r == nil {
		return nil
	}
	sel, ok := mxIsField(f.Info(), mxResolveAt(f, r, at), "metrics.LabelValue", "Value")
	if !ok {
		return nil
	}
	return sel.X
}

// mxGcBody finds the function that holds the per-metric GC work: the Range
// callback of Gc, or the function of internal/metrics it delegates to — the
// one with a loop over a metric's label values whose body removes one.
func mxGcBody(c *core.Check, gcf *core.Func, rmv map[*core.Func]bool) *core.Func {
	has := func(f *core.Func) bool {
		for _, l := range mxLoops(f) {
			found := false
			ast.Inspect(l.Body, func(n ast.Node) bool {
				if call, ok := n.(*ast.CallExpr); ok {
					if cf := f.CalleeFunc(call); cf != nil && rmv[cf] {
						found = true
					}
				}
				return !found
			})
			if found {
				return true
			}
		}
		return false
	}
	for _, lf := range gcf.Lits {
		if has(lf) {
			return lf
		}
	}
	if has(gcf) {
		return gcf
	}
	for _, f := range metricsClosure(gcf) {
		if f != gcf && has(f) {
			return f
		}
		for _, lf := range f.Lits {
			if f != gcf && has(lf) {
				return lf
			}
		}
	}
	return nil
}

func c10(c *core.Check) {
	mxInlineProg = c.Prog
	c.Explain = "Decides structural necessary conditions of C10 in Store.Gc and the metric primitives it uses: (R1) on every path the size-limit phase precedes the expiry phase; (R2) the limit phase is guarded by Limit > 0 and removes the oldest datum exactly once per datum in excess (a loop of one of the recognised counting forms); (R3) the victim is chosen by an arg-min fold over all label values whose only use of the timestamps is a Before/After comparison of the candidate with the element — the fold's control flow is evaluated on the four cases (no candidate yet, element older, equal, newer) and must replace, replace, either, keep — and exactly that victim's tuple is removed; (R4) every path to an expiry removal has established Expiry > 0 and `now - last update > Expiry` (strict) for the element removed, with `now` taken once before the iteration; (R5) after removing element i of the slice being scanned the index is not advanced without stepping back; (R6) everything GC can write is the metric's slice/map pair and the slice is never reordered; (R7) no range loop over the slice (or an alias of its backing array) keeps iterating after removing an element.  Conditions are read off the control-flow graph's condition edges and variables are followed to their definitions, so renamed variables, negated/early-continue forms, either operand order and an extracted per-metric helper are the same to the rules.  Wall-clock values and the data races of the unlocked reads (C11) are not decided here."
	c.Assume = append(c.Assume, "time.Time.Before/After/Sub semantics")
	gcf := c.MustFn("C10-R1", storeGc)
	oldAPI := c.MustFn("C10-R3", mOldest)
	if gcf == nil || oldAPI == nil {
		return
	}
	// the victim selection: RemoveOldestDatum itself or the helper it delegates to
	old := findInClosure(oldAPI, func(f *core.Func) bool {
		for _, l := range mxLoops(f) {
			if best, _ := mxFoldCandidate(f, l); l.Alias && best != nil {
				return true
			}
		}
		return false
	})
	if old == nil {
		old = oldAPI
	}
	c.Analysed(old)
	c.Extra["victim_selection"] = old.Key
	rmv := removers(c)
	cb := mxGcBody(c, gcf, rmv)
	if cb == nil {
		for _, lf := range gcf.Lits {
			cb = lf
		}
	}
	if cb == nil {
		c.Undecided("C10-R1", storeGc, pos(c, gcf.Decl), "the per-metric GC body (Range callback or the helper it calls) was not found")
		return
	}
	c.Analysed(cb)
	c.Extra["gc_body"] = cb.Key
	cbNode := ast.Node(cb.Decl)
	if cb.Lit != nil {
		cbNode = cb.Lit
	}
	g := cb.Graph()
	info := cb.Info()
	// removal call sites of the GC body, classified by the field consulted on the condition edges every path to them takes
	var limitCalls, expCalls []core.Hit
	for _, h := range g.Calls(func(id string, call *ast.CallExpr) bool { cf := cb.CalleeFunc(call); return cf != nil && rmv[cf] }) {
		dom, _ := mxDomEdges(g, nil, h.P, nil)
		byLimit, byExpiry := false, false
		for _, e := range dom {
			byLimit = byLimit || mxMentionsField(cb, e.Cond, e.Cond, "metrics.Metric", "Limit")
			byExpiry = byExpiry || mxMentionsField(cb, e.Cond, e.Cond, "metrics.LabelValue", "Expiry")
		}
		switch {
		case byLimit && !byExpiry:
			limitCalls = append(limitCalls, h)
		case byExpiry && !byLimit:
			expCalls = append(expCalls, h)
		default:
			c.Undecided("C10-R1", cb.Key+"|removal", pos(c, h.N), "a removal in the GC body is guarded by neither (or both of) Metric.Limit and LabelValue.Expiry: phase not recognised")
		}
	}

	c.Rule("C10-R1", "ORDER: in the GC body no path leads from the expiry removal to the limit removal, and every path to the expiry scan has passed the limit phase's guard")
	if len(limitCalls) == 0 || len(expCalls) == 0 {
		c.Undecided("C10-R1", cb.Key, pos(c, cbNode), fmt.Sprintf("limit removals: %d, expiry removals: %d — phases not recognised", len(limitCalls), len(expCalls)))
	} else {
		bad := false
		for _, e := range expCalls {
			from := e.P
			if tr, found := pathAvoiding(g, &from, core.HitPoints(limitCalls), nil); found {
				bad = true
				c.Fail("C10-R1", cb.Key+"|limit before expiry", pos(c, e.N), "the expiry phase can run before the size-limit phase: expired data no longer count towards the limit, so an old datum the limit should evict survives", tr...)
			}
		}
		if !bad {
			c.Ok("C10-R1", cb.Key+"|limit before expiry", pos(c, cbNode), "limit phase first on every path")
		}
	}
	c.Floor("C10-R1", 1)

	isLimit := func(e ast.Expr, at ast.Node) bool {
		_, ok := mxIsField(info, mxResolveAt(cb, e, at), "metrics.Metric", "Limit")
		return ok
	}
	isLV := lvAliases(cb)
	isLenLV := func(e ast.Expr, at ast.Node) bool {
		x := mxLenArg(cb, e, at)
		return x != nil && isLV(x)
	}
	// excess: len(S) - Limit
	isExcess := func(e ast.Expr, at ast.Node) bool {
		be, ok := mxResolveAt(cb, e, at).(*ast.BinaryExpr)
		return ok && be.Op == token.SUB && isLenLV(be.X, at) && isLimit(be.Y, at)
	}
	isConst := func(e ast.Expr, v int64) bool {
		k, ok := mxConstInt(cb, e)
		return ok && k == v
	}

	c.Rule("C10-R2", "LIMIT-LOOP: the limit removal sits in a loop that runs once per datum in excess of the limit — `for i := len(s); i > Limit; i--`, `for n := len(s) - Limit; n > 0; n--`, `for i := 0; i < excess; i++` with excess = len(s) - Limit taken before the loop, or `for len(s) > Limit` — under Limit > 0, with one removal per iteration")
	for i, h := range limitCalls {
		key := fmt.Sprintf("%s|limit removal#%d", cb.Key, i+1)
		var loop *ast.ForStmt
		core.InspectNoLit(cb.Body, func(n ast.Node) bool {
			if fs, ok := n.(*ast.ForStmt); ok && fs.Body.Pos() <= h.N.Pos() && h.N.End() <= fs.Body.End() {
				loop = fs
			}
			return true
		})
		if loop == nil {
			if len(h.N.(*ast.CallExpr).Args) == 0 {
				c.Fail("C10-R2", key, pos(c, h.N), "the oldest datum is removed once, not once per datum in excess of the limit")
			} else {
				c.Undecided("C10-R2", key, pos(c, h.N), "the limit phase is not a loop around a remove-one call: its count is not recognised")
			}
			continue
		}
		// the loop's counting form
		form, wrong := "", ""
		var iv types.Object
		var initRhs ast.Expr
		if as, ok := loop.Init.(*ast.AssignStmt); ok && len(as.Lhs) == 1 && len(as.Rhs) == 1 {
			iv = identObj(info, as.Lhs[0])
			initRhs = as.Rhs[0]
		}
		post := token.ILLEGAL
		if p, ok := loop.Post.(*ast.IncDecStmt); ok && iv != nil && identObj(info, p.X) == iv {
			post = p.Tok
		}
		var cmp mxCmp
		haveCmp := false
		if be, ok := core.Unparen(loop.Cond).(*ast.BinaryExpr); ok && mxNegOp(be.Op) != token.ILLEGAL {
			cmp, haveCmp = mxCmp{be.X, be.Y, be.Op}, true
		}
		isIV := func(e ast.Expr) bool { return iv != nil && identObj(info, e) == iv }
		switch {
		case !haveCmp:
		case loop.Init == nil && loop.Post == nil:
			// while form: len(s) > Limit, re-evaluated
			if oc, ok := cmp.mxOrient(func(e ast.Expr) bool { return isLenLV(e, loop.Cond) }); ok && isLimit(oc.R, loop.Cond) {
				switch oc.Op {
				case token.GTR:
					form = "for len(s) > Limit"
				case token.GEQ:
					wrong = "the loop runs while len(s) >= Limit: one datum more than the excess is removed"
				}
			}
		case iv != nil && post == token.DEC && isLenLV(initRhs, loop.Init):
			if oc, ok := cmp.mxOrient(isIV); ok && isLimit(oc.R, loop.Cond) {
				switch oc.Op {
				case token.GTR:
					form = "for i := len(s); i > Limit; i--"
				case token.GEQ:
					wrong = "the loop counts from len(s) down to Limit inclusive: one datum more than the excess is removed"
				}
			}
		case iv != nil && post == token.DEC && isExcess(initRhs, loop.Init):
			if oc, ok := cmp.mxOrient(isIV); ok && isConst(oc.R, 0) {
				switch oc.Op {
				case token.GTR:
					form = "for n := len(s) - Limit; n > 0; n--"
				case token.GEQ:
					wrong = "the loop counts the excess down to 0 inclusive: one datum more than the excess is removed"
				}
			}
		case iv != nil && post == token.INC && isConst(initRhs, 0):
			if oc, ok := cmp.mxOrient(isIV); ok && oc.Op == token.LSS {
				if id, isId := core.Unparen(oc.R).(*ast.Ident); isId && isExcess(id, loop.Cond) {
					// the bound must have been taken before the loop
					if v := mxLocalVar(cb, id); v != nil {
						if sites := mxDefsOf(cb)[v]; len(sites) == 1 && sites[0].node.End() <= loop.Pos() {
							form = "for i := 0; i < excess; i++ with excess taken before the loop"
						}
					}
				} else if isExcess(oc.R, loop.Cond) {
					wrong = "the bound len(s) - Limit is re-evaluated while the slice shrinks: only about half of the excess is removed"
				}
			}
		}
		// Limit > 0 on every path to the loop
		lp, okp := g.PointOf(loop.Cond)
		guard, guardSeen := false, false
		if okp {
			dom, _ := mxDomEdges(g, nil, lp, nil)
			for _, e := range dom {
				cmpE, ok := mxCmpOf(e)
				if !ok {
					continue
				}
				oc, ok := cmpE.mxOrient(func(x ast.Expr) bool { return isLimit(x, e.Cond) })
				if !ok {
					continue
				}
				k, isK := mxConstInt(cb, oc.R)
				if !isK {
					continue
				}
				guardSeen = true
				if (oc.Op == token.GTR && k >= 0) || (oc.Op == token.GEQ && k >= 1) {
					guard = true
				}
			}
		}
		cnt, okc := iterationCount(g, loop, []core.Point{h.P})
		once := okc && cnt.Min == 1 && cnt.Max == 1
		// the length, the limit and the removal are the same metric's
		if form != "" {
			bases := map[string]bool{}
			ast.Inspect(loop, func(n ast.Node) bool {
				if sel, ok := n.(*ast.SelectorExpr); ok {
					if s, ok := mxIsField(info, sel, "metrics.Metric", "Limit"); ok {
						bases[mxCanon(cb, s.X, loop)] = true
					}
					if s, ok := mxIsField(info, sel, "metrics.Metric", "LabelValues"); ok {
						bases[mxCanon(cb, s.X, loop)] = true
					}
				}
				return true
			})
			if r := core.RecvExpr(h.N.(*ast.CallExpr)); r != nil {
				bases[mxCanon(cb, r, loop)] = true
			}
			if len(bases) > 1 {
				form = ""
			}
		}
		switch {
		case wrong != "":
			c.Fail("C10-R2", key, pos(c, loop), "the limit phase does not remove exactly len-Limit oldest data: "+wrong)
		case !once:
			c.Fail("C10-R2", key, pos(c, loop), fmt.Sprintf("the limit phase does not remove exactly len-Limit oldest data under Limit>0 (removals per iteration=%s)", cnt.String()))
		case !guard && !guardSeen:
			c.Fail("C10-R2", key, pos(c, loop), "the limit phase does not remove exactly len-Limit oldest data under Limit>0 (guard=false): a metric without a limit (Limit 0) loses all its data")
		case !guard:
			c.Undecided("C10-R2", key, pos(c, loop), "the limit loop is guarded by a comparison of Limit with a constant that does not establish Limit > 0 in a recognised way")
		case form == "":
			c.Undecided("C10-R2", key, pos(c, loop), "the limit loop is not one of the recognised counting forms: its iteration count is not decided")
		default:
			c.Ok("C10-R2", key, pos(c, loop), "len-Limit removals under Limit>0 ("+form+")")
		}
	}
	c.Floor("C10-R2", 1)

	c.Rule("C10-R3", "ARG-MIN: RemoveOldestDatum loops over all of m.LabelValues, replaces its candidate exactly when there is none yet or the element's last update is Before the candidate's (ties may go either way), and removes exactly the candidate's Labels")
	{
		og := old.Graph()
		oinfo := old.Info()
		var loop *mxLoop
		for _, l := range mxLoops(old) {
			if !l.Alias {
				continue
			}
			if b, _ := mxFoldCandidate(old, l); b != nil || loop == nil {
				loop = l
			}
		}
		if loop == nil {
			c.Undecided("C10-R3", mOldest+"|fold", pos(c, old.Decl), "no loop over m.LabelValues: victim selection not recognised")
		} else {
			best, upd := mxFoldCandidate(old, loop)
			verdict, why := "undecided", "no candidate update found"
			if best != nil && len(upd) > 0 {
				verdict, why = mxFoldVerdict(old, loop, best, upd)
			}
			if early := earlyLoopExits(c, og, loop.Stmt); len(early) > 0 && verdict != "undecided" {
				verdict, why = "fail", "the scan can stop early: "+early[0]
			}
			if loop.Whole == "no" && verdict != "undecided" {
				verdict, why = "fail", "the scan covers only a part of the slice ("+nospace(exprStr(loop.Slice))+"): an older datum outside it is never the victim"
			} else if loop.Whole != "yes" && verdict == "ok" {
				verdict, why = "undecided", "whether the scan visits every element of the slice is not recognised"
			}
			switch verdict {
			case "ok":
				c.Ok("C10-R3", mOldest+"|fold", pos(c, loop.Stmt), "candidate replaced only by a strictly older (or equal) element; on (none yet, older, equal, newer) the fold does "+why)
			case "fail":
				c.Fail("C10-R3", mOldest+"|fold", pos(c, loop.Stmt), why)
			default:
				c.Undecided("C10-R3", mOldest+"|fold", pos(c, loop.Stmt), why)
			}
			// removal of best.Labels
			okRem, seen := false, false
			for _, h := range og.Calls(func(id string, call *ast.CallExpr) bool { cf := old.CalleeFunc(call); return cf != nil && rmv[cf] }) {
				call := h.N.(*ast.CallExpr)
				seen = true
				if best != nil && len(call.Args) == 1 {
					if sel, ok := mxIsField(oinfo, mxResolveAt(old, call.Args[0], call), "metrics.LabelValue", "Labels"); ok && identObj(oinfo, sel.X) == best {
						okRem = true
					}
				}
			}
			if !seen {
				c.Undecided("C10-R3", mOldest+"|removes the victim", pos(c, old.Decl), "no removal call found in the victim selection")
			} else {
				c.Verdict(okRem, "C10-R3", mOldest+"|removes the victim", pos(c, old.Decl), "RemoveDatum(best.Labels...)", "the tuple removed is not the selected victim's")
			}
		}
	}
	c.Floor("C10-R3", 2)

	c.Rule("C10-R4", "EXPIRY: every path (within the iteration) to the expiry removal has established `Expiry > 0` and `now.Sub(last update) > Expiry` (strict; or the equivalent After/Before form on last update + Expiry) for the element whose Labels are removed; `now` is time.Now() evaluated once in Gc before Range")
	var nowUses []ast.Expr // the `now` operands of the age comparisons, in cb
	for i, h := range expCalls {
		key := fmt.Sprintf("%s|expiry removal#%d", cb.Key, i+1)
		call := h.N.(*ast.CallExpr)
		var elem string
		if len(call.Args) == 1 {
			if sel, ok := mxIsField(info, mxResolveAt(cb, call.Args[0], call), "metrics.LabelValue", "Labels"); ok {
				elem = mxCanon(cb, sel.X, call)
			}
		}
		if elem == "" {
			c.Fail("C10-R4", key, pos(c, call), "the expiry removal does not remove the Labels of the label value whose expiry was examined")
			continue
		}
		isElemExpr := func(e ast.Expr, at ast.Node) bool { return e != nil && mxCanon(cb, e, at) == elem }
		isExpiry := func(e ast.Expr, at ast.Node) bool {
			sel, ok := mxIsField(info, mxResolveAt(cb, e, at), "metrics.LabelValue", "Expiry")
			return ok && isElemExpr(sel.X, at)
		}
		// age: T.Sub(elem.Value.TimeUTC())
		isAge := func(e ast.Expr, at ast.Node) (ast.Expr, bool) {
			sub, ok := mxResolveAt(cb, e, at).(*ast.CallExpr)
			if !ok || cb.CalleeID(sub) != "time.Time.Sub" || len(sub.Args) != 1 {
				return nil, false
			}
			if !isElemExpr(mxTimeOf(cb, sub.Args[0], at), at) {
				return nil, false
			}
			return core.RecvExpr(sub), true
		}
		// deadline: elem.Value.TimeUTC().Add(elem.Expiry)
		isDeadline := func(e ast.Expr, at ast.Node) bool {
			add, ok := mxResolveAt(cb, e, at).(*ast.CallExpr)
			if !ok || cb.CalleeID(add) != "time.Time.Add" || len(add.Args) != 1 {
				return false
			}
			return isElemExpr(mxTimeOf(cb, core.RecvExpr(add), at), at) && isExpiry(add.Args[0], at)
		}
		start, back := mxIterStart(g, mxInnermostLoop(cb, call))
		dom, _ := mxDomEdges(g, start, h.P, back)
		pred, skip := false, false
		notStrict, inverted := false, false
		for _, e := range dom {
			if cmp, ok := mxCmpOf(e); ok {
				if oc, ok := cmp.mxOrient(func(x ast.Expr) bool { return isExpiry(x, e.Cond) }); ok {
					if k, isK := mxConstInt(cb, oc.R); isK && k == 0 {
						// Expiry op 0
						if oc.Op == token.GTR || oc.Op == token.NEQ {
							skip = true
						}
						continue
					}
					if k, isK := mxConstInt(cb, oc.R); isK && k == 1 && oc.Op == token.GEQ {
						skip = true
						continue
					}
					if now, ok := isAge(oc.R, e.Cond); ok {
						// Expiry op age
						switch oc.Op {
						case token.LSS:
							pred = true
							nowUses = append(nowUses, now)
						case token.LEQ:
							notStrict = true
						default:
							inverted = true
						}
					}
				}
				continue
			}
			// now.After(deadline) / deadline.Before(now)
			if tc, ok := core.Unparen(e.Cond).(*ast.CallExpr); ok && len(tc.Args) == 1 {
				id := cb.CalleeID(tc)
				r := core.RecvExpr(tc)
				var now ast.Expr
				switch {
				case id == "time.Time.After" && isDeadline(tc.Args[0], e.Cond):
					now = r // now.After(deadline): strict when true
				case id == "time.Time.Before" && isDeadline(r, e.Cond):
					now = tc.Args[0] // deadline.Before(now): strict when true
				case id == "time.Time.Before" && isDeadline(tc.Args[0], e.Cond):
					// now.Before(deadline): false edge asserts now >= deadline: not strict
					if !e.True {
						notStrict = true
					} else {
						inverted = true
					}
					continue
				case id == "time.Time.After" && isDeadline(r, e.Cond):
					// deadline.After(now): false edge asserts deadline <= now: not strict
					if !e.True {
						notStrict = true
					} else {
						inverted = true
					}
					continue
				default:
					continue
				}
				if e.True {
					pred = true
					nowUses = append(nowUses, now)
				} else {
					inverted = true
				}
			}
		}
		detail := ""
		switch {
		case pred && skip:
		case notStrict && !pred:
			detail = "the comparison of the age with Expiry is not strict: a datum exactly Expiry old is removed, the statement says \"more than\""
		case inverted && !pred:
			detail = "the comparison of the age with Expiry is inverted: fresh data are removed and expired data kept"
		}
		c.Verdict(pred && skip, "C10-R4", key, pos(c, call), "Expiry>0 and now-lastUpdate > Expiry (strict)", fmt.Sprintf("the expiry removal is not guarded by `Expiry > 0` (found=%v) and `now.Sub(last update) > Expiry` strictly (found=%v): data without a delayed delete, or data exactly Expiry old, are removed — or expired data are kept. %s", skip, pred, detail))
	}
	{
		// `now`: one time.Now() in Gc itself, outside literals and loops, assigned to the variable the age comparison uses
		gg := gcf.Graph()
		total := 0
		for _, f := range append([]*core.Func{gcf, cb}, gcf.Lits...) {
			if f == cb && (cb == gcf || cb.Decl == gcf.Decl) {
				continue
			}
			core.InspectNoLit(f.Body, func(n ast.Node) bool {
				if call, ok := n.(*ast.CallExpr); ok && f.CalleeID(call) == "time.Now" {
					total++
				}
				return true
			})
		}
		nows := gg.CallsTo("time.Now")
		okNow := len(nows) == 1 && total == 1
		why := fmt.Sprintf("%d time.Now() calls in Gc outside its callback, %d in all", len(nows), total)
		var nowObj types.Object
		if okNow {
			call := nows[0].N.(*ast.CallExpr)
			if mxInnermostLoop(gcf, call) != nil {
				okNow, why = false, "time.Now() is evaluated inside a loop"
			} else if as := assignOf(gcf, call); as != nil && len(as.Lhs) == 1 {
				nowObj = identObj(gcf.Info(), as.Lhs[0])
			} else {
				ast.Inspect(gcf.Body, func(n ast.Node) bool {
					if vs, ok := n.(*ast.ValueSpec); ok && len(vs.Values) == 1 && len(vs.Names) == 1 && core.Unparen(vs.Values[0]) == ast.Expr(call) {
						nowObj = gcf.Info().Defs[vs.Names[0]]
					}
					return true
				})
			}
			if okNow && nowObj == nil {
				okNow, why = false, "the result of time.Now() is not kept in a variable"
			}
		}
		undec := ""
		if okNow {
			// each age comparison's `now` is that variable (possibly passed down as a parameter)
			for _, u := range nowUses {
				o := identObj(info, core.Unparen(u))
				if o != nowObj {
					if pi, isParam := mxPureParam(cb, o); isParam && pi >= 0 {
						sites := mxCallSites(c.Prog, cb)
						o = nil
						if len(sites) == 1 {
							if a := mxArgFor(sites[0].Call, cb, pi); a != nil {
								o = identObj(sites[0].In.Info(), core.Unparen(a))
							}
						}
					}
				}
				if o != nowObj {
					undec = "the time compared with the last update is not recognisably the variable holding Gc's single time.Now()"
				}
			}
			if len(mxDefsOf(gcf)[nowObj]) != 1 {
				okNow, why = false, "the variable holding time.Now() is assigned again"
			}
		}
		switch {
		case !okNow:
			c.Fail("C10-R4", storeGc+"|now once", pos(c, gcf.Decl), "the GC pass does not use a single instant T for all data: "+why)
		case undec != "":
			c.Undecided("C10-R4", storeGc+"|now once", pos(c, gcf.Decl), undec)
		default:
			c.Ok("C10-R4", storeGc+"|now once", pos(c, gcf.Decl), "one time.Now() before the iteration")
		}
	}
	c.Floor("C10-R4", 2)

	c.Rule("C10-R5", "INDEX: in a forward index scan of the slice being spliced, no path leads from the removal of element i to an increment of i without passing a decrement of i (a backward scan or a scan over a fresh copy needs no step back); the scan's bound is the current length of the slice")
	for i, h := range expCalls {
		key := fmt.Sprintf("%s|scan#%d", cb.Key, i+1)
		loopStmt := mxInnermostLoop(cb, h.N)
		if loopStmt == nil {
			c.Undecided("C10-R5", key, pos(c, h.N), "expiry removal not inside a loop")
			continue
		}
		var ml *mxLoop
		for _, l := range mxLoops(cb) {
			if l.Stmt == loopStmt {
				ml = l
			}
		}
		if ml == nil {
			c.Undecided("C10-R5", key, pos(c, h.N), "the loop around the expiry removal is not a recognised scan of the metric's label values")
			continue
		}
		if !ml.Alias {
			c.Ok("C10-R5", key, pos(c, loopStmt), "the scan walks a fresh copy of the slice: removals do not move its elements")
			c.Ok("C10-R5", key+"|bound", pos(c, loopStmt), "bound of a fresh copy")
			continue
		}
		loop, isFor := loopStmt.(*ast.ForStmt)
		if !isFor {
			// a range loop over the live slice: decided by R7
			c.Note("C10-R5", key, pos(c, loopStmt), "range loop over the live slice: decided by C10-R7")
			c.Note("C10-R5", key+"|bound", pos(c, loopStmt), "range loop over the live slice: decided by C10-R7")
			continue
		}
		iv := ml.Idx
		isIV := func(e ast.Expr) bool { return identObj(info, e) == iv }
		step := func(n ast.Node) int { // +1, -1, or 0 for a statement changing iv
			switch s := n.(type) {
			case *ast.IncDecStmt:
				if isIV(s.X) {
					if s.Tok == token.INC {
						return 1
					}
					return -1
				}
			case *ast.AssignStmt:
				if len(s.Lhs) == 1 && len(s.Rhs) == 1 && isIV(s.Lhs[0]) && isConst(s.Rhs[0], 1) {
					switch s.Tok {
					case token.ADD_ASSIGN:
						return 1
					case token.SUB_ASSIGN:
						return -1
					}
				}
			}
			return 0
		}
		inLoop := func(n ast.Node) bool {
			return loop.Pos() <= n.Pos() && n.End() <= loop.End() && !(loop.Init != nil && loop.Init.Pos() <= n.Pos() && n.End() <= loop.Init.End())
		}
		incs := g.Find(func(n ast.Node) bool { return inLoop(n) && step(n) == 1 })
		decs := g.Find(func(n ast.Node) bool { return inLoop(n) && step(n) == -1 })
		postDec := loop.Post != nil && step(loop.Post) == -1
		var initRhs ast.Expr
		if as, ok := loop.Init.(*ast.AssignStmt); ok && len(as.Rhs) == 1 {
			initRhs = as.Rhs[0]
		}
		if postDec {
			// backward scan: for i := len(s)-1; i >= 0; i--
			okInit := false
			if be, ok := mxResolveAt(cb, initRhs, loop.Init).(*ast.BinaryExpr); ok && be.Op == token.SUB && isLenLV(be.X, loop.Init) && isConst(be.Y, 1) {
				okInit = true
			}
			okCond := false
			if be, ok := core.Unparen(loop.Cond).(*ast.BinaryExpr); ok {
				if oc, ok := (mxCmp{be.X, be.Y, be.Op}).mxOrient(isIV); ok {
					okCond = (oc.Op == token.GEQ && isConst(oc.R, 0)) || (oc.Op == token.GTR && isConst(oc.R, -1))
				}
			}
			if okInit && okCond && len(incs) == 0 && len(decs) == 1 {
				c.Ok("C10-R5", key, pos(c, loop), "backward scan: the elements that move were already examined")
				c.Ok("C10-R5", key+"|bound", pos(c, loop), "from the last index down to 0")
			} else {
				c.Undecided("C10-R5", key, pos(c, loop), "the scan steps its index down but is not the recognised backward scan `for i := len(s)-1; i >= 0; i--`")
			}
			continue
		}
		if len(incs) == 0 {
			c.Undecided("C10-R5", key, pos(c, loop), "no increment of the scan index found")
			continue
		}
		from := h.P
		_, backEdge := mxIterStart(g, loop)
		trb, found := g.Search(core.Query{From: &from, Goal: core.At(core.HitPoints(incs)...), Avoid: core.At(core.HitPoints(decs)...), AvoidEdge: backEdge})
		tr := g.Trail(trb)
		c.Verdict(!found, "C10-R5", key, pos(c, loop), "the index is not advanced past the slot the removal refilled", "after removing element i the scan advances without stepping back: the element that moved into position i is skipped (an expired datum survives the pass)", tr...)
		if v, ok := mxConstInt(cb, initRhs); initRhs != nil && ok && v != 0 {
			c.Fail("C10-R5", key+"|bound", pos(c, loop), fmt.Sprintf("the scan's bound is not the current length of the slice being spliced: the scan starts at index %d, the data before it are never examined", v))
			continue
		}
		// the bound: i < len(s), re-evaluated
		verdict, why := "undecided", "the scan's condition is not a comparison of the index with the slice's length"
		if be, ok := core.Unparen(loop.Cond).(*ast.BinaryExpr); ok {
			if oc, ok := (mxCmp{be.X, be.Y, be.Op}).mxOrient(isIV); ok {
				direct := false
				if call, ok := core.Unparen(oc.R).(*ast.CallExpr); ok && cb.CalleeID(call) == "builtin.len" && len(call.Args) == 1 && isLV(call.Args[0]) {
					direct = true
				}
				switch {
				case direct && (oc.Op == token.LSS || oc.Op == token.NEQ):
					verdict = "ok"
				case direct:
					verdict, why = "fail", "the scan's condition lets the index reach the slice's length"
				case isLenLV(oc.R, loop.Cond):
					verdict, why = "fail", "the length was taken before the loop: after a removal the index runs past the end of the shortened slice"
				}
			}
		}
		switch verdict {
		case "ok":
			c.Ok("C10-R5", key+"|bound", pos(c, loop), "re-evaluated length bound")
		case "fail":
			c.Fail("C10-R5", key+"|bound", pos(c, loop), "the scan's bound is not the current length of the slice being spliced: "+why)
		default:
			c.Undecided("C10-R5", key+"|bound", pos(c, loop), why)
		}
	}
	c.Floor("C10-R5", 2)

	c.Rule("C10-R6", "WRITE-SET: the fields of Store/Metric/LabelValue that the GC callback and the functions it calls can assign are exactly Metric.LabelValues and Metric.labelValuesMap")
	{
		ws := map[string]bool{}
		fs := append([]*core.Func{}, closureFrom(c.Prog.FuncOf[gcf.Decl])...)
		for _, f := range fs {
			if core.Rel(f.Pkg.PkgPath) != "internal/metrics" {
				continue
			}
			for k := range metricFieldWrites(f) {
				ws[k] = true
			}
		}
		var extra []string
		for k := range ws {
			if k != "Metric.LabelValues" && k != "Metric.labelValuesMap" {
				extra = append(extra, k)
			}
		}
		c.Verdict(len(extra) == 0 && ws["Metric.LabelValues"], "C10-R6", storeGc+"|write set", pos(c, gcf.Decl), "only the slice/map pair", "a GC pass can also assign "+strings.Join(extra, ", ")+": something other than the removed data changes")
	}
	for _, f := range closureFrom(c.Prog.FuncOf[gcf.Decl]) {
		if core.Rel(f.Pkg.PkgPath) != "internal/metrics" {
			continue
		}
		isLV := lvAliases(f)
		ast.Inspect(f.Body, func(n ast.Node) bool {
			if call, ok := n.(*ast.CallExpr); ok && isSortCall(f, call) && isLV(call.Args[0]) {
				c.Fail("C10-R6", f.Key+"|reorders the slice", pos(c, call), "a GC pass sorts the metric's own label-value slice (a reslice shares its backing array): the enumeration order of data that are kept changes, and removals made while walking the sorted alias shift elements under the walk")
			}
			return true
		})
	}
	c.Floor("C10-R6", 1)

	c.Rule("C10-R7", "STABLE-ITERATION: a `range` loop over a metric's LabelValues (or a reslice/alias of it, which shares the backing array) whose body can remove a label value must leave the loop right after the removal — the splice shifts later elements one slot down under the iteration, so the walk would skip elements and see stale ones; index loops are covered by R5")
	n7 := 0
	for _, f := range shipped(c) {
		if core.Rel(f.Pkg.PkgPath) != "internal/metrics" {
			continue
		}
		lvBase := lvBases(f)
		fg := f.Graph()
		for _, rs := range rangeStmts(f) {
			ranged, isLV := lvBase(rs.X)
			if !isLV {
				continue
			}
			n7++
			key := fmt.Sprintf("%s|range over label values#%d", f.Key, n7)
			head, _, _ := loopBlocks(fg, rs)
			bad := false
			for _, h := range fg.Calls(func(id string, call *ast.CallExpr) bool {
				cf := f.CalleeFunc(call)
				return cf != nil && rmv[cf] && rs.Body.Pos() <= call.Pos() && call.End() <= rs.Body.End()
			}) {
				from := h.P
				// whose label values does the call remove?  the receiver (or first argument) metric
				var victim types.Object
				call := h.N.(*ast.CallExpr)
				if r := core.RecvExpr(call); r != nil {
					victim = identObj(f.Info(), r)
				}
				if ranged != nil && victim != nil && ranged != victim {
					continue // removes from another metric than the one iterated (Store.Add: old version v, new version m)
				}
				if ranged == nil || victim == nil {
					bad = true
					c.Undecided("C10-R7", key, pos(c, h.N), "cannot tell whether the removal inside the loop acts on the metric being iterated")
					continue
				}
				if tr, again := fg.Search(core.Query{From: &from, Goal: func(p core.Point) bool { return p.B == head && p.I == 0 }}); again && head != nil {
					bad = true
					c.Fail("C10-R7", key, pos(c, h.N), "a label value is removed while a range loop over the metric's own slice (or an alias of its backing array) keeps iterating: the splice moves the following elements down, so the loop skips every other element and then reads stale duplicates — the data removed are not the ones selected (for the size limit: not the oldest), and fewer than intended are removed", fg.Trail(tr)...)
				}
			}
			if !bad {
				c.Ok("C10-R7", key, pos(c, rs), "no removal inside the loop continues the iteration")
			}
		}
	}
	c.Floor("C10-R7", 2)
}

// mxFoldCandidate finds the candidate of a fold: a variable declared outside
// the loop that is assigned the current element inside it, with the CFG points of those assignments.
func mxFoldCandidate(f *core.Func, loop *mxLoop) (best types.Object, upd []core.Point) {
	info := f.Info()
	g := f.Graph()
	ast.Inspect(loop.Body, func(n ast.Node) bool {
		as, ok := n.(*ast.AssignStmt)
		if !ok || as.Tok != token.ASSIGN || len(as.Lhs) != len(as.Rhs) {
			return true
		}
		for i := range as.Lhs {
			if !loop.isElem(as.Rhs[i]) {
				continue
			}
			o := identObj(info, as.Lhs[i])
			if o == nil || (loop.Stmt.Pos() <= o.Pos() && o.Pos() <= loop.Stmt.End()) {
				continue
			}
			if best == nil || best == o {
				best = o
				if p, ok := g.PointOf(as); ok {
					upd = append(upd, p)
				}
			}
		}
		return true
	})
	return
}

// mxFoldTimes finds the variables that always hold the candidate's time: every
// assignment to them stores the current element's time in the statement (or
// the block) that makes the element the candidate.
func mxFoldTimes(f *core.Func, loop *mxLoop, best types.Object) map[types.Object]bool {
	info := f.Info()
	// the blocks (and statements) that update the candidate
	updStmts := map[ast.Node]bool{}
	updBlocks := map[*ast.BlockStmt]bool{}
	ast.Inspect(loop.Body, func(n ast.Node) bool {
		if blk, ok := n.(*ast.BlockStmt); ok {
			for _, st := range blk.List {
				if as, ok := st.(*ast.AssignStmt); ok && as.Tok == token.ASSIGN && len(as.Lhs) == len(as.Rhs) {
					for i := range as.Lhs {
						if identObj(info, as.Lhs[i]) == best && loop.isElem(as.Rhs[i]) {
							updStmts[as] = true
							updBlocks[blk] = true
						}
					}
				}
			}
		}
		return true
	})
	inUpdBlock := func(n ast.Node) bool {
		if updStmts[n] {
			return true
		}
		for blk := range updBlocks {
			for _, st := range blk.List {
				if st == n {
					return true
				}
			}
		}
		return false
	}
	out := map[types.Object]bool{}
	for o, sites := range mxDefsOf(f) {
		if o == best || !strings.HasSuffix(o.Type().String(), "time.Time") {
			continue
		}
		okAll, n := true, 0
		for _, s := range sites {
			if s.rhs == nil && !s.opaque {
				continue // zero-value declaration
			}
			n++
			if s.opaque || s.n != 1 || !inUpdBlock(s.node) {
				okAll = false
				break
			}
			x := mxTimeOf(f, s.rhs, s.node)
			if x == nil || !loop.isElem(x) {
				okAll = false
				break
			}
		}
		if okAll && n > 0 && !(loop.Stmt.Pos() <= o.Pos() && o.Pos() <= loop.Stmt.End()) {
			out[o] = true
		}
	}
	return out
}

// mxFoldVerdict evaluates the control flow of an arg-min fold's loop body on
// the four cases — no candidate yet, element older than the candidate, equally
// old, newer — by walking the CFG from the start of the body and deciding each
// condition from the case; it must reach the candidate update in the first
// two, may in the third, must not in the fourth.
func mxFoldVerdict(f *core.Func, loop *mxLoop, best types.Object, upd []core.Point) (verdict, why string) {
	g := f.Graph()
	info := f.Info()
	head, body, _ := loopBlocks(g, loop.Stmt)
	if head == nil || body == nil {
		return "undecided", "loop blocks not found"
	}
	isUpd := map[core.Point]bool{}
	for _, p := range upd {
		isUpd[p] = true
	}
	isBest := func(e ast.Expr) bool { return e != nil && identObj(info, core.Unparen(e)) == best }
	// who: "e" the element, "b" the candidate, "" unknown
	bestTimes := mxFoldTimes(f, loop, best)
	who := func(e ast.Expr, at ast.Node) string {
		if o := identObj(info, core.Unparen(e)); o != nil && bestTimes[o] {
			return "b"
		}
		x := mxTimeOf(f, e, at)
		switch {
		case x == nil:
			return ""
		case isBest(x):
			return "b"
		case loop.isElem(x):
			return "e"
		}
		return ""
	}
	// eval returns the value of a condition in a case, or "?"
	var eval func(cond ast.Expr, sc string) string
	eval = func(cond ast.Expr, sc string) string {
		cond = core.Unparen(cond)
		b2s := func(b bool) string {
			if b {
				return "t"
			}
			return "f"
		}
		if u, ok := cond.(*ast.UnaryExpr); ok && u.Op == token.NOT {
			switch v := eval(u.X, sc); v {
			case "t":
				return "f"
			case "f":
				return "t"
			default:
				return v
			}
		}
		if be, ok := cond.(*ast.BinaryExpr); ok && (be.Op == token.LAND || be.Op == token.LOR) {
			l := eval(be.X, sc)
			if l != "t" && l != "f" {
				return l
			}
			if (be.Op == token.LAND) == (l == "f") {
				return l // short circuit
			}
			return eval(be.Y, sc)
		}
		if be, ok := cond.(*ast.BinaryExpr); ok && (be.Op == token.EQL || be.Op == token.NEQ) {
			var other ast.Expr
			if isNilIdent(info, be.Y) {
				other = be.X
			} else if isNilIdent(info, be.X) {
				other = be.Y
			}
			if other != nil && isBest(other) {
				return b2s((sc == "none") == (be.Op == token.EQL))
			}
			return "?"
		}
		if call, ok := cond.(*ast.CallExpr); ok && len(call.Args) == 1 {
			id := f.CalleeID(call)
			if id != "time.Time.Before" && id != "time.Time.After" && id != "time.Time.Equal" {
				return "?"
			}
			x, y := who(core.RecvExpr(call), cond), who(call.Args[0], cond)
			if x == "" || y == "" || x == y {
				return "?"
			}
			if sc == "none" {
				return "nil" // the candidate's time is read while there is none
			}
			// relation of the element to the candidate in this case: older / equal / newer
			switch id {
			case "time.Time.Equal":
				return b2s(sc == "equal")
			case "time.Time.Before":
				if x == "e" {
					return b2s(sc == "older")
				}
				return b2s(sc == "newer")
			default: // After
				if x == "e" {
					return b2s(sc == "newer")
				}
				return b2s(sc == "older")
			}
		}
		return "?"
	}
	// the candidate starts out nil?
	startsNil := false
	sites := mxDefsOf(f)[best]
	for _, s := range sites {
		if s.node.End() <= loop.Stmt.Pos() {
			startsNil = s.rhs == nil || isNilIdent(info, s.rhs)
		}
	}
	run := func(sc string) string { // "replace", "keep", "?…"
		b := body
		for steps := 0; steps < 200; steps++ {
			for i := range b.Nodes {
				if isUpd[core.Point{B: b, I: i}] {
					return "replace"
				}
			}
			if b == head {
				return "keep"
			}
			switch len(b.Succs) {
			case 0:
				return "keep" // leaves the function: reported by the early-exit check
			case 1:
				b = b.Succs[0]
			case 2:
				if len(b.Nodes) == 0 {
					return "?an unconditioned branch"
				}
				cond, ok := b.Nodes[len(b.Nodes)-1].(ast.Expr)
				if !ok {
					return "?a branch that is not a condition"
				}
				switch eval(cond, sc) {
				case "t":
					b = b.Succs[0]
				case "f":
					b = b.Succs[1]
				case "nil":
					return "?the candidate's time is read while there is no candidate (" + exprStr(cond) + ")"
				default:
					return "?unrecognised comparison " + nospace(exprStr(cond))
				}
			default:
				return "?a multi-way branch"
			}
			if b == head {
				return "keep"
			}
		}
		return "?no end of the iteration found"
	}
	res := map[string]string{}
	for _, sc := range []string{"none", "older", "equal", "newer"} {
		if sc == "none" && !startsNil {
			res[sc] = "n/a"
			continue
		}
		res[sc] = run(sc)
		if strings.HasPrefix(res[sc], "?") {
			return "undecided", "case `" + sc + "`: " + res[sc][1:]
		}
	}
	if !startsNil {
		return "undecided", "the candidate does not start out nil: initialisation not recognised"
	}
	summary := fmt.Sprintf("(%s, %s, %s, %s)", res["none"], res["older"], res["equal"], res["newer"])
	switch {
	case res["newer"] == "replace":
		return "fail", "the candidate is replaced when the element is NEWER: the newest datum is evicted " + summary
	case res["older"] == "keep":
		return "fail", "an element older than the candidate does not replace it: the datum evicted is not the oldest " + summary
	case res["none"] == "keep":
		return "fail", "the first element never becomes the candidate: nothing is selected " + summary
	}
	return "ok", summary
}

var _ = cfg.KindBody

// isSortCall reports whether call is an in-place sort of its first argument.
func isSortCall(f *core.Func, call *ast.CallExpr) bool {
	id := f.CalleeID(call)
	return len(call.Args) > 0 && (strings.HasPrefix(id, "sort.") || strings.HasPrefix(id, "slices.Sort") || id == "slices.Reverse")
}

// lvAliases returns a predicate telling whether an expression denotes the
// backing array of some Metric's LabelValues inside f: the field itself, a
// reslice of it, or a local assigned from one of those (not a copy made with
// append/copy/make).
func lvAliases(f *core.Func) func(ast.Expr) bool {
	base := lvBases(f)
	return func(e ast.Expr) bool { _, ok := base(e); return ok }
}

// lvBases is lvAliases that also tells whose LabelValues the expression
// denotes: the object of the metric variable (nil when the metric is not named
// by a plain identifier).
func lvBases(f *core.Func) func(ast.Expr) (types.Object, bool) {
	info := f.Info()
	type al struct{ base types.Object }
	aliases := map[types.Object]al{}
	var isLV func(e ast.Expr) (types.Object, bool)
	isLV = func(e ast.Expr) (types.Object, bool) {
		for {
			if se, ok := core.Unparen(e).(*ast.SliceExpr); ok {
				e = se.X
				continue
			}
			break
		}
		if sel, ok := core.Unparen(e).(*ast.SelectorExpr); ok {
			if s := info.Selections[sel]; s != nil && s.Kind() == types.FieldVal && s.Obj().Name() == "LabelValues" && strings.HasSuffix(s.Recv().String(), "metrics.Metric") {
				return identObj(info, sel.X), true
			}
		}
		if o := identObj(info, e); o != nil {
			if a, ok := aliases[o]; ok {
				return a.base, true
			}
		}
		return nil, false
	}
	for changed := true; changed; {
		changed = false
		ast.Inspect(f.Body, func(n ast.Node) bool {
			if as, ok := n.(*ast.AssignStmt); ok && len(as.Lhs) == len(as.Rhs) {
				for i, r := range as.Rhs {
					if b, ok := isLV(r); ok {
						if o := identObj(info, as.Lhs[i]); o != nil {
							if _, have := aliases[o]; !have {
								aliases[o] = al{b}
								changed = true
							}
						}
					}
				}
			}
			return true
		})
	}
	return isLV
}

// fieldUsed reports whether e reads the field `name` of the struct type whose
// qualified name ends in recvSuffix.
func fieldUsed(info *types.Info, e ast.Node, recvSuffix, name string) bool {
	found := false
	ast.Inspect(e, func(n ast.Node) bool {
		if sel, ok := n.(*ast.SelectorExpr); ok {
			if s := info.Selections[sel]; s != nil && s.Kind() == types.FieldVal && s.Obj().Name() == name && strings.HasSuffix(s.Recv().String(), recvSuffix) {
				found = true
			}
		}
		return !found
	})
	return found
}

// removers is the set of declared functions that splice a Metric's
// LabelValues or (transitively) call one that does.
func removers(c *core.Check) map[*core.Func]bool {
	return c.Prog.Reaching(func(f *core.Func) bool {
		if core.Rel(f.Pkg.PkgPath) != "internal/metrics" {
			return false
		}
		if splicesLabelValues(f) {
			return true
		}
		for _, lf := range f.Lits {
			if splicesLabelValues(lf) {
				return true
			}
		}
		return false
	})
}

// metricsClosure lists root and the functions of internal/metrics it reaches
// through statically resolved calls.
func metricsClosure(root *core.Func) []*core.Func {
	var out []*core.Func
	for _, f := range closureFrom(root) {
		if core.Rel(f.Pkg.PkgPath) == "internal/metrics" {
			out = append(out, f)
		}
	}
	return out
}

// findInClosure returns root if pred holds for it, else the first function
// (by key) of internal/metrics reachable from root for which it holds: the
// rules follow a public method into the unexported helper that does the work.
func findInClosure(root *core.Func, pred func(*core.Func) bool) *core.Func {
	if pred(root) {
		return root
	}
	for _, f := range metricsClosure(root) {
		if f != root && pred(f) {
			return f
		}
	}
	return nil
}

// splicesLabelValues reports whether f itself assigns a shortened slice to a Metric's LabelValues.
func splicesLabelValues(f *core.Func) bool { return len(mxSplices(f)) > 0 }

// mergedFieldWrites is metricFieldWrites over root and what it reaches inside internal/metrics.
func mergedFieldWrites(root *core.Func) map[string][]ast.Node {
	out := map[string][]ast.Node{}
	for _, f := range metricsClosure(root) {
		for k, v := range metricFieldWrites(f) {
			out[k] = append(out[k], v...)
		}
	}
	return out
}

// isMapLookupOk reports whether cond is the boolean result of a comma-ok
// lookup in the map field named field (`v, ok := x.field[k]; if ok`), or the
// equivalent `v != nil` on the looked-up value.
func isMapLookupOk(f *core.Func, cond ast.Expr, field string) bool {
	info := f.Info()
	var obj types.Object
	switch x := core.Unparen(cond).(type) {
	case *ast.Ident:
		obj = identObj(info, x)
	case *ast.BinaryExpr:
		if x.Op == token.NEQ && isNilIdent(info, x.Y) {
			obj = identObj(info, x.X)
		} else if x.Op == token.NEQ && isNilIdent(info, x.X) {
			obj = identObj(info, x.Y)
		}
	}
	if obj == nil {
		return false
	}
	found := false
	ast.Inspect(f.Body, func(n ast.Node) bool {
		as, ok := n.(*ast.AssignStmt)
		if !ok || len(as.Rhs) != 1 {
			return true
		}
		ix, ok := core.Unparen(as.Rhs[0]).(*ast.IndexExpr)
		if !ok {
			return true
		}
		sel, ok := core.Unparen(ix.X).(*ast.SelectorExpr)
		if !ok || sel.Sel.Name != field {
			return true
		}
		for _, l := range as.Lhs {
			if identObj(info, l) == obj {
				found = true
			}
		}
		return true
	})
	return found
}

// ---------------------------------------------------------------------------
// Resolution helpers (mx…): the rules above compare program structure, not
// spelling.  Locals are followed to their reaching definition, parameters to
// the unique call site, conditions are read off the CFG edges (so if/else,
// early return, switch, `!`, `&&`/`||` and either operand order are the same
// thing), and fields are identified through go/types selections.
// ---------------------------------------------------------------------------

// mxDefSite is one definition of a local variable.
type mxDefSite struct {
	rhs    ast.Expr // defining expression; nil for a zero-value declaration
	idx, n int      // the variable is the idx-th of n left-hand sides of rhs
	node   ast.Node // the defining statement / spec
	opaque bool     // op-assignment, ++/--, &x, range variable: not a plain value definition
}

var mxDefCache = map[*ast.FuncDecl]map[types.Object][]mxDefSite{}

// mxDefsOf collects the definition sites of every variable assigned inside the
// declaration enclosing f (function literals included, so captured variables
// resolve too).
func mxDefsOf(f *core.Func) map[types.Object][]mxDefSite {
	if m, ok := mxDefCache[f.Decl]; ok {
		return m
	}
	info := f.Info()
	m := map[types.Object][]mxDefSite{}
	add := func(e ast.Expr, s mxDefSite) {
		if o := identObj(info, e); o != nil {
			m[o] = append(m[o], s)
		}
	}
	ast.Inspect(f.Decl.Body, func(n ast.Node) bool {
		switch x := n.(type) {
		case *ast.AssignStmt:
			for i, l := range x.Lhs {
				switch {
				case x.Tok != token.DEFINE && x.Tok != token.ASSIGN:
					add(l, mxDefSite{node: x, opaque: true})
				case len(x.Lhs) == len(x.Rhs):
					add(l, mxDefSite{rhs: x.Rhs[i], n: 1, node: x})
				case len(x.Rhs) == 1:
					add(l, mxDefSite{rhs: x.Rhs[0], idx: i, n: len(x.Lhs), node: x})
				}
			}
		case *ast.IncDecStmt:
			add(x.X, mxDefSite{node: x, opaque: true})
		case *ast.ValueSpec:
			for i, nm := range x.Names {
				switch {
				case len(x.Values) == len(x.Names):
					add(nm, mxDefSite{rhs: x.Values[i], n: 1, node: x})
				case len(x.Values) == 1:
					add(nm, mxDefSite{rhs: x.Values[0], idx: i, n: len(x.Names), node: x})
				default:
					add(nm, mxDefSite{node: x, n: 1}) // zero value
				}
			}
		case *ast.RangeStmt:
			if x.Key != nil {
				add(x.Key, mxDefSite{node: x, opaque: true})
			}
			if x.Value != nil {
				add(x.Value, mxDefSite{node: x, opaque: true})
			}
		case *ast.UnaryExpr:
			if x.Op == token.AND {
				add(x.X, mxDefSite{node: x, opaque: true})
			}
		}
		return true
	})
	mxDefCache[f.Decl] = m
	return m
}

// mxLocalVar returns the object of e when e names a variable that is not a field and not package-level.
func mxLocalVar(f *core.Func, e ast.Expr) *types.Var {
	v, ok := identObj(f.Info(), e).(*types.Var)
	if !ok || v.IsField() || v.Parent() == nil || v.Parent() == v.Pkg().Scope() {
		return nil
	}
	return v
}

// mxReaching lists the definitions of obj that can reach the node `at` in f's
// CFG (all definitions when `at` is nil or they lie in another function body).
func mxReaching(f *core.Func, obj types.Object, at ast.Node) []mxDefSite {
	sites := mxDefsOf(f)[obj]
	if len(sites) <= 1 || at == nil {
		return sites
	}
	g := f.Graph()
	use, ok := g.PointOf(at)
	if !ok {
		return sites
	}
	var pts []core.Point
	for _, s := range sites {
		var p core.Point
		found := false
		switch n := s.node.(type) {
		case *ast.RangeStmt:
			// the loop block holds the key/value nodes
			if n.Key != nil {
				p, found = g.PointOf(n.Key)
			}
			if !found && n.Value != nil {
				p, found = g.PointOf(n.Value)
			}
		default:
			p, found = g.PointOf(s.node)
		}
		if !found {
			return sites // a definition in another body (captured variable): no flow information
		}
		pts = append(pts, p)
	}
	var out []mxDefSite
	for i, s := range sites {
		var others []core.Point
		for j, p := range pts {
			if j != i && p != pts[i] {
				others = append(others, p)
			}
		}
		from := pts[i]
		if from == use {
			// `x = f(x)`: the use inside its own definition sees the other definitions
			continue
		}
		if _, ok := g.Search(core.Query{From: &from, Goal: core.At(use), Avoid: core.At(others...)}); ok {
			out = append(out, s)
		}
	}
	if len(out) == 0 {
		return sites
	}
	return out
}

// mxResolveAt follows e, while it is a local variable with exactly one plain
// definition reaching `at`, to the defining expression.
func mxResolveAt(f *core.Func, e ast.Expr, at ast.Node) ast.Expr {
	for i := 0; i < 8; i++ {
		e = core.Unparen(e)
		v := mxLocalVar(f, e)
		if v == nil {
			return e
		}
		sites := mxReaching(f, v, at)
		if len(sites) != 1 || sites[0].opaque || sites[0].rhs == nil || sites[0].n != 1 {
			return e
		}
		if sites[0].rhs == e {
			return e
		}
		e = sites[0].rhs
		at = sites[0].node
	}
	return e
}

// mxResolve is mxResolveAt without a use position (every definition counts).
func mxResolve(f *core.Func, e ast.Expr) ast.Expr { return mxResolveAt(f, e, nil) }

// mxCanon renders e with locals replaced by their definitions, so that two
// spellings of the same value inside one function compare equal.
func mxCanon(f *core.Func, e ast.Expr, at ast.Node) string {
	var rec func(e ast.Expr, depth int) string
	rec = func(e ast.Expr, depth int) string {
		if e == nil {
			return ""
		}
		if depth > 12 {
			return nospace(exprStr(e))
		}
		e = mxResolveAt(f, e, at)
		switch x := e.(type) {
		case *ast.Ident:
			return x.Name
		case *ast.SelectorExpr:
			return rec(x.X, depth+1) + "." + x.Sel.Name
		case *ast.IndexExpr:
			return rec(x.X, depth+1) + "[" + rec(x.Index, depth+1) + "]"
		case *ast.StarExpr:
			return "*" + rec(x.X, depth+1)
		case *ast.UnaryExpr:
			return x.Op.String() + rec(x.X, depth+1)
		case *ast.BinaryExpr:
			return "(" + rec(x.X, depth+1) + x.Op.String() + rec(x.Y, depth+1) + ")"
		case *ast.CallExpr:
			s := rec(x.Fun, depth+1) + "("
			for i, a := range x.Args {
				if i > 0 {
					s += ","
				}
				s += rec(a, depth+1)
			}
			if x.Ellipsis.IsValid() {
				s += "..."
			}
			return s + ")"
		case *ast.SliceExpr:
			return rec(x.X, depth+1) + "[" + rec(x.Low, depth+1) + ":" + rec(x.High, depth+1) + "]"
		}
		return nospace(exprStr(e))
	}
	return rec(e, 0)
}

// mxPureParam reports whether obj is a parameter (or the receiver) of the
// declaration f that is never reassigned, with its position (-1 = receiver).
func mxPureParam(f *core.Func, obj types.Object) (int, bool) {
	if obj == nil || f.Lit != nil || len(mxDefsOf(f)[obj]) > 0 {
		return 0, false
	}
	info := f.Info()
	if f.Decl.Recv != nil {
		for _, fl := range f.Decl.Recv.List {
			for _, n := range fl.Names {
				if info.Defs[n] == obj {
					return -1, true
				}
			}
		}
	}
	i := 0
	for _, fl := range f.Type.Params.List {
		if len(fl.Names) == 0 {
			i++
			continue
		}
		for _, n := range fl.Names {
			if info.Defs[n] == obj {
				return i, true
			}
			i++
		}
	}
	return 0, false
}

// mxRecvObj is the receiver variable of a method declaration (nil if unnamed).
func mxRecvObj(f *core.Func) types.Object {
	if f.Decl.Recv != nil && len(f.Decl.Recv.List) > 0 && len(f.Decl.Recv.List[0].Names) > 0 {
		return f.Info().Defs[f.Decl.Recv.List[0].Names[0]]
	}
	return nil
}

// mxCallSite is a statically resolved call of a declared function.
type mxCallSite struct {
	In   *core.Func
	Call *ast.CallExpr
}

// mxCallSites lists the calls of target in the program, attributed to the innermost function body.
func mxCallSites(p *core.Prog, target *core.Func) []mxCallSite {
	var out []mxCallSite
	for _, k := range p.SortedFuncKeys() {
		f := p.Funcs[k]
		core.InspectNoLit(f.Body, func(n ast.Node) bool {
			if lit, ok := n.(*ast.FuncLit); ok && lit != f.Lit {
				return false
			}
			if call, ok := n.(*ast.CallExpr); ok && f.CalleeFunc(call) == target {
				out = append(out, mxCallSite{f, call})
			}
			return true
		})
	}
	return out
}

// mxArgFor returns the argument expression a call passes for parameter position i (-1 = receiver); nil if it cannot be told.
func mxArgFor(call *ast.CallExpr, target *core.Func, i int) ast.Expr {
	if i < 0 {
		return core.RecvExpr(call)
	}
	np := 0
	variadic := false
	for _, fl := range target.Type.Params.List {
		k := len(fl.Names)
		if k == 0 {
			k = 1
		}
		np += k
		if _, ok := fl.Type.(*ast.Ellipsis); ok {
			variadic = true
		}
	}
	if variadic && i == np-1 {
		if call.Ellipsis.IsValid() && len(call.Args) == np {
			return call.Args[i]
		}
		return nil
	}
	if i < len(call.Args) {
		return call.Args[i]
	}
	return nil
}

// mxIsField reports whether e selects the field `name` of the named struct whose qualified name ends in recvSuffix.
func mxIsField(info *types.Info, e ast.Expr, recvSuffix, name string) (*ast.SelectorExpr, bool) {
	sel, ok := core.Unparen(e).(*ast.SelectorExpr)
	if !ok || sel.Sel.Name != name {
		return nil, false
	}
	s := info.Selections[sel]
	if s == nil || s.Kind() != types.FieldVal {
		return nil, false
	}
	r := s.Recv()
	if p, ok := r.(*types.Pointer); ok {
		r = p.Elem()
	}
	// the field may be reached through embedding: use the field's own struct
	if v, ok := s.Obj().(*types.Var); ok && v.IsField() {
		if strings.HasSuffix(r.String(), recvSuffix) {
			return sel, true
		}
	}
	return nil, false
}

// mxMentionsField is fieldUsed that also looks through locals to their definitions.
func mxMentionsField(f *core.Func, e ast.Expr, at ast.Node, recvSuffix, name string) bool {
	info := f.Info()
	seen := map[ast.Node]bool{}
	var rec func(e ast.Node, depth int) bool
	rec = func(e ast.Node, depth int) bool {
		if e == nil || depth > 6 || seen[e] {
			return false
		}
		seen[e] = true
		found := false
		ast.Inspect(e, func(n ast.Node) bool {
			if found {
				return false
			}
			switch x := n.(type) {
			case *ast.SelectorExpr:
				if _, ok := mxIsField(info, x, recvSuffix, name); ok {
					found = true
				}
			case *ast.Ident:
				if r := mxResolveAt(f, x, at); r != ast.Expr(x) {
					if rec(r, depth+1) {
						found = true
					}
				}
			case *ast.CallExpr:
				if in := mxInlineCond(x, 0); in != nil && rec(in, depth+1) {
					found = true
				}
			}
			return !found
		})
		return found
	}
	return rec(e, 0)
}

// mxEdge is one out-edge of a CFG block that ends in a boolean condition.
type mxEdge struct {
	B    *cfg.Block
	Succ int
	Cond ast.Expr
	True bool // the edge taken when Cond holds
}

// mxCondEdges lists the condition edges of g: go/cfg decomposes `!`, `&&`,
// `||` and parentheses, and gives if, for and expression-switch cases the same
// shape (condition as last node, Succs[0] = true, Succs[1] = false).
func mxCondEdges(g *core.Graph) []mxEdge {
	info := g.F.Info()
	tagged := map[ast.Expr]bool{} // case values of switches with a tag are not conditions
	ast.Inspect(g.F.Body, func(n ast.Node) bool {
		if sw, ok := n.(*ast.SwitchStmt); ok && sw.Tag != nil {
			for _, cl := range sw.Body.List {
				if cc, ok := cl.(*ast.CaseClause); ok {
					for _, e := range cc.List {
						tagged[e] = true
					}
				}
			}
		}
		return true
	})
	var out []mxEdge
	for _, b := range g.C.Blocks {
		if !b.Live || len(b.Succs) != 2 || len(b.Nodes) == 0 || b.Kind == cfg.KindRangeLoop {
			continue
		}
		e, ok := b.Nodes[len(b.Nodes)-1].(ast.Expr)
		if !ok || tagged[e] {
			continue
		}
		et := info.TypeOf(e)
		if et == nil {
			continue
		}
		if t, ok := et.Underlying().(*types.Basic); !ok || t.Info()&types.IsBoolean == 0 {
			continue
		}
		// go/cfg keeps `a && b`, `a || b` and `!a` as one condition: split the
		// edge into the atomic facts it asserts (true edge of a conjunction:
		// every conjunct; false edge of a disjunction: the negation of every
		// disjunct; `!`: the opposite polarity).  An edge asserting nothing
		// atomic (true edge of a disjunction) keeps the compound condition.
		for si, truth := range []bool{true, false} {
			facts := mxAtoms(e, truth)
			if len(facts) == 0 {
				out = append(out, mxEdge{b, si, e, truth})
			}
			for _, ft := range facts {
				out = append(out, mxEdge{b, si, ft.cond, ft.truth})
			}
		}
	}
	return out
}

type mxAtom struct {
	cond  ast.Expr
	truth bool
}

// mxAtoms lists the atomic conditions (with polarity) that hold when e evaluates to truth.
func mxAtoms(e ast.Expr, truth bool) []mxAtom {
	e = core.Unparen(e)
	switch x := e.(type) {
	case *ast.UnaryExpr:
		if x.Op == token.NOT {
			return mxAtoms(x.X, !truth)
		}
	case *ast.BinaryExpr:
		switch {
		case x.Op == token.LAND && truth, x.Op == token.LOR && !truth:
			return append(mxAtoms(x.X, truth), mxAtoms(x.Y, truth)...)
		case x.Op == token.LAND || x.Op == token.LOR:
			return nil
		}
	}
	if in := mxInlineCond(e, 0); in != nil {
		return mxAtoms(in, truth)
	}
	return []mxAtom{{e, truth}}
}

// mxInlineInfo / mxInlineProg give mxInlineCond access to the loaded program
// (set by the rule functions before they read conditions).
var mxInlineProg *core.Prog

// mxInlineCond rewrites a condition that is a call of a same-package predicate
// helper — a declared function whose body is a single `return <bool expr>` —
// into that expression with the parameters (and receiver) replaced by the
// call's arguments, so that an extracted predicate reads like the inline
// condition.  Only side-effect-free arguments (identifiers, selectors, index
// expressions) are substituted; otherwise nil is returned.  The type
// information of the copied nodes is registered alongside the originals'.
func mxInlineCond(e ast.Expr, depth int) ast.Expr {
	p := mxInlineProg
	call, ok := core.Unparen(e).(*ast.CallExpr)
	if !ok || p == nil || depth > 2 || call.Ellipsis.IsValid() {
		return nil
	}
	var caller *core.Func
	for _, f := range p.Funcs {
		if f.Lit == nil && f.Decl.Body != nil && f.Decl.Body.Pos() <= call.Pos() && call.End() <= f.Decl.Body.End() && p.Fset.File(f.Decl.Pos()) == p.Fset.File(call.Pos()) {
			caller = f
		}
	}
	if caller == nil {
		return nil
	}
	h := caller.CalleeFunc(call)
	if h == nil || h.Pkg != caller.Pkg || h.Lit != nil || len(h.Body.List) != 1 {
		return nil
	}
	ret, ok := h.Body.List[0].(*ast.ReturnStmt)
	if !ok || len(ret.Results) != 1 {
		return nil
	}
	info := h.Info()
	rt := info.TypeOf(ret.Results[0])
	if rt == nil {
		return nil
	}
	if t, ok := rt.Underlying().(*types.Basic); !ok || t.Info()&types.IsBoolean == 0 {
		return nil
	}
	simple := func(a ast.Expr) bool {
		okA := true
		ast.Inspect(a, func(n ast.Node) bool {
			switch n.(type) {
			case nil, *ast.Ident, *ast.SelectorExpr, *ast.IndexExpr, *ast.ParenExpr, *ast.StarExpr, *ast.BasicLit:
			default:
				okA = false
			}
			return okA
		})
		return okA
	}
	subst := map[types.Object]ast.Expr{}
	if r := mxRecvObj(h); r != nil {
		rx := core.RecvExpr(call)
		if rx == nil || !simple(rx) {
			return nil
		}
		subst[r] = rx
	}
	i := 0
	for _, fl := range h.Type.Params.List {
		if len(fl.Names) == 0 {
			i++
			continue
		}
		for _, nm := range fl.Names {
			if i >= len(call.Args) || !simple(call.Args[i]) {
				return nil
			}
			subst[info.Defs[nm]] = call.Args[i]
			i++
		}
	}
	for o := range subst {
		if len(mxDefsOf(h)[o]) > 0 {
			return nil // a parameter is reassigned
		}
	}
	failed := false
	var clone func(x ast.Expr) ast.Expr
	keep := func(old, nw ast.Expr) ast.Expr {
		if tv, ok := info.Types[old]; ok {
			info.Types[nw] = tv
		}
		return nw
	}
	clone = func(x ast.Expr) ast.Expr {
		switch n := x.(type) {
		case *ast.Ident:
			if a, ok := subst[info.Uses[n]]; ok && info.Uses[n] != nil {
				return a
			}
			return n
		case *ast.BasicLit:
			return n
		case *ast.ParenExpr:
			return keep(n, &ast.ParenExpr{Lparen: n.Lparen, X: clone(n.X), Rparen: n.Rparen})
		case *ast.SelectorExpr:
			c := &ast.SelectorExpr{X: clone(n.X), Sel: n.Sel}
			if s, ok := info.Selections[n]; ok {
				info.Selections[c] = s
			}
			return keep(n, c)
		case *ast.StarExpr:
			return keep(n, &ast.StarExpr{Star: n.Star, X: clone(n.X)})
		case *ast.UnaryExpr:
			return keep(n, &ast.UnaryExpr{OpPos: n.OpPos, Op: n.Op, X: clone(n.X)})
		case *ast.BinaryExpr:
			return keep(n, &ast.BinaryExpr{X: clone(n.X), OpPos: n.OpPos, Op: n.Op, Y: clone(n.Y)})
		case *ast.IndexExpr:
			return keep(n, &ast.IndexExpr{X: clone(n.X), Lbrack: n.Lbrack, Index: clone(n.Index), Rbrack: n.Rbrack})
		case *ast.CallExpr:
			c := &ast.CallExpr{Fun: clone(n.Fun), Lparen: n.Lparen, Ellipsis: n.Ellipsis, Rparen: n.Rparen}
			for _, a := range n.Args {
				c.Args = append(c.Args, clone(a))
			}
			return keep(n, c)
		}
		failed = true
		return x
	}
	out := clone(ret.Results[0])
	if failed {
		return nil
	}
	return out
}

func mxAvoidEdges(es []mxEdge, extra func(*cfg.Block, int) bool) func(*cfg.Block, int) bool {
	return func(b *cfg.Block, si int) bool {
		for _, e := range es {
			if e.B == b && e.Succ == si {
				return true
			}
		}
		return extra != nil && extra(b, si)
	}
}

// mxReachAvoiding searches a path from start (nil = entry) to p that uses none of the edges.
func mxReachAvoiding(g *core.Graph, start *core.Point, p core.Point, es []mxEdge, extra func(*cfg.Block, int) bool) ([]string, bool) {
	tr, ok := g.Search(core.Query{From: start, Goal: core.At(p), AvoidEdge: mxAvoidEdges(es, extra)})
	return g.Trail(tr), ok
}

// mxDomEdges lists the condition edges that every path from start to p takes.
// reachable is false when p cannot be reached from start at all.
func mxDomEdges(g *core.Graph, start *core.Point, p core.Point, extra func(*cfg.Block, int) bool) (dom []mxEdge, reachable bool) {
	if _, ok := mxReachAvoiding(g, start, p, nil, extra); !ok {
		return nil, false
	}
	for _, e := range mxCondEdges(g) {
		if _, ok := mxReachAvoiding(g, start, p, []mxEdge{e}, extra); !ok {
			dom = append(dom, e)
		}
	}
	return dom, true
}

// mxEdgeTarget is the pseudo point from which a search explores what follows the edge.
func mxEdgeTarget(e mxEdge) *core.Point { return &core.Point{B: e.B.Succs[e.Succ], I: -1} }

// mxInnermostLoop returns the innermost for/range statement of f (not entering literals) that lexically contains n.
func mxInnermostLoop(f *core.Func, n ast.Node) ast.Stmt {
	var loop ast.Stmt
	core.InspectNoLit(f.Body, func(x ast.Node) bool {
		switch s := x.(type) {
		case *ast.ForStmt:
			if s.Body.Pos() <= n.Pos() && n.End() <= s.Body.End() {
				loop = s
			}
		case *ast.RangeStmt:
			if s.Body.Pos() <= n.Pos() && n.End() <= s.Body.End() {
				loop = s
			}
		}
		return true
	})
	return loop
}

// mxIterStart gives the search start and the back-edge filter that confine a
// path query to one iteration of loop (nil loop: whole function).
func mxIterStart(g *core.Graph, loop ast.Stmt) (*core.Point, func(*cfg.Block, int) bool) {
	if loop == nil {
		return nil, nil
	}
	head, body, _ := loopBlocks(g, loop)
	if head == nil || body == nil {
		return nil, nil
	}
	return &core.Point{B: body, I: -1}, func(b *cfg.Block, si int) bool { return b.Succs[si] == head }
}

// mxCmp is a comparison asserted by a condition edge, L Op R.
type mxCmp struct {
	L, R ast.Expr
	Op   token.Token
}

func mxNegOp(op token.Token) token.Token {
	switch op {
	case token.EQL:
		return token.NEQ
	case token.NEQ:
		return token.EQL
	case token.LSS:
		return token.GEQ
	case token.GEQ:
		return token.LSS
	case token.GTR:
		return token.LEQ
	case token.LEQ:
		return token.GTR
	}
	return token.ILLEGAL
}

func mxFlipOp(op token.Token) token.Token {
	switch op {
	case token.LSS:
		return token.GTR
	case token.GTR:
		return token.LSS
	case token.LEQ:
		return token.GEQ
	case token.GEQ:
		return token.LEQ
	}
	return op
}

// mxCmpOf reads the comparison an edge asserts (the negated operator on the false edge).
func mxCmpOf(e mxEdge) (mxCmp, bool) {
	be, ok := core.Unparen(e.Cond).(*ast.BinaryExpr)
	if !ok || mxNegOp(be.Op) == token.ILLEGAL {
		return mxCmp{}, false
	}
	op := be.Op
	if !e.True {
		op = mxNegOp(op)
	}
	return mxCmp{be.X, be.Y, op}, true
}

// mxOrient returns the comparison with the operand satisfying isLeft on the left; ok is false if neither (or both) does.
func (c mxCmp) mxOrient(isLeft func(ast.Expr) bool) (mxCmp, bool) {
	l, r := isLeft(c.L), isLeft(c.R)
	switch {
	case l && !r:
		return c, true
	case r && !l:
		return mxCmp{c.R, c.L, mxFlipOp(c.Op)}, true
	}
	return c, false
}

// mxLenArg returns X when e (after following locals) is len(X).
func mxLenArg(f *core.Func, e ast.Expr, at ast.Node) ast.Expr {
	call, ok := mxResolveAt(f, e, at).(*ast.CallExpr)
	if ok && f.CalleeID(call) == "builtin.len" && len(call.Args) == 1 {
		return call.Args[0]
	}
	return nil
}

// mxStringSlice reports whether the type of e is []string.
func mxStringSlice(info *types.Info, e ast.Expr) bool {
	t := info.TypeOf(e)
	if t == nil {
		return false
	}
	s, ok := t.Underlying().(*types.Slice)
	if !ok {
		return false
	}
	b, ok := s.Elem().Underlying().(*types.Basic)
	return ok && b.Kind() == types.String
}

// mxRootObj is the variable at the root of an access path (x, x.f, x.f[i], *x …).
func mxRootObj(info *types.Info, e ast.Expr) types.Object {
	for {
		switch x := core.Unparen(e).(type) {
		case *ast.Ident:
			return identObj(info, x)
		case *ast.SelectorExpr:
			e = x.X
		case *ast.IndexExpr:
			e = x.X
		case *ast.SliceExpr:
			e = x.X
		case *ast.StarExpr:
			e = x.X
		default:
			return nil
		}
	}
}

// ---- arity comparisons ----

// mxArityEdges classifies the condition edges of f that compare the length of
// a []string rooted at a non-receiver parameter with len(<receiver>.Keys):
// match edges assert equality, mismatch edges inequality.  A condition on the
// error returned by a helper that performs such a comparison on what it is
// passed counts as well (`err == nil` asserts the match).  other counts length
// comparisons that mention Keys but were not understood.
func mxArityEdges(c *core.Check, f *core.Func, depth int) (match, mismatch []mxEdge, other int) {
	info := f.Info()
	recv := mxRecvObj(f)
	isKeys := func(e ast.Expr, at ast.Node) bool {
		x := mxLenArg(f, e, at)
		if x == nil {
			return false
		}
		sel, ok := mxIsField(info, x, "metrics.Metric", "Keys")
		return ok && recv != nil && identObj(info, mxResolveAt(f, sel.X, at)) == recv
	}
	isTuple := func(e ast.Expr, at ast.Node) bool {
		x := mxLenArg(f, e, at)
		if x == nil || !mxStringSlice(info, x) {
			return false
		}
		root := mxRootObj(info, mxResolveAt(f, x, at))
		if root == nil || root == recv {
			return false
		}
		_, isParam := mxPureParam(f, root)
		return isParam
	}
	for _, e := range mxCondEdges(f.Graph()) {
		if cmp, ok := mxCmpOf(e); ok {
			if (isKeys(cmp.L, e.Cond) && isTuple(cmp.R, e.Cond)) || (isKeys(cmp.R, e.Cond) && isTuple(cmp.L, e.Cond)) {
				switch cmp.Op {
				case token.EQL:
					match = append(match, e)
				case token.NEQ:
					mismatch = append(mismatch, e)
				default:
					other++
				}
				continue
			}
			// err ==/!= nil with err := helper(tuple)
			var errExpr ast.Expr
			if isNilIdent(info, cmp.R) {
				errExpr = cmp.L
			} else if isNilIdent(info, cmp.L) {
				errExpr = cmp.R
			}
			if errExpr != nil && depth < 2 && (cmp.Op == token.EQL || cmp.Op == token.NEQ) {
				if call, ok := mxResolveAt(f, errExpr, e.Cond).(*ast.CallExpr); ok {
					if h := f.CalleeFunc(call); h != nil && h != f && core.Rel(h.Pkg.PkgPath) == "internal/metrics" {
						if pi, ok := mxArityHelper(c, h, depth+1); ok {
							arg := mxArgFor(call, h, pi)
							r := core.RecvExpr(call)
							okArg := arg != nil && mxStringSlice(info, arg)
							if okArg {
								root := mxRootObj(info, mxResolveAt(f, arg, e.Cond))
								_, isParam := mxPureParam(f, root)
								okArg = root != nil && root != recv && isParam
							}
							if okArg && r != nil && recv != nil && identObj(info, mxResolveAt(f, r, e.Cond)) == recv {
								c.Analysed(h)
								if cmp.Op == token.EQL {
									match = append(match, e)
								} else {
									mismatch = append(mismatch, e)
								}
							}
						}
					}
				}
			}
			if (cmp.Op == token.LSS || cmp.Op == token.GTR || cmp.Op == token.LEQ || cmp.Op == token.GEQ) && (isKeys(cmp.L, e.Cond) || isKeys(cmp.R, e.Cond)) {
				other++
			}
		}
	}
	return
}

// mxArityHelper reports whether h returns a non-nil error whenever the
// []string parameter it compares with len(<its receiver>.Keys) has another
// length (every exit reachable without taking a match edge returns non-nil),
// and which parameter that is.
func mxArityHelper(c *core.Check, h *core.Func, depth int) (int, bool) {
	if h.Decl.Recv == nil || h.Type.Results == nil || len(h.Type.Results.List) == 0 {
		return 0, false
	}
	match, mismatch, _ := mxArityEdges(c, h, depth)
	if len(match)+len(mismatch) == 0 {
		return 0, false
	}
	g := h.Graph()
	for _, ex := range normalExits(g) {
		if _, reach := mxReachAvoiding(g, nil, ex.P, match, nil); reach {
			if ex.Kind != "return" || returnsNil(h.Info(), ex.Ret) {
				return 0, false
			}
		}
	}
	// which parameter: the tuple side of the first comparison
	info := h.Info()
	all := append(append([]mxEdge{}, match...), mismatch...)
	if cmp, ok := mxCmpOf(all[0]); ok {
		for _, side := range []ast.Expr{cmp.L, cmp.R} {
			if x := mxLenArg(h, side, all[0].Cond); x != nil && mxStringSlice(info, x) {
				if pi, ok := mxPureParam(h, mxRootObj(info, mxResolveAt(h, x, all[0].Cond))); ok && pi >= 0 {
					return pi, true
				}
			}
		}
	}
	return 0, false
}

// ---- label-value slice: aliases, copies, loops ----

// mxIsLVCopy reports whether e (after following locals) is a fresh copy of some Metric's LabelValues.
func mxIsLVCopy(f *core.Func, e ast.Expr, at ast.Node) bool {
	isLV := lvAliases(f)
	call, ok := mxResolveAt(f, e, at).(*ast.CallExpr)
	if !ok {
		return false
	}
	switch f.CalleeID(call) {
	case "builtin.append":
		if len(call.Args) == 2 && call.Ellipsis.IsValid() && isLV(call.Args[1]) {
			first := core.Unparen(call.Args[0])
			if isNilIdent(f.Info(), first) {
				return true
			}
			if cl, ok := first.(*ast.CompositeLit); ok && len(cl.Elts) == 0 {
				return true
			}
			if cv, ok := first.(*ast.CallExpr); ok && len(cv.Args) == 1 && isNilIdent(f.Info(), cv.Args[0]) {
				return true // []T(nil)
			}
		}
	case "slices.Clone":
		return len(call.Args) == 1 && isLV(call.Args[0])
	}
	return false
}

// mxLoop is a loop over the elements of a Metric's label-value slice.
type mxLoop struct {
	Stmt  ast.Stmt
	Body  *ast.BlockStmt
	Slice ast.Expr     // the expression iterated or indexed
	Base  types.Object // the metric variable (nil when not a plain identifier)
	Idx   types.Object // index variable, nil if none
	Val   types.Object // range value variable, nil if none
	Alias bool         // Slice shares the metric's backing array (false: a fresh copy)
	Whole string       // "yes": every element is visited (no reslice, index from 0 to len); "no": a proper part; "?": not recognised
	f     *core.Func
}

// mxWholeSlice tells whether e denotes all of a label-value slice: "no" when a
// reslice with a bound stands between e and the field (or the copy's source).
func mxWholeSlice(f *core.Func, e ast.Expr, at ast.Node) string {
	for i := 0; i < 8; i++ {
		e = mxResolveAt(f, e, at)
		switch x := e.(type) {
		case *ast.SliceExpr:
			if x.Low != nil {
				if v, ok := mxConstInt(f, x.Low); !ok || v != 0 {
					return "no"
				}
			}
			if x.High != nil {
				return "no"
			}
			e = x.X
			continue
		case *ast.SelectorExpr:
			return "yes"
		case *ast.CallExpr:
			switch f.CalleeID(x) {
			case "builtin.append":
				if len(x.Args) == 2 {
					e = x.Args[1]
					continue
				}
			case "slices.Clone":
				if len(x.Args) == 1 {
					e = x.Args[0]
					continue
				}
			}
		}
		return "?"
	}
	return "?"
}

// mxLoops finds the range loops over, and the index loops that index, a
// label-value slice (or a fresh copy of one) in f.
func mxLoops(f *core.Func) []*mxLoop {
	info := f.Info()
	base := lvBases(f)
	var out []*mxLoop
	core.InspectNoLit(f.Body, func(n ast.Node) bool {
		switch s := n.(type) {
		case *ast.RangeStmt:
			b, alias := base(s.X)
			if !alias && !mxIsLVCopy(f, s.X, s) {
				return true
			}
			l := &mxLoop{Stmt: s, Body: s.Body, Slice: s.X, Base: b, Alias: alias, f: f, Whole: mxWholeSlice(f, s.X, s)}
			if s.Key != nil {
				if id, ok := s.Key.(*ast.Ident); ok && id.Name != "_" {
					l.Idx = identObj(info, s.Key)
				}
			}
			if s.Value != nil {
				if id, ok := s.Value.(*ast.Ident); ok && id.Name != "_" {
					l.Val = identObj(info, s.Value)
				}
			}
			out = append(out, l)
		case *ast.ForStmt:
			as, ok := s.Init.(*ast.AssignStmt)
			if !ok || len(as.Lhs) != 1 {
				return true
			}
			iv := identObj(info, as.Lhs[0])
			if iv == nil {
				return true
			}
			var l *mxLoop
			ast.Inspect(s.Body, func(m ast.Node) bool {
				if ix, ok := m.(*ast.IndexExpr); ok && l == nil && identObj(info, ix.Index) == iv {
					if b, alias := base(ix.X); alias {
						l = &mxLoop{Stmt: s, Body: s.Body, Slice: ix.X, Base: b, Idx: iv, Alias: true, f: f}
					} else if mxIsLVCopy(f, ix.X, ix) {
						l = &mxLoop{Stmt: s, Body: s.Body, Slice: ix.X, Idx: iv, f: f}
					}
				}
				return true
			})
			if l != nil {
				// from 0, while i < len(s), i++
				l.Whole = "?"
				start, okStart := mxConstInt(f, as.Rhs[0])
				inc := false
				if p, ok := s.Post.(*ast.IncDecStmt); ok && p.Tok == token.INC && identObj(info, p.X) == iv {
					inc = true
				}
				if be, ok := core.Unparen(s.Cond).(*ast.BinaryExpr); ok && inc && okStart && len(as.Rhs) == 1 {
					if oc, ok := (mxCmp{be.X, be.Y, be.Op}).mxOrient(func(e ast.Expr) bool { return identObj(info, e) == iv }); ok && (oc.Op == token.LSS || oc.Op == token.NEQ) {
						if x := mxLenArg(f, oc.R, s.Cond); x != nil && mxCanon(f, x, s.Cond) == mxCanon(f, l.Slice, s.Cond) {
							l.Whole = mxWholeSlice(f, l.Slice, s)
							if start != 0 {
								l.Whole = "no"
							}
						}
					}
				}
				if s.Post == nil && okStart && start != 0 {
					l.Whole = "no"
				}
				out = append(out, l)
			}
		}
		return true
	})
	return out
}

// isElem reports whether e denotes the element visited by the current iteration.
func (l *mxLoop) isElem(e ast.Expr) bool {
	f := l.f
	info := f.Info()
	e = core.Unparen(e)
	if o := identObj(info, e); o != nil && l.Val != nil && o == l.Val {
		return true
	}
	if id, ok := e.(*ast.Ident); ok {
		if v := mxLocalVar(f, id); v != nil {
			sites := mxDefsOf(f)[v]
			if len(sites) == 1 && !sites[0].opaque && sites[0].n == 1 && sites[0].rhs != nil &&
				l.Body.Pos() <= sites[0].node.Pos() && sites[0].node.End() <= l.Body.End() {
				return l.isElem(sites[0].rhs)
			}
		}
		return false
	}
	if ix, ok := e.(*ast.IndexExpr); ok && l.Idx != nil && identObj(info, ix.Index) == l.Idx {
		return mxCanon(f, ix.X, nil) == mxCanon(f, l.Slice, nil)
	}
	return false
}

// elemOf returns X when e is X.<field> (field of LabelValue) and X is the current element.
func (l *mxLoop) elemField(e ast.Expr, field string, at ast.Node) bool {
	sel, ok := mxIsField(l.f.Info(), mxResolveAt(l.f, e, at), "metrics.LabelValue", field)
	return ok && l.isElem(sel.X)
}

// ---- lookups in labelValuesMap ----

// mxLookup is one lookup of a tuple in a metric's labelValuesMap inside a function.
type mxLookup struct {
	Expr  ast.Expr     // the index expression or the call of a lookup function
	Val   types.Object // variable receiving the *LabelValue (nil if used in place)
	Ok    types.Object // variable receiving the comma-ok flag (nil if none)
	Def   ast.Node     // the statement binding Val/Ok
	Tuple ast.Expr     // the tuple looked up
}

type mxLookupFnInfo struct {
	param int  // position of the parameter looked up
	byKey bool // the parameter is the already built key (a string), not the tuple
	ok    bool
}

var mxLookupFnCache = map[*core.Func]mxLookupFnInfo{}

// mxLookupFn reports whether h looks up its []string parameter (or a key
// passed as a string parameter) in the receiver's labelValuesMap and returns
// the *LabelValue found (nil or the zero value if absent) as its first result.
func mxLookupFn(h *core.Func) mxLookupFnInfo {
	if v, ok := mxLookupFnCache[h]; ok {
		return v
	}
	res := mxLookupFnInfo{}
	mxLookupFnCache[h] = res // guards against recursion through delegating helpers
	defer func() { mxLookupFnCache[h] = res }()
	if h.Lit != nil || core.Rel(h.Pkg.PkgPath) != "internal/metrics" || h.Type.Results == nil || len(h.Type.Results.List) == 0 {
		return res
	}
	info := h.Info()
	if !strings.HasSuffix(typeStr(info.TypeOf(h.Type.Results.List[0].Type)), "metrics.LabelValue") {
		return res
	}
	for _, lk := range mxLookups(h, true) {
		pi, byKey, okP := 0, false, false
		if lk.Tuple != nil {
			pi, okP = mxPureParam(h, identObj(info, mxResolve(h, lk.Tuple)))
		} else if ix, isIx := lk.Expr.(*ast.IndexExpr); isIx {
			pi, okP = mxPureParam(h, identObj(info, mxResolve(h, ix.Index)))
			byKey = true
		}
		if !okP || pi < 0 {
			continue
		}
		// every returned value is the looked-up one or nil
		okRet := true
		for _, ex := range normalExits(h.Graph()) {
			if ex.Kind != "return" || len(ex.Ret.Results) == 0 {
				okRet = false
				continue
			}
			r := core.Unparen(ex.Ret.Results[0])
			if isNilIdent(info, r) || r == lk.Expr || (lk.Val != nil && identObj(info, r) == lk.Val) {
				continue
			}
			okRet = false
		}
		if okRet {
			res = mxLookupFnInfo{param: pi, byKey: byKey, ok: true}
			return res
		}
	}
	return res
}

// mxKeyTuple returns the tuple a map key was built from: the argument of
// buildLabelValueKey once locals are followed; nil if the key is something else.
func mxKeyTuple(f *core.Func, key ast.Expr, at ast.Node) ast.Expr {
	if call, ok := mxResolveAt(f, key, at).(*ast.CallExpr); ok && f.CalleeID(call) == buildKey && len(call.Args) == 1 {
		return call.Args[0]
	}
	return nil
}

// mxLookups lists the lookups in f: reads of X.labelValuesMap[k] and, when
// calls is set, calls of lookup functions.
func mxLookups(f *core.Func, calls bool) []mxLookup {
	info := f.Info()
	var out []mxLookup
	written := map[ast.Expr]bool{}
	ast.Inspect(f.Body, func(n ast.Node) bool {
		if as, ok := n.(*ast.AssignStmt); ok {
			for _, l := range as.Lhs {
				written[core.Unparen(l)] = true
			}
		}
		return true
	})
	bind := func(lk *mxLookup) {
		ast.Inspect(f.Body, func(n ast.Node) bool {
			switch x := n.(type) {
			case *ast.AssignStmt:
				if len(x.Rhs) == 1 && core.Unparen(x.Rhs[0]) == lk.Expr {
					lk.Def = x
					lk.Val = identObj(info, x.Lhs[0])
					if len(x.Lhs) == 2 {
						lk.Ok = identObj(info, x.Lhs[1])
					}
				}
			case *ast.ValueSpec:
				if len(x.Values) == 1 && core.Unparen(x.Values[0]) == lk.Expr {
					lk.Def = x
					lk.Val = info.Defs[x.Names[0]]
					if len(x.Names) == 2 {
						lk.Ok = info.Defs[x.Names[1]]
					}
				}
			}
			return true
		})
	}
	core.InspectNoLit(f.Body, func(n ast.Node) bool {
		switch x := n.(type) {
		case *ast.IndexExpr:
			if _, ok := mxIsField(info, x.X, "metrics.Metric", "labelValuesMap"); ok && !written[x] {
				lk := mxLookup{Expr: x, Tuple: mxKeyTuple(f, x.Index, x)}
				bind(&lk)
				out = append(out, lk)
			}
		case *ast.CallExpr:
			if !calls {
				return true
			}
			if h := f.CalleeFunc(x); h != nil && h != f {
				if lf := mxLookupFn(h); lf.ok {
					lk := mxLookup{Expr: x}
					if arg := mxArgFor(x, h, lf.param); arg != nil {
						if lf.byKey {
							lk.Tuple = mxKeyTuple(f, arg, x)
						} else {
							lk.Tuple = arg
						}
					}
					bind(&lk)
					out = append(out, lk)
				}
			}
		}
		return true
	})
	return out
}

// mxUnclassifiedLookups counts the calls in f of internal/metrics functions
// that return a *LabelValue but are not recognised lookup functions: when the
// rules find no lookup to reason about, such a call means "not understood"
// rather than "absent".
func mxUnclassifiedLookups(f *core.Func) int {
	n := 0
	core.InspectNoLit(f.Body, func(x ast.Node) bool {
		call, ok := x.(*ast.CallExpr)
		if !ok {
			return true
		}
		h := f.CalleeFunc(call)
		if h == nil || h == f || core.Rel(h.Pkg.PkgPath) != "internal/metrics" || h.Type.Results == nil || len(h.Type.Results.List) == 0 {
			return true
		}
		if strings.HasSuffix(typeStr(h.Info().TypeOf(h.Type.Results.List[0].Type)), "metrics.LabelValue") && !mxLookupFn(h).ok {
			n++
		}
		return true
	})
	return n
}

// mxLookupEdges classifies the condition edges of f that test the outcome of
// lookup lk: present edges assert that the tuple was found, absent edges that it was not.
func mxLookupEdges(f *core.Func, lk mxLookup) (present, absent []mxEdge) {
	info := f.Info()
	bound := func(obj types.Object, at ast.Node) bool {
		if obj == nil || lk.Def == nil {
			return false
		}
		sites := mxReaching(f, obj, at)
		return len(sites) == 1 && sites[0].node == lk.Def
	}
	isVal := func(e ast.Expr, at ast.Node) bool {
		e = core.Unparen(e)
		if e == lk.Expr {
			return true
		}
		o := identObj(info, e)
		return o != nil && o == lk.Val && bound(o, at)
	}
	for _, e := range mxCondEdges(f.Graph()) {
		if id, ok := core.Unparen(e.Cond).(*ast.Ident); ok {
			if o := identObj(info, id); o != nil && o == lk.Ok && bound(o, e.Cond) {
				if e.True {
					present = append(present, e)
				} else {
					absent = append(absent, e)
				}
			}
			continue
		}
		cmp, ok := mxCmpOf(e)
		if !ok || (cmp.Op != token.EQL && cmp.Op != token.NEQ) {
			continue
		}
		var other ast.Expr
		if isNilIdent(info, cmp.R) {
			other = cmp.L
		} else if isNilIdent(info, cmp.L) {
			other = cmp.R
		}
		if other == nil || !isVal(other, e.Cond) {
			continue
		}
		if cmp.Op == token.NEQ {
			present = append(present, e)
		} else {
			absent = append(absent, e)
		}
	}
	return
}

// mxAppendsLabelValues reports whether f itself appends an element to a Metric's LabelValues.
func mxAppendsLabelValues(f *core.Func) bool { return len(mxAppendStmts(f)) > 0 }

// mxAppendStmts lists the statements `X.LabelValues = append(X.LabelValues, v…)` of f.
func mxAppendStmts(f *core.Func) []*ast.AssignStmt {
	isLV := lvAliases(f)
	var out []*ast.AssignStmt
	core.InspectNoLit(f.Body, func(n ast.Node) bool {
		if as, ok := n.(*ast.AssignStmt); ok && len(as.Lhs) == 1 && len(as.Rhs) == 1 && isLV(as.Lhs[0]) {
			if call, ok := core.Unparen(as.Rhs[0]).(*ast.CallExpr); ok && f.CalleeID(call) == "builtin.append" && len(call.Args) >= 2 {
				if _, isSlice := core.Unparen(call.Args[0]).(*ast.SliceExpr); !isSlice && isLV(call.Args[0]) {
					out = append(out, as)
				}
			}
		}
		return true
	})
	return out
}

// mxMapWriters is the set of declared functions of internal/metrics that
// (transitively) store into / delete from a metric's labelValuesMap.
func mxMapWriters(c *core.Check, del bool) map[*core.Func]bool {
	return c.Prog.Reaching(func(f *core.Func) bool {
		if core.Rel(f.Pkg.PkgPath) != "internal/metrics" {
			return false
		}
		return len(mxMapWrites(f, del)) > 0
	})
}

// mxMapWrites lists the stores into (del=false) or deletes from (del=true) labelValuesMap in f itself.
func mxMapWrites(f *core.Func, del bool) []ast.Node {
	info := f.Info()
	var out []ast.Node
	core.InspectNoLit(f.Body, func(n ast.Node) bool {
		switch x := n.(type) {
		case *ast.AssignStmt:
			if !del {
				for _, l := range x.Lhs {
					if ix, ok := core.Unparen(l).(*ast.IndexExpr); ok {
						if _, ok := mxIsField(info, ix.X, "metrics.Metric", "labelValuesMap"); ok {
							out = append(out, x)
						}
					}
				}
			}
		case *ast.CallExpr:
			if del && f.CalleeID(x) == "builtin.delete" && len(x.Args) == 2 {
				if _, ok := mxIsField(info, x.Args[0], "metrics.Metric", "labelValuesMap"); ok {
					out = append(out, x)
				}
			}
		}
		return true
	})
	return out
}

// mxPoints maps nodes to their CFG points.
func mxPoints(g *core.Graph, ns []ast.Node) []core.Point {
	var out []core.Point
	for _, n := range ns {
		if p, ok := g.PointOf(n); ok {
			out = append(out, p)
		}
	}
	return out
}

// mxPairedEitherOrder is pairedEvents accepting either order of the two
// events (the two updates are independent statements), and at most one pair per path.
func mxPairedEitherOrder(g *core.Graph, as, bs []core.Point) (string, []string, bool) {
	if len(as) == 0 || len(bs) == 0 {
		return fmt.Sprintf("%d slice updates, %d map updates", len(as), len(bs)), nil, false
	}
	msg, tr, ok := pairedEvents(g, as, bs)
	if !ok {
		if _, _, ok2 := pairedEvents(g, bs, as); ok2 {
			msg, tr, ok = "", nil, true
		}
	}
	if !ok {
		return msg, tr, false
	}
	ctr := g.Count(nil, as, nil)
	for _, ex := range normalExits(g) {
		if cnt, reach := ctr.At(ex.P); reach && cnt.Max > 1 {
			return "the slice is updated more than once on a path", nil, false
		}
	}
	return "", nil, true
}

// mxAlwaysNil reports whether every return of h returns the literal nil as its last result.
func mxAlwaysNil(h *core.Func) bool {
	for _, ex := range normalExits(h.Graph()) {
		if ex.Kind != "return" || !returnsNil(h.Info(), ex.Ret) {
			return false
		}
	}
	return true
}

// mxConstInt evaluates e (after following locals) as an integer constant.
func mxConstInt(f *core.Func, e ast.Expr) (int64, bool) {
	return constInt(f.Info(), core.Unparen(e))
}
