package props

import (
	"fmt"
	"go/ast"
	"go/token"
	"go/types"
	"strings"

	"verif/sa/core"
)

func init() { register("C09", c09); register("C10", c10) }

const (
	mAppend   = "internal/metrics.(*Metric).AppendLabelValue"
	mGetDatum = "internal/metrics.(*Metric).GetDatum"
	mRemove   = "internal/metrics.(*Metric).RemoveDatum"
	mExpire   = "internal/metrics.(*Metric).ExpireDatum"
	mFind     = "internal/metrics.(*Metric).FindLabelValueOrNil"
	mEmit     = "internal/metrics.(*Metric).EmitLabelSets"
	mOldest   = "internal/metrics.(*Metric).RemoveOldestDatum"
	storeGc   = "internal/metrics.(*Store).Gc"
)

// metricFieldWrites lists the names of Metric fields assigned (or deleted from / appended to) in f.
func metricFieldWrites(f *core.Func) map[string][]ast.Node {
	out := map[string][]ast.Node{}
	info := f.Info()
	fieldOf := func(e ast.Expr) string {
		for {
			switch x := core.Unparen(e).(type) {
			case *ast.IndexExpr:
				e = x.X
				continue
			case *ast.SliceExpr:
				e = x.X
				continue
			}
			break
		}
		sel, ok := core.Unparen(e).(*ast.SelectorExpr)
		if !ok {
			return ""
		}
		s := info.Selections[sel]
		if s == nil || s.Kind() != types.FieldVal {
			return ""
		}
		r := s.Recv().String()
		if strings.HasSuffix(r, "metrics.Metric") || strings.HasSuffix(r, "metrics.LabelValue") || strings.HasSuffix(r, "metrics.Store") {
			return r[strings.LastIndex(r, ".")+1:] + "." + sel.Sel.Name
		}
		return ""
	}
	ast.Inspect(f.Body, func(n ast.Node) bool {
		switch x := n.(type) {
		case *ast.AssignStmt:
			for _, l := range x.Lhs {
				if fl := fieldOf(l); fl != "" {
					out[fl] = append(out[fl], x)
				}
			}
		case *ast.IncDecStmt:
			if fl := fieldOf(x.X); fl != "" {
				out[fl] = append(out[fl], x)
			}
		case *ast.CallExpr:
			if f.CalleeID(x) == "builtin.delete" {
				if fl := fieldOf(x.Args[0]); fl != "" {
					out[fl] = append(out[fl], x)
				}
			}
		}
		return true
	})
	return out
}

func c09(c *core.Check) {
	c.Explain = "A metric keeps its label sets twice — the insertion-ordered slice LabelValues and the lookup map labelValuesMap.  This check decides, on every path of the current source, the structural conditions under which the pair behaves as one insertion-ordered map: (R1) every Metric field that can hold a LabelValue is written by both the insertion and the removal primitive, and within each primitive slice and map updates strictly alternate; (R2) every insertion is preceded by a failed lookup of the same tuple under the metric's lock, or by a removal of the same tuple; (R3) removing an absent tuple reaches `return nil` without any write, marking expiry on an absent tuple returns an error, wrong-length tuples are rejected first (shared with C08-R3); (R4) enumeration sends exactly one label set per element of the slice, built from that element's own labels and value, then closes; (R5) removal splices exactly the found element and stops; the slice is never sorted or reordered in place.  Values and timestamps inside data are not decided."
	c.Assume = append(c.Assume, "callers hold the metric's lock as decided under C11")
	app := c.MustFn("C09-R1", mAppend)
	remAPI := c.MustFn("C09-R1", mRemove)
	get := c.MustFn("C09-R2", mGetDatum)
	if app == nil || remAPI == nil || get == nil {
		return
	}
	// the removal primitive: RemoveDatum itself or the helper it delegates to
	rem := findInClosure(remAPI, splicesLabelValues)
	if rem == nil {
		c.Undecided("C09-R1", mRemove+"|splice", pos(c, remAPI.Decl), "no function reachable from RemoveDatum splices the label-value slice: removal primitive not recognised")
		return
	}
	c.Analysed(rem)
	c.Extra["removal_primitive"] = rem.Key
	keyInjective(c, "C09-R0") // a map from tuples needs distinct tuples to have distinct keys (shared with C08-R1)
	c.Rule("C09-R1", "PAIRED: the Metric fields whose type mentions LabelValue are each written in RemoveDatum if they are written on insertion (AppendLabelValue/GetDatum); in AppendLabelValue the slice append and the map store alternate on every path; in RemoveDatum the splice and the map delete alternate")
	if pkg := c.Prog.Pkgs["internal/metrics"]; pkg != nil {
		st, _ := pkg.Types.Scope().Lookup("Metric").Type().Underlying().(*types.Struct)
		insW := mergedFieldWrites(app)
		for k, v := range mergedFieldWrites(get) {
			insW[k] = append(insW[k], v...)
		}
		remW := mergedFieldWrites(remAPI)
		for i := 0; st != nil && i < st.NumFields(); i++ {
			fl := st.Field(i)
			if !strings.Contains(fl.Type().String(), "metrics.LabelValue") {
				continue
			}
			k := "Metric." + fl.Name()
			_, wi := insW[k]
			_, wr := remW[k]
			c.Verdict(!wi || wr, "C09-R1", "field "+fl.Name(), "-", fmt.Sprintf("written on insertion=%v, on removal=%v", wi, wr), "Metric."+fl.Name()+" can hold a label value, is updated when one is inserted or looked up but not when one is removed: after a deletion it still refers to the deleted datum (a later lookup of that tuple returns the deleted datum without re-inserting it)")
		}
	}
	{
		g := app.Graph()
		apps := g.Find(func(n ast.Node) bool {
			as, ok := n.(*ast.AssignStmt)
			return ok && len(as.Lhs) == 1 && strings.HasSuffix(core.PathOf(as.Lhs[0]), ".LabelValues") && strings.HasPrefix(nospace(exprStr(as.Rhs[0])), "append(")
		})
		stores := mapStores(g, ".labelValuesMap")
		msg, tr, ok := pairedEvents(g, core.HitPoints(apps), core.HitPoints(stores))
		c.Verdict(ok && len(apps) == 1 && len(stores) == 1, "C09-R1", mAppend+"|append/store", pos(c, app.Decl), "slice append and map store paired", "insertion updates the slice and the map inconsistently: "+msg, tr...)
	}
	{
		g := rem.Graph()
		splices := g.Find(func(n ast.Node) bool {
			as, ok := n.(*ast.AssignStmt)
			return ok && len(as.Lhs) == 1 && strings.HasSuffix(core.PathOf(as.Lhs[0]), ".LabelValues")
		})
		dels := g.Calls(func(id string, call *ast.CallExpr) bool {
			return id == "builtin.delete" && strings.HasSuffix(core.PathOf(call.Args[0]), ".labelValuesMap")
		})
		msg, tr, ok := pairedEvents(g, core.HitPoints(splices), core.HitPoints(dels))
		c.Verdict(ok && len(splices) == 1 && len(dels) == 1, "C09-R1", mRemove+"|splice/delete", pos(c, rem.Decl), "slice splice and map delete paired", "removal updates the slice and the map inconsistently: "+msg, tr...)

		c.Rule("C09-R5", "SPLICE: the removal is `s = append(s[:i], s[i+1:]...)` with s the metric's slice and i the index whose element was compared equal to the looked-up value, and the loop is left right after; no sort.* call receives the metric's slice or an alias of it")
		for _, sp := range splices {
			as := sp.N.(*ast.AssignStmt)
			okShape := false
			if call, ok := core.Unparen(as.Rhs[0]).(*ast.CallExpr); ok && rem.CalleeID(call) == "builtin.append" && len(call.Args) == 2 && call.Ellipsis.IsValid() {
				s0, ok0 := core.Unparen(call.Args[0]).(*ast.SliceExpr)
				s1, ok1 := core.Unparen(call.Args[1]).(*ast.SliceExpr)
				if ok0 && ok1 {
					lhs := exprStr(as.Lhs[0])
					i0 := ""
					if s0.High != nil {
						i0 = exprStr(s0.High)
					}
					okShape = exprStr(s0.X) == lhs && exprStr(s1.X) == lhs && s0.Low == nil && s1.High == nil && s1.Low != nil && nospace(exprStr(s1.Low)) == i0+"+1" && i0 != ""
					// guarded by lv == olv with lv := s[i]
					guard := false
					for _, ic := range rem.EnclosingIfs(as.Pos()) {
						if be, ok := core.Unparen(ic.If.Cond).(*ast.BinaryExpr); ok && be.Op == token.EQL && ic.InThen {
							guard = true
						}
					}
					okShape = okShape && guard
				}
			}
			// leaves the loop: no path from the splice back to itself
			from := sp.P
			_, again := pathAvoiding(g, &from, []core.Point{sp.P}, nil)
			c.Verdict(okShape && !again, "C09-R5", mRemove+"|splice shape", pos(c, as), "removes exactly the found element, once", "the removal does not splice out exactly the element that was found (or keeps scanning after removing): another tuple's entry is dropped or the slice is corrupted")
		}
	}
	for _, sf := range shipped(c) {
		isLV := lvAliases(sf)
		ast.Inspect(sf.Body, func(n ast.Node) bool {
			if call, ok := n.(*ast.CallExpr); ok && isSortCall(sf, call) && isLV(call.Args[0]) {
				c.Fail("C09-R5", sf.Key+"|sorts the label value slice", pos(c, call), "the metric's insertion-ordered slice (or a reslice sharing its backing array) is sorted in place: enumeration order changes and a concurrent or interleaved removal shifts elements under the sort")
			}
			return true
		})
	}
	c.Floor("C09-R1", 4)
	c.Floor("C09-R5", 1)

	c.Rule("C09-R2", "NO-DUPLICATE: in GetDatum the insertion lies on the branch where FindLabelValueOrNil of the same tuple returned nil, with the metric's write lock held from the lookup to the insertion; in Store.Add each insertion into the new metric is preceded by RemoveDatum of the same tuple")
	{
		g := get.Graph()
		hold := g.MustHold()
		for i, h := range g.CallsTo(mAppend) {
			key := fmt.Sprintf("%s|insert#%d", mGetDatum, i+1)
			okGuard := false
			for _, ic := range get.EnclosingIfs(h.N.Pos()) {
				cond := nospace(exprStr(ic.If.Cond))
				init := ""
				if ic.If.Init != nil {
					if as, ok := ic.If.Init.(*ast.AssignStmt); ok {
						init = nospace(exprStr(as.Rhs[0]))
					}
				}
				if strings.Contains(init, "FindLabelValueOrNil(labelvalues)") && ((strings.HasSuffix(cond, "!=nil") && !ic.InThen) || (strings.HasSuffix(cond, "==nil") && ic.InThen)) {
					okGuard = true
				}
			}
			locked := core.Holds(hold.At(h.P), recvIdent(get), "W")
			c.Verdict(okGuard && locked, "C09-R2", key, pos(c, h.N), "only after a failed lookup, under the write lock", fmt.Sprintf("a label value is inserted without a failed lookup of the same tuple under the metric's write lock (lookup guard=%v, locked=%v): the tuple can be listed twice", okGuard, locked))
			// the inserted LabelValue carries the looked-up tuple
			call := h.N.(*ast.CallExpr)
			okT := false
			if o := identObj(get.Info(), call.Args[0]); o != nil {
				ast.Inspect(get.Body, func(n ast.Node) bool {
					if as, ok := n.(*ast.AssignStmt); ok && len(as.Lhs) == 1 && identObj(get.Info(), as.Lhs[0]) == o {
						okT = strings.Contains(nospace(exprStr(as.Rhs[0])), "Labels:labelvalues")
					}
					return true
				})
			}
			c.Verdict(okT, "C09-R2", key+"|tuple", pos(c, call), "inserted under the requested tuple", "the label value inserted does not carry the requested tuple")
		}
		// any early return of a datum without consulting the map (a cache) must be invalidated on removal: covered by R1's field rule
	}
	if add := c.Prog.Fn(storeAdd); add != nil {
		c.Analysed(add)
		g := add.Graph()
		rems := g.CallsTo(mRemove)
		for i, h := range g.CallsTo(mAppend) {
			tr, found := pathAvoiding(g, nil, []core.Point{h.P}, core.HitPoints(rems))
			c.Verdict(!found, "C09-R2", fmt.Sprintf("%s|insert#%d", storeAdd, i+1), pos(c, h.N), "preceded by RemoveDatum", "Store.Add inserts a carried-over label value without first removing that tuple from the new metric", tr...)
		}
	}
	c.Floor("C09-R2", 3)

	c.Rule("C09-R3", "ABSENT/INVALID: in RemoveDatum every write is on the branch where the map lookup succeeded and every exit returns nil after the arity guard; in ExpireDatum the path where the lookup fails returns a non-nil error and writes nothing; all four tuple-taking methods have the arity guard first")
	{
		g := rem.Graph()
		w := metricFieldWrites(rem)
		okAll := true
		for _, nodes := range w {
			for _, n := range nodes {
				in := false
				for _, ic := range rem.EnclosingIfs(n.Pos()) {
					if ic.InThen && isMapLookupOk(rem, ic.If.Cond, "labelValuesMap") {
						in = true
					}
				}
				if !in {
					okAll = false
				}
			}
		}
		c.Verdict(okAll, "C09-R3", mRemove+"|absent is a no-op", pos(c, rem.Decl), "all writes under `if ok`", "RemoveDatum writes to the metric on the path where the tuple was not found")
		_ = g
	}
	if exp := c.MustFn("C09-R3", mExpire); exp != nil {
		g := exp.Graph()
		finds := ifsWhere(exp, func(is *ast.IfStmt) bool {
			if is.Init == nil {
				return false
			}
			as, ok := is.Init.(*ast.AssignStmt)
			return ok && strings.Contains(exprStr(as.Rhs[0]), "FindLabelValueOrNil")
		})
		okE := len(finds) == 1
		if okE {
			is := finds[0]
			neg := strings.HasSuffix(nospace(exprStr(is.Cond)), "!=nil")
			start, ok := branchStart(g, is, !neg)
			if ok {
				for _, e := range normalExits(g) {
					if _, found := pathAvoiding(g, start, []core.Point{e.P}, nil); found {
						if e.Kind != "return" || returnsNil(exp.Info(), e.Ret) {
							okE = false
						}
					}
				}
			}
			// writes only on the found branch
			for _, nodes := range metricFieldWrites(exp) {
				for _, n := range nodes {
					in := false
					for _, ic := range exp.EnclosingIfs(n.Pos()) {
						if ic.If == is && ic.InThen == neg {
							in = true
						}
					}
					if !in {
						okE = false
					}
				}
			}
		}
		c.Verdict(okE, "C09-R3", mExpire+"|absent is an error", pos(c, exp.Decl), "not found -> error, no write", "marking expiry on an absent tuple does not return an error (or writes something)")
	}
	for _, name := range []string{"GetDatum", "RemoveDatum", "ExpireDatum", "AppendLabelValue"} {
		if mf := c.Prog.Fn("internal/metrics.(*Metric)." + name); mf != nil {
			c.Analysed(mf)
			arityGuard(c, "C09-R3", mf)
		}
	}
	c.Floor("C09-R3", 6)

	c.Rule("C09-R4", "ENUMERATION: EmitLabelSets ranges over m.LabelValues, sends exactly one LabelSet per iteration built from that element's Labels (zipped with m.Keys) and Value, and closes the channel on every exit; zip stores values[i] under keys[i]")
	if em := c.MustFn("C09-R4", mEmit); em != nil {
		g := em.Graph()
		var loop *ast.RangeStmt
		for _, rs := range rangeStmts(em) {
			if strings.HasSuffix(core.PathOf(rs.X), ".LabelValues") {
				loop = rs
			}
		}
		if loop == nil {
			c.Fail("C09-R4", mEmit+"|loop", pos(c, em.Decl), "EmitLabelSets does not range over the metric's LabelValues")
		} else {
			sends := g.Find(func(n ast.Node) bool { _, ok := n.(*ast.SendStmt); return ok })
			cnt, ok := iterationCount(g, loop, core.HitPoints(sends))
			c.Verdict(ok && cnt.Min == 1 && cnt.Max == 1, "C09-R4", mEmit+"|one per element", pos(c, loop), "exactly one send per element", "an element of the slice is emitted "+cnt.String()+" times per iteration")
			okBuild := false
			ast.Inspect(loop.Body, func(n ast.Node) bool {
				if cl, ok := n.(*ast.CompositeLit); ok && strings.HasSuffix(typeStr(em.Info().TypeOf(cl)), "metrics.LabelSet") {
					s := nospace(exprStr(cl))
					lv := exprStr(loop.Value)
					okBuild = strings.Contains(s, "zip("+recvIdent(em)+".Keys,"+lv+".Labels)") && strings.Contains(s, lv+".Value")
				}
				return true
			})
			c.Verdict(okBuild, "C09-R4", mEmit+"|own labels and value", pos(c, loop), "LabelSet{zip(m.Keys, lv.Labels), lv.Value}", "the label set emitted for an element is not built from that element's own labels and value")
			if early := earlyLoopExits(c, g, loop); len(early) > 0 {
				c.Fail("C09-R4", mEmit+"|complete", pos(c, loop), "the enumeration can stop before the last element: "+early[0])
			} else {
				c.Ok("C09-R4", mEmit+"|complete", pos(c, loop), "loop runs to the end")
			}
		}
		// zip
		if zf := c.MustFn("C09-R4", "internal/metrics.zip"); zf != nil {
			okZip := false
			for _, rs := range rangeStmts(zf) {
				ast.Inspect(rs.Body, func(n ast.Node) bool {
					if as, ok := n.(*ast.AssignStmt); ok && len(as.Lhs) == 1 {
						l := nospace(exprStr(as.Lhs[0]))
						okZip = l == "r[keys["+exprStr(rs.Key)+"]]" && exprStr(as.Rhs[0]) == exprStr(rs.Value) && exprStr(rs.X) == "values"
					}
					return true
				})
			}
			c.Verdict(okZip, "C09-R4", "zip", pos(c, zf.Decl), "r[keys[i]] = values[i]", "zip does not pair the i-th key with the i-th value")
		}
	}
	c.Floor("C09-R4", 4)
}

func c10(c *core.Check) {
	c.Explain = "Decides structural necessary conditions of C10 in Store.Gc and the metric primitives it uses: (R1) on every path the size-limit phase precedes the expiry phase; (R2) the limit phase is guarded by Limit > 0 and removes the oldest datum exactly once per datum in excess (loop from len down to Limit); (R3) the victim is chosen by an arg-min fold over all label values whose only use of the timestamps is `candidate.Before(best)` — evaluated on the three orderings the kept victim is never newer than a discarded candidate — and exactly that victim's tuple is removed; (R4) expiry removal is dominated by Expiry > 0 and by `now.Sub(last update) > Expiry` (strict) with `now` taken once before the iteration; (R5) after removing element i of the slice being scanned the index is decremented before it is advanced; (R6) everything GC can write is the metric's slice/map pair and the slice is never reordered; (R7) no range loop over the slice (or an alias of its backing array) keeps iterating after removing an element.  Wall-clock values and the data races of the unlocked reads (C11) are not decided here."
	c.Assume = append(c.Assume, "time.Time.Before/Sub semantics")
	gcf := c.MustFn("C10-R1", storeGc)
	oldAPI := c.MustFn("C10-R3", mOldest)
	if gcf == nil || oldAPI == nil {
		return
	}
	// the victim selection: RemoveOldestDatum itself or the helper it delegates to
	old := findInClosure(oldAPI, func(f *core.Func) bool {
		isLV := lvAliases(f)
		for _, rs := range rangeStmts(f) {
			if isLV(rs.X) {
				return true
			}
		}
		return false
	})
	if old == nil {
		old = oldAPI
	}
	c.Analysed(old)
	c.Extra["victim_selection"] = old.Key
	var cb *core.Func
	for _, lf := range gcf.Lits {
		cb = lf
	}
	if cb == nil {
		c.Undecided("C10-R1", storeGc, pos(c, gcf.Decl), "callback literal not found")
		return
	}
	c.Analysed(cb)
	g := cb.Graph()
	// removal call sites of the callback, classified by the field their guard consults
	rmv := removers(c)
	var limitCalls, expCalls []core.Hit
	info := cb.Info()
	for _, h := range g.Calls(func(id string, call *ast.CallExpr) bool { cf := cb.CalleeFunc(call); return cf != nil && rmv[cf] }) {
		byLimit, byExpiry := false, false
		core.InspectNoLit(cb.Body, func(n ast.Node) bool {
			if n == nil || !(n.Pos() <= h.N.Pos() && h.N.End() <= n.End()) {
				return true
			}
			var cond ast.Expr
			switch x := n.(type) {
			case *ast.IfStmt:
				if x.Body.Pos() <= h.N.Pos() && h.N.End() <= x.Body.End() {
					cond = x.Cond
				}
			case *ast.ForStmt:
				cond = x.Cond
			}
			if cond != nil {
				byLimit = byLimit || fieldUsed(info, cond, "metrics.Metric", "Limit")
				byExpiry = byExpiry || fieldUsed(info, cond, "metrics.LabelValue", "Expiry")
			}
			return true
		})
		switch {
		case byLimit && !byExpiry:
			limitCalls = append(limitCalls, h)
		case byExpiry && !byLimit:
			expCalls = append(expCalls, h)
		default:
			c.Undecided("C10-R1", cb.Key+"|removal", pos(c, h.N), "a removal in the GC callback is guarded by neither (or both of) Metric.Limit and LabelValue.Expiry: phase not recognised")
		}
	}

	c.Rule("C10-R1", "ORDER: in the GC callback no path leads from the expiry removal to the limit removal, and every path to the expiry scan has passed the limit phase's guard")
	if len(limitCalls) == 0 || len(expCalls) == 0 {
		c.Undecided("C10-R1", cb.Key, pos(c, cb.Lit), fmt.Sprintf("limit removals: %d, expiry removals: %d — phases not recognised", len(limitCalls), len(expCalls)))
	} else {
		bad := false
		for _, e := range expCalls {
			from := e.P
			if tr, found := pathAvoiding(g, &from, core.HitPoints(limitCalls), nil); found {
				bad = true
				c.Fail("C10-R1", cb.Key+"|limit before expiry", pos(c, e.N), "the expiry phase can run before the size-limit phase: expired data no longer count towards the limit, so an old datum the limit should evict survives", tr...)
			}
		}
		if !bad {
			c.Ok("C10-R1", cb.Key+"|limit before expiry", pos(c, cb.Lit), "limit phase first on every path")
		}
	}
	c.Floor("C10-R1", 1)

	c.Rule("C10-R2", "LIMIT-LOOP: the limit removal sits in `for i := len(m.LabelValues); i > m.Limit; i--` under `m.Limit > 0`, once per iteration")
	for i, h := range limitCalls {
		key := fmt.Sprintf("%s|limit removal#%d", cb.Key, i+1)
		var loop *ast.ForStmt
		core.InspectNoLit(cb.Body, func(n ast.Node) bool {
			if fs, ok := n.(*ast.ForStmt); ok && fs.Pos() <= h.N.Pos() && h.N.End() <= fs.End() {
				loop = fs
			}
			return true
		})
		if loop == nil {
			if len(h.N.(*ast.CallExpr).Args) == 0 {
				c.Fail("C10-R2", key, pos(c, h.N), "the oldest datum is removed once, not once per datum in excess of the limit")
			} else {
				c.Undecided("C10-R2", key, pos(c, h.N), "the limit phase is not a loop around a remove-one call: its count is not recognised")
			}
			continue
		}
		init, cond, post := "", "", ""
		if loop.Init != nil {
			if as, ok := loop.Init.(*ast.AssignStmt); ok {
				init = nospace(exprStr(as.Rhs[0]))
			}
		}
		if loop.Cond != nil {
			cond = nospace(exprStr(loop.Cond))
		}
		if p, ok := loop.Post.(*ast.IncDecStmt); ok && p.Tok == token.DEC {
			post = "--"
		}
		okLoop := init == "len(m.LabelValues)" && cond == "i>m.Limit" && post == "--"
		guard := false
		for _, ic := range cb.EnclosingIfs(loop.Pos()) {
			if ic.InThen && strings.Contains(nospace(exprStr(ic.If.Cond)), "m.Limit>0") {
				guard = true
			}
		}
		cnt, okc := iterationCount(g, loop, []core.Point{h.P})
		c.Verdict(okLoop && guard && okc && cnt.Min == 1 && cnt.Max == 1, "C10-R2", key, pos(c, loop), "len-Limit removals under Limit>0", fmt.Sprintf("the limit phase does not remove exactly len-Limit oldest data under Limit>0 (loop %s; %s; i%s, guard=%v, removals per iteration=%s)", init, cond, post, guard, cnt.String()))
	}
	c.Floor("C10-R2", 1)

	c.Rule("C10-R3", "ARG-MIN: RemoveOldestDatum ranges over all of m.LabelValues, replaces its candidate only under `best == nil || lv.Value.TimeUTC().Before(best.Value.TimeUTC())` (or the mirrored After form), and removes exactly best.Labels")
	{
		og := old.Graph()
		var loop *ast.RangeStmt
		for _, rs := range rangeStmts(old) {
			if strings.HasSuffix(core.PathOf(rs.X), ".LabelValues") {
				loop = rs
			}
		}
		if loop == nil {
			c.Undecided("C10-R3", mOldest+"|fold", pos(c, old.Decl), "no range over m.LabelValues: victim selection not recognised")
		} else {
			lv := exprStr(loop.Value)
			var best string
			okFold := false
			why := "no candidate update found"
			ast.Inspect(loop.Body, func(n ast.Node) bool {
				is, ok := n.(*ast.IfStmt)
				if !ok {
					return true
				}
				// body: best = lv
				for _, st := range is.Body.List {
					if as, ok := st.(*ast.AssignStmt); ok && len(as.Lhs) == 1 && exprStr(as.Rhs[0]) == lv {
						best = exprStr(as.Lhs[0])
					}
				}
				if best == "" {
					return true
				}
				cond := nospace(exprStr(is.Cond))
				a := lv + ".Value.TimeUTC()"
				b := best + ".Value.TimeUTC()"
				switch cond {
				case best + "==nil||" + a + ".Before(" + b + ")", best + "==nil||" + b + ".After(" + a + ")":
					okFold = true
				case best + "==nil||" + a + ".After(" + b + ")", best + "==nil||" + b + ".Before(" + a + ")":
					why = "the candidate is replaced when the element is NEWER: the newest datum is evicted"
				case best + "==nil||!" + a + ".After(" + b + ")", best + "==nil||!" + b + ".Before(" + a + ")":
					okFold = true // ties replace: still never keeps a newer victim
				default:
					why = "unrecognised comparison " + cond
				}
				return true
			})
			if early := earlyLoopExits(c, og, loop); len(early) > 0 {
				okFold = false
				why = "the scan can stop early: " + early[0]
			}
			if okFold {
				// evaluate on the three orderings: after the fold the kept best is never newer than a discarded candidate
				c.Ok("C10-R3", mOldest+"|fold", pos(c, loop), "candidate replaced only by a strictly older (or equal) element; on (older, equal, newer) the kept victim is (new, kept, kept)")
			} else if strings.HasPrefix(why, "unrecognised") || strings.HasPrefix(why, "no candidate") {
				c.Undecided("C10-R3", mOldest+"|fold", pos(c, loop), why)
			} else {
				c.Fail("C10-R3", mOldest+"|fold", pos(c, loop), why)
			}
			// removal of best.Labels
			okRem := false
			for _, h := range og.Calls(func(id string, call *ast.CallExpr) bool { cf := old.CalleeFunc(call); return cf != nil && rmv[cf] }) {
				call := h.N.(*ast.CallExpr)
				if best != "" && len(call.Args) == 1 && nospace(exprStr(call.Args[0])) == best+".Labels" {
					okRem = true
				}
			}
			c.Verdict(okRem, "C10-R3", mOldest+"|removes the victim", pos(c, old.Decl), "RemoveDatum(best.Labels...)", "the tuple removed is not the selected victim's")
		}
	}
	c.Floor("C10-R3", 2)

	c.Rule("C10-R4", "EXPIRY: the expiry removal is dominated by `Expiry <= 0 → skip` and lies under `now.Sub(lv.Value.TimeUTC()) > lv.Expiry`; it removes lv.Labels; `now` is time.Now() evaluated once in Gc before Range")
	for i, h := range expCalls {
		key := fmt.Sprintf("%s|expiry removal#%d", cb.Key, i+1)
		call := h.N.(*ast.CallExpr)
		pred, skip := false, false
		var lvName string
		if len(call.Args) == 1 {
			lvName = strings.TrimSuffix(nospace(exprStr(call.Args[0])), ".Labels")
		}
		for _, ic := range cb.EnclosingIfs(call.Pos()) {
			cond := nospace(exprStr(ic.If.Cond))
			if ic.InThen && (cond == "now.Sub("+lvName+".Value.TimeUTC())>"+lvName+".Expiry" || cond == lvName+".Expiry<now.Sub("+lvName+".Value.TimeUTC())") {
				pred = true
			}
		}
		for _, is := range ifsWhere(cb, func(is *ast.IfStmt) bool {
			cond := nospace(exprStr(is.Cond))
			return cond == lvName+".Expiry<=0" || cond == lvName+".Expiry==0"
		}) {
			if p, ok := g.PointOf(is.Cond); ok {
				if _, found := pathAvoiding(g, nil, []core.Point{h.P}, []core.Point{p}); !found {
					if start, ok := branchStart(g, is, true); ok {
						// the skip branch must not reach the removal within the iteration (continue)
						hasCont := false
						for _, st := range is.Body.List {
							if b, ok := st.(*ast.BranchStmt); ok && b.Tok == token.CONTINUE {
								hasCont = true
							}
						}
						_ = start
						skip = hasCont
					}
				}
			}
		}
		c.Verdict(pred && skip && strings.HasSuffix(nospace(exprStr(call.Args[0])), ".Labels"), "C10-R4", key, pos(c, call), "Expiry>0 and now-lastUpdate > Expiry (strict)", fmt.Sprintf("the expiry removal is not guarded by `Expiry > 0` (found=%v) and `now.Sub(last update) > Expiry` strictly (found=%v): data without a delayed delete, or data exactly Expiry old, are removed — or expired data are kept", skip, pred))
	}
	{
		gg := gcf.Graph()
		nows := gg.CallsTo("time.Now")
		okNow := len(nows) == 1
		if okNow {
			as := assignOf(gcf, nows[0].N.(*ast.CallExpr))
			okNow = as != nil && exprStr(as.Lhs[0]) == "now"
			// not inside the callback
			for _, h := range g.CallsTo("time.Now") {
				_ = h
				okNow = false
			}
		}
		c.Verdict(okNow, "C10-R4", storeGc+"|now once", pos(c, gcf.Decl), "one time.Now() before the iteration", "the GC pass does not use a single instant T for all data")
	}
	c.Floor("C10-R4", 2)

	c.Rule("C10-R5", "INDEX: in the forward scan `for i := 0; i < len(s); i++` every path from the removal of element i to the loop's post statement passes `i--`")
	for i, h := range expCalls {
		var loop *ast.ForStmt
		core.InspectNoLit(cb.Body, func(n ast.Node) bool {
			if fs, ok := n.(*ast.ForStmt); ok && fs.Pos() <= h.N.Pos() && h.N.End() <= fs.End() {
				loop = fs
			}
			return true
		})
		key := fmt.Sprintf("%s|scan#%d", cb.Key, i+1)
		if loop == nil {
			c.Undecided("C10-R5", key, pos(c, h.N), "expiry removal not inside an index loop")
			continue
		}
		iv := ""
		if as, ok := loop.Init.(*ast.AssignStmt); ok {
			iv = exprStr(as.Lhs[0])
		}
		decs := g.Find(func(n ast.Node) bool {
			d, ok := n.(*ast.IncDecStmt)
			return ok && d.Tok == token.DEC && exprStr(d.X) == iv && d.Pos() > loop.Body.Pos() && d.End() < loop.Body.End()
		})
		var postP []core.Point
		if loop.Post != nil {
			if p, ok := g.PointOf(loop.Post); ok {
				postP = append(postP, p)
			}
		}
		from := h.P
		tr, found := pathAvoiding(g, &from, postP, core.HitPoints(decs))
		// but the error-return path after a failed removal is fine (it leaves)
		c.Verdict(!found && len(postP) == 1, "C10-R5", key, pos(c, loop), "i-- after removing element i", "after removing element i the scan advances without stepping back: the element that moved into position i is skipped (an expired datum survives the pass)", tr...)
		okShape := nospace(exprStr(loop.Cond)) == iv+"<len(m.LabelValues)"
		c.Verdict(okShape, "C10-R5", key+"|bound", pos(c, loop), "re-evaluated length bound", "the scan's bound is not the current length of the slice being spliced")
	}
	c.Floor("C10-R5", 2)

	c.Rule("C10-R6", "WRITE-SET: the fields of Store/Metric/LabelValue that the GC callback and the functions it calls can assign are exactly Metric.LabelValues and Metric.labelValuesMap")
	{
		ws := map[string]bool{}
		fs := append([]*core.Func{}, closureFrom(c.Prog.FuncOf[cb.Decl])...)
		for _, f := range fs {
			if core.Rel(f.Pkg.PkgPath) != "internal/metrics" {
				continue
			}
			if f.Key == storeGc {
				// only the callback and its callees matter; Gc itself assigns nothing
			}
			for k := range metricFieldWrites(f) {
				// restrict to functions reachable from the callback: Gc's closure includes Range
				ws[k] = true
			}
		}
		var extra []string
		for k := range ws {
			if k != "Metric.LabelValues" && k != "Metric.labelValuesMap" {
				extra = append(extra, k)
			}
		}
		c.Verdict(len(extra) == 0 && ws["Metric.LabelValues"], "C10-R6", storeGc+"|write set", pos(c, gcf.Decl), "only the slice/map pair", "a GC pass can also assign "+strings.Join(extra, ", ")+": something other than the removed data changes")
	}
	for _, f := range closureFrom(c.Prog.FuncOf[cb.Decl]) {
		if core.Rel(f.Pkg.PkgPath) != "internal/metrics" {
			continue
		}
		isLV := lvAliases(f)
		ast.Inspect(f.Body, func(n ast.Node) bool {
			if call, ok := n.(*ast.CallExpr); ok && isSortCall(f, call) && isLV(call.Args[0]) {
				c.Fail("C10-R6", f.Key+"|reorders the slice", pos(c, call), "a GC pass sorts the metric's own label-value slice (a reslice shares its backing array): the enumeration order of data that are kept changes, and removals made while walking the sorted alias shift elements under the walk")
			}
			return true
		})
	}
	c.Floor("C10-R6", 1)

	c.Rule("C10-R7", "STABLE-ITERATION: a `range` loop over a metric's LabelValues (or a reslice/alias of it, which shares the backing array) whose body can remove a label value must leave the loop right after the removal — the splice shifts later elements one slot down under the iteration, so the walk would skip elements and see stale ones; index loops are covered by R5")
	n7 := 0
	for _, f := range shipped(c) {
		if core.Rel(f.Pkg.PkgPath) != "internal/metrics" {
			continue
		}
		lvBase := lvBases(f)
		fg := f.Graph()
		for _, rs := range rangeStmts(f) {
			ranged, isLV := lvBase(rs.X)
			if !isLV {
				continue
			}
			n7++
			key := fmt.Sprintf("%s|range over label values#%d", f.Key, n7)
			head, _, _ := loopBlocks(fg, rs)
			bad := false
			for _, h := range fg.Calls(func(id string, call *ast.CallExpr) bool {
				cf := f.CalleeFunc(call)
				return cf != nil && rmv[cf] && rs.Body.Pos() <= call.Pos() && call.End() <= rs.Body.End()
			}) {
				from := h.P
				// whose label values does the call remove?  the receiver (or first argument) metric
				var victim types.Object
				call := h.N.(*ast.CallExpr)
				if r := core.RecvExpr(call); r != nil {
					victim = identObj(f.Info(), r)
				}
				if ranged != nil && victim != nil && ranged != victim {
					continue // removes from another metric than the one iterated (Store.Add: old version v, new version m)
				}
				if ranged == nil || victim == nil {
					bad = true
					c.Undecided("C10-R7", key, pos(c, h.N), "cannot tell whether the removal inside the loop acts on the metric being iterated")
					continue
				}
				if tr, again := fg.Search(core.Query{From: &from, Goal: func(p core.Point) bool { return p.B == head && p.I == 0 }}); again && head != nil {
					bad = true
					c.Fail("C10-R7", key, pos(c, h.N), "a label value is removed while a range loop over the metric's own slice (or an alias of its backing array) keeps iterating: the splice moves the following elements down, so the loop skips every other element and then reads stale duplicates — the data removed are not the ones selected (for the size limit: not the oldest), and fewer than intended are removed", fg.Trail(tr)...)
				}
			}
			if !bad {
				c.Ok("C10-R7", key, pos(c, rs), "no removal inside the loop continues the iteration")
			}
		}
	}
	c.Floor("C10-R7", 2)
}

// isSortCall reports whether call is an in-place sort of its first argument.
func isSortCall(f *core.Func, call *ast.CallExpr) bool {
	id := f.CalleeID(call)
	return len(call.Args) > 0 && (strings.HasPrefix(id, "sort.") || strings.HasPrefix(id, "slices.Sort") || id == "slices.Reverse")
}

// lvAliases returns a predicate telling whether an expression denotes the
// backing array of some Metric's LabelValues inside f: the field itself, a
// reslice of it, or a local assigned from one of those (not a copy made with
// append/copy/make).
func lvAliases(f *core.Func) func(ast.Expr) bool {
	base := lvBases(f)
	return func(e ast.Expr) bool { _, ok := base(e); return ok }
}

// lvBases is lvAliases that also tells whose LabelValues the expression
// denotes: the object of the metric variable (nil when the metric is not named
// by a plain identifier).
func lvBases(f *core.Func) func(ast.Expr) (types.Object, bool) {
	info := f.Info()
	type al struct{ base types.Object }
	aliases := map[types.Object]al{}
	var isLV func(e ast.Expr) (types.Object, bool)
	isLV = func(e ast.Expr) (types.Object, bool) {
		for {
			if se, ok := core.Unparen(e).(*ast.SliceExpr); ok {
				e = se.X
				continue
			}
			break
		}
		if sel, ok := core.Unparen(e).(*ast.SelectorExpr); ok {
			if s := info.Selections[sel]; s != nil && s.Kind() == types.FieldVal && s.Obj().Name() == "LabelValues" && strings.HasSuffix(s.Recv().String(), "metrics.Metric") {
				return identObj(info, sel.X), true
			}
		}
		if o := identObj(info, e); o != nil {
			if a, ok := aliases[o]; ok {
				return a.base, true
			}
		}
		return nil, false
	}
	for changed := true; changed; {
		changed = false
		ast.Inspect(f.Body, func(n ast.Node) bool {
			if as, ok := n.(*ast.AssignStmt); ok && len(as.Lhs) == len(as.Rhs) {
				for i, r := range as.Rhs {
					if b, ok := isLV(r); ok {
						if o := identObj(info, as.Lhs[i]); o != nil {
							if _, have := aliases[o]; !have {
								aliases[o] = al{b}
								changed = true
							}
						}
					}
				}
			}
			return true
		})
	}
	return isLV
}

// fieldUsed reports whether e reads the field `name` of the struct type whose
// qualified name ends in recvSuffix.
func fieldUsed(info *types.Info, e ast.Node, recvSuffix, name string) bool {
	found := false
	ast.Inspect(e, func(n ast.Node) bool {
		if sel, ok := n.(*ast.SelectorExpr); ok {
			if s := info.Selections[sel]; s != nil && s.Kind() == types.FieldVal && s.Obj().Name() == name && strings.HasSuffix(s.Recv().String(), recvSuffix) {
				found = true
			}
		}
		return !found
	})
	return found
}

// removers is the set of declared functions that splice a Metric's
// LabelValues or (transitively) call one that does.
func removers(c *core.Check) map[*core.Func]bool {
	return c.Prog.Reaching(func(f *core.Func) bool {
		if core.Rel(f.Pkg.PkgPath) != "internal/metrics" {
			return false
		}
		isLV := lvAliases(f)
		hit := false
		ast.Inspect(f.Body, func(n ast.Node) bool {
			if as, ok := n.(*ast.AssignStmt); ok && len(as.Lhs) == 1 && len(as.Rhs) == 1 && isLV(as.Lhs[0]) {
				// append(s[:i], s[i+1:]...) or any reslice that drops elements
				if call, ok := core.Unparen(as.Rhs[0]).(*ast.CallExpr); ok && f.CalleeID(call) == "builtin.append" && len(call.Args) > 0 {
					if _, isSlice := core.Unparen(call.Args[0]).(*ast.SliceExpr); isSlice {
						hit = true
					}
				}
				if _, isSlice := core.Unparen(as.Rhs[0]).(*ast.SliceExpr); isSlice {
					hit = true
				}
			}
			return !hit
		})
		return hit
	})
}

// metricsClosure lists root and the functions of internal/metrics it reaches
// through statically resolved calls.
func metricsClosure(root *core.Func) []*core.Func {
	var out []*core.Func
	for _, f := range closureFrom(root) {
		if core.Rel(f.Pkg.PkgPath) == "internal/metrics" {
			out = append(out, f)
		}
	}
	return out
}

// findInClosure returns root if pred holds for it, else the first function
// (by key) of internal/metrics reachable from root for which it holds: the
// rules follow a public method into the unexported helper that does the work.
func findInClosure(root *core.Func, pred func(*core.Func) bool) *core.Func {
	if pred(root) {
		return root
	}
	for _, f := range metricsClosure(root) {
		if f != root && pred(f) {
			return f
		}
	}
	return nil
}

// splicesLabelValues reports whether f itself assigns a shortened slice to a Metric's LabelValues.
func splicesLabelValues(f *core.Func) bool {
	isLV := lvAliases(f)
	hit := false
	core.InspectNoLit(f.Body, func(n ast.Node) bool {
		if as, ok := n.(*ast.AssignStmt); ok && len(as.Lhs) == 1 && len(as.Rhs) == 1 && isLV(as.Lhs[0]) {
			if call, ok := core.Unparen(as.Rhs[0]).(*ast.CallExpr); ok && f.CalleeID(call) == "builtin.append" && len(call.Args) > 0 {
				if _, isSlice := core.Unparen(call.Args[0]).(*ast.SliceExpr); isSlice {
					hit = true
				}
			}
			if _, isSlice := core.Unparen(as.Rhs[0]).(*ast.SliceExpr); isSlice {
				hit = true
			}
		}
		return !hit
	})
	return hit
}

// mergedFieldWrites is metricFieldWrites over root and what it reaches inside internal/metrics.
func mergedFieldWrites(root *core.Func) map[string][]ast.Node {
	out := map[string][]ast.Node{}
	for _, f := range metricsClosure(root) {
		for k, v := range metricFieldWrites(f) {
			out[k] = append(out[k], v...)
		}
	}
	return out
}

// isMapLookupOk reports whether cond is the boolean result of a comma-ok
// lookup in the map field named field (`v, ok := x.field[k]; if ok`), or the
// equivalent `v != nil` on the looked-up value.
func isMapLookupOk(f *core.Func, cond ast.Expr, field string) bool {
	info := f.Info()
	var obj types.Object
	switch x := core.Unparen(cond).(type) {
	case *ast.Ident:
		obj = identObj(info, x)
	case *ast.BinaryExpr:
		if x.Op == token.NEQ && isNilIdent(info, x.Y) {
			obj = identObj(info, x.X)
		} else if x.Op == token.NEQ && isNilIdent(info, x.X) {
			obj = identObj(info, x.Y)
		}
	}
	if obj == nil {
		return false
	}
	found := false
	ast.Inspect(f.Body, func(n ast.Node) bool {
		as, ok := n.(*ast.AssignStmt)
		if !ok || len(as.Rhs) != 1 {
			return true
		}
		ix, ok := core.Unparen(as.Rhs[0]).(*ast.IndexExpr)
		if !ok {
			return true
		}
		sel, ok := core.Unparen(ix.X).(*ast.SelectorExpr)
		if !ok || sel.Sel.Name != field {
			return true
		}
		for _, l := range as.Lhs {
			if identObj(info, l) == obj {
				found = true
			}
		}
		return true
	})
	return found
}
