package props

// Shape-independent reading of conditions and local definitions.
//
// The rules of C04/C05/C07 need to know "under which test is this statement
// reached".  Comparing the text of an if-condition with a spelling makes a rule
// fire on `nil == x`, on a negated condition with swapped branches, on an
// early return, on a switch.  Here a condition is reduced to FACTS about named
// atoms on the two out-edges of its CFG block; a rule then asks path questions
// ("is the call reachable without passing an edge on which the atom is known to
// be true?").  `!`, `&&`, `||`, `== true/false`, either operand order, if/else
// order, early return, tagless and tagged switches all reduce to the same
// edge facts.

import (
	"fmt"
	"go/ast"
	"go/token"
	"go/types"
	"strings"

	"golang.org/x/tools/go/cfg"

	"verif/sa/core"
)

// condFact says that on a CFG edge the atom `id` is known to be equal (eq) or not
// equal (!eq) to val.  Boolean atoms use val "true"/"false" with eq == true.
type condFact struct {
	id, val string
	eq      bool
}

func (f condFact) negate() condFact {
	if f.eq && f.val == "true" {
		return condFact{f.id, "false", true}
	}
	if f.eq && f.val == "false" {
		return condFact{f.id, "true", true}
	}
	return condFact{f.id, f.val, !f.eq}
}

// compatible reports whether the condFact can hold when atom id has value val.
func (f condFact) compatible(id, val string) bool {
	if f.id != id {
		return true
	}
	if f.eq {
		return f.val == val
	}
	return f.val != val
}

// atomFn classifies a leaf condition: the condFact that holds when e is TRUE.
type atomFn func(e ast.Expr) (condFact, bool)

// condFacts returns the facts known when e evaluates to branch.
func condFacts(info *types.Info, e ast.Expr, branch bool, atom atomFn) []condFact {
	e = core.Unparen(e)
	switch x := e.(type) {
	case *ast.UnaryExpr:
		if x.Op == token.NOT {
			return condFacts(info, x.X, !branch, atom)
		}
	case *ast.BinaryExpr:
		switch x.Op {
		case token.LAND:
			if branch {
				return append(condFacts(info, x.X, true, atom), condFacts(info, x.Y, true, atom)...)
			}
			return nil
		case token.LOR:
			if !branch {
				return append(condFacts(info, x.X, false, atom), condFacts(info, x.Y, false, atom)...)
			}
			return nil
		case token.EQL, token.NEQ:
			// b == true, false != b, …
			for _, p := range [][2]ast.Expr{{x.X, x.Y}, {x.Y, x.X}} {
				if v, ok := constBool(info, p[1]); ok {
					same := v == (x.Op == token.EQL) // e is true exactly when p[0] is `same`
					return condFacts(info, p[0], branch == same, atom)
				}
			}
		}
	}
	if f, ok := atom(e); ok {
		if branch {
			return []condFact{f}
		}
		return []condFact{f.negate()}
	}
	return nil
}

// edgeFacts holds the facts on the out-edges of the two-way blocks of a graph.
type edgeFacts map[*cfg.Block][2][]condFact

// graphFacts computes the edge facts of g: if/for conditions, the case
// expressions of tagless switches, and `tag == caseExpr` for tagged switches.
func graphFacts(g *core.Graph, atom atomFn) edgeFacts {
	info := g.F.Info()
	tagOf := map[ast.Expr]ast.Expr{} // case expression -> tag of its switch (nil tag: tagless)
	tagless := map[ast.Expr]bool{}
	ast.Inspect(g.F.Body, func(n ast.Node) bool {
		if s, ok := n.(*ast.SwitchStmt); ok {
			for _, cl := range s.Body.List {
				for _, e := range cl.(*ast.CaseClause).List {
					if s.Tag != nil {
						tagOf[e] = s.Tag
					} else {
						tagless[e] = true
					}
				}
			}
		}
		return true
	})
	ef := edgeFacts{}
	for _, b := range g.C.Blocks {
		if !b.Live || len(b.Succs) != 2 || len(b.Nodes) == 0 {
			continue
		}
		e, ok := b.Nodes[len(b.Nodes)-1].(ast.Expr)
		if !ok {
			continue
		}
		var cond ast.Expr
		if tag, isCase := tagOf[e]; isCase {
			cond = &ast.BinaryExpr{X: tag, Op: token.EQL, Y: e}
		} else if tagless[e] {
			cond = e
		} else if t := info.TypeOf(e); t != nil {
			if bt, ok := t.Underlying().(*types.Basic); ok && bt.Info()&types.IsBoolean != 0 {
				cond = e
			}
		}
		if cond == nil {
			continue
		}
		ef[b] = [2][]condFact{condFacts(info, cond, true, atom), condFacts(info, cond, false, atom)}
	}
	return ef
}

// avoid builds an AvoidEdge predicate: edges carrying a condFact for which pred holds.
func (ef edgeFacts) avoid(pred func(condFact) bool) func(b *cfg.Block, succ int) bool {
	return func(b *cfg.Block, succ int) bool {
		fs, ok := ef[b]
		if !ok || succ > 1 {
			return false
		}
		for _, f := range fs[succ] {
			if pred(f) {
				return true
			}
		}
		return false
	}
}

// edgesWith lists the (block, successor) pairs carrying a condFact for which pred holds.
func (ef edgeFacts) edgesWith(pred func(condFact) bool) []core.Point {
	var out []core.Point
	for b, fs := range ef {
		for k := 0; k < 2; k++ {
			for _, f := range fs[k] {
				if pred(f) {
					out = append(out, core.Point{B: b.Succs[k], I: -1})
					break
				}
			}
		}
	}
	return out
}

// ---- local definitions ---------------------------------------------------

// onceDef returns the defining expression of a local variable that is
// defined exactly once in the declaration f belongs to (`x := e`, `var x = e`,
// one-to-one positions of a parallel definition) and never assigned again,
// incremented, ranged over or address-taken.  nil otherwise.
func onceDef(f *core.Func, obj types.Object) ast.Expr {
	v, ok := obj.(*types.Var)
	if !ok || v.IsField() || v.Pkg() == nil || v.Parent() == v.Pkg().Scope() {
		return nil
	}
	info := f.Info()
	var body ast.Node = f.Body
	if f.Decl != nil && f.Decl.Body != nil {
		body = f.Decl.Body
	}
	var def ast.Expr
	n, bad := 0, false
	ast.Inspect(body, func(x ast.Node) bool {
		switch s := x.(type) {
		case *ast.AssignStmt:
			for i, l := range s.Lhs {
				if identObj(info, l) != obj {
					continue
				}
				n++
				if len(s.Lhs) == len(s.Rhs) && (s.Tok == token.DEFINE || s.Tok == token.ASSIGN) {
					def = s.Rhs[i]
				} else {
					bad = true
				}
			}
		case *ast.ValueSpec:
			for i, nm := range s.Names {
				if info.Defs[nm] == obj {
					n++
					if len(s.Values) == len(s.Names) {
						def = s.Values[i]
					} else if len(s.Values) != 0 {
						bad = true
					} else {
						bad = true // zero value declaration followed by assignments
					}
				}
			}
		case *ast.IncDecStmt:
			if identObj(info, s.X) == obj {
				bad = true
			}
		case *ast.RangeStmt:
			if (s.Key != nil && identObj(info, s.Key) == obj) || (s.Value != nil && identObj(info, s.Value) == obj) {
				bad = true
			}
		case *ast.UnaryExpr:
			if s.Op == token.AND && identObj(info, s.X) == obj {
				bad = true
			}
		}
		return true
	})
	if n != 1 || bad {
		return nil
	}
	return def
}

// throughLocals follows single definitions of local variables: `loc := v.loc;
// … loc …` resolves to `v.loc`.
func throughLocals(f *core.Func, e ast.Expr) ast.Expr {
	for depth := 0; depth < 6; depth++ {
		e = core.Unparen(e)
		id, ok := e.(*ast.Ident)
		if !ok {
			return e
		}
		obj := f.Info().Uses[id]
		if obj == nil {
			return e
		}
		d := onceDef(f, obj)
		if d == nil {
			return e
		}
		e = d
	}
	return e
}

// canonExpr renders an expression with single-definition locals replaced by their
// defining expressions and every other identifier tagged with its object, so
// two occurrences compare equal exactly when they are built the same way from
// the same variables — whatever the locals in between are called.
func canonExpr(f *core.Func, e ast.Expr) string {
	return canonExprD(f, e, 0)
}

func canonExprD(f *core.Func, e ast.Expr, depth int) string {
	if e == nil {
		return ""
	}
	info := f.Info()
	switch x := core.Unparen(e).(type) {
	case *ast.Ident:
		obj := info.Uses[x]
		if obj == nil {
			obj = info.Defs[x]
		}
		if obj == nil {
			return x.Name
		}
		if depth < 6 {
			if d := onceDef(f, obj); d != nil {
				return canonExprD(f, d, depth+1)
			}
		}
		switch obj.(type) {
		case *types.Var:
			return fmt.Sprintf("%s@%d", x.Name, obj.Pos())
		}
		return x.Name
	case *ast.SelectorExpr:
		if id, ok := x.X.(*ast.Ident); ok {
			if _, isPkg := info.Uses[id].(*types.PkgName); isPkg {
				if o := info.Uses[x.Sel]; o != nil && o.Pkg() != nil {
					return o.Pkg().Path() + "." + x.Sel.Name
				}
			}
		}
		return canonExprD(f, x.X, depth) + "." + x.Sel.Name
	case *ast.IndexExpr:
		return canonExprD(f, x.X, depth) + "[" + canonExprD(f, x.Index, depth) + "]"
	case *ast.StarExpr:
		return "*" + canonExprD(f, x.X, depth)
	case *ast.UnaryExpr:
		return x.Op.String() + canonExprD(f, x.X, depth)
	case *ast.BinaryExpr:
		return "(" + canonExprD(f, x.X, depth) + x.Op.String() + canonExprD(f, x.Y, depth) + ")"
	case *ast.CallExpr:
		var as []string
		for _, a := range x.Args {
			as = append(as, canonExprD(f, a, depth))
		}
		return canonExprD(f, x.Fun, depth) + "(" + strings.Join(as, ",") + ")"
	case *ast.KeyValueExpr:
		return canonExprD(f, x.Key, depth) + ":" + canonExprD(f, x.Value, depth)
	case *ast.CompositeLit:
		var es []string
		for _, el := range x.Elts {
			es = append(es, canonExprD(f, el, depth))
		}
		return typeStr(info.TypeOf(x)) + "{" + strings.Join(es, ",") + "}"
	case *ast.TypeAssertExpr:
		if x.Type == nil {
			return canonExprD(f, x.X, depth) + ".(type)"
		}
		return canonExprD(f, x.X, depth) + ".(" + typeStr(info.TypeOf(x.Type)) + ")"
	case *ast.BasicLit:
		return x.Value
	}
	return exprStr(e)
}

// fieldOfType reports whether e (after resolving locals) selects the field
// `field` of a struct whose type name ends in recvSuffix ("vm.VM").
func fieldOfType(f *core.Func, e ast.Expr, recvSuffix, field string) bool {
	sel, ok := throughLocals(f, e).(*ast.SelectorExpr)
	if !ok || sel.Sel.Name != field {
		return false
	}
	s := f.Info().Selections[sel]
	return s != nil && s.Kind() == types.FieldVal && strings.HasSuffix(s.Recv().String(), recvSuffix)
}

// nilTest classifies `x != nil` / `nil == x` …: it returns x and whether the
// comparison is true when x is NOT nil.
func nilTest(info *types.Info, e ast.Expr) (x ast.Expr, nonNilWhenTrue, ok bool) {
	b, isB := core.Unparen(e).(*ast.BinaryExpr)
	if !isB || (b.Op != token.EQL && b.Op != token.NEQ) {
		return nil, false, false
	}
	switch {
	case isNilIdent(info, b.Y):
		return b.X, b.Op == token.NEQ, true
	case isNilIdent(info, b.X):
		return b.Y, b.Op == token.NEQ, true
	}
	return nil, false, false
}

// funcContaining returns the innermost function (declaration or literal) of
// the program whose body contains n.
func funcContaining(c *core.Check, n ast.Node) *core.Func {
	var best *core.Func
	for _, f := range c.Prog.Funcs {
		if f.Body.Pos() <= n.Pos() && n.End() <= f.Body.End() {
			if best == nil || (best.Body.Pos() <= f.Body.Pos() && f.Body.End() <= best.Body.End()) {
				best = f
			}
		}
	}
	return best
}

// stmtContext returns the innermost statement list of f containing n and the
// index of the statement holding it.
func stmtContext(f *core.Func, n ast.Node) (list []ast.Stmt, idx int) {
	idx = -1
	ast.Inspect(f.Body, func(x ast.Node) bool {
		var l []ast.Stmt
		switch b := x.(type) {
		case *ast.BlockStmt:
			l = b.List
		case *ast.CaseClause:
			l = b.Body
		case *ast.CommClause:
			l = b.Body
		}
		for i, st := range l {
			if st.Pos() <= n.Pos() && n.End() <= st.End() {
				list, idx = l, i // inner lists are visited later and win
			}
		}
		return true
	})
	return
}
