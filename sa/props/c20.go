package props

import (
	"fmt"
	"go/ast"
	"go/token"
	"go/types"
	"sort"
	"strings"

	"golang.org/x/tools/go/cfg"

	"verif/sa/core"
)

func init() { register("C20", c20) }

const (
	c20RuntimePkg = "internal/runtime"
	c20VMPkg      = "internal/runtime/vm"
	c20RunKey     = "internal/runtime/vm.(*VM).Run"
	c20LineKey    = "internal/runtime/vm.(*VM).ProcessLogLine"
)

// c20env holds the anchors of the property, resolved from the type-checked
// program: the handle map and its lock (fields of runtime.Runtime), the
// handle struct and its line channel field.
type c20env struct {
	c       *core.Check
	handles *types.Var // Runtime.handles
	mu      *types.Var // Runtime.handleMu
	lines   *types.Var // the chan *logline.LogLine field of the handle struct
	handleT *types.Named
	rt      []*core.Func // shipped functions (declarations and literals) of package runtime
	rtvm    []*core.Func // ... of packages runtime and vm
	selAlt  map[ast.Node]bool
	selSend map[*ast.SendStmt]bool // sends that are one alternative of a select; value: the select has a default clause
}

func c20isLineChan(t types.Type) bool {
	if t == nil {
		return false
	}
	ch, ok := t.Underlying().(*types.Chan)
	return ok && strings.HasSuffix(ch.Elem().String(), "logline.LogLine")
}

func c20resolve(c *core.Check) (*c20env, string) {
	pkg := c.Prog.Pkgs[c20RuntimePkg]
	if pkg == nil {
		return nil, "package " + c20RuntimePkg + " not loaded"
	}
	obj := pkg.Types.Scope().Lookup("Runtime")
	if obj == nil {
		return nil, "type runtime.Runtime not found"
	}
	st, ok := obj.Type().Underlying().(*types.Struct)
	if !ok {
		return nil, "runtime.Runtime is not a struct"
	}
	e := &c20env{c: c, selAlt: map[ast.Node]bool{}, selSend: map[*ast.SendStmt]bool{}}
	for i := 0; i < st.NumFields(); i++ {
		f := st.Field(i)
		switch f.Name() {
		case "handles":
			e.handles = f
		case "handleMu":
			e.mu = f
		}
	}
	if e.handles == nil || e.mu == nil {
		return nil, "fields handles / handleMu of runtime.Runtime not found"
	}
	if s := e.mu.Type().String(); s != "sync.RWMutex" && s != "sync.Mutex" {
		return nil, "Runtime.handleMu is not a sync mutex but " + s
	}
	m, ok := e.handles.Type().Underlying().(*types.Map)
	if !ok {
		return nil, "Runtime.handles is not a map"
	}
	el := m.Elem()
	if p, ok := el.(*types.Pointer); ok {
		el = p.Elem()
	}
	named, ok := el.(*types.Named)
	if !ok {
		return nil, "element of Runtime.handles is not a named struct"
	}
	hs, ok := named.Underlying().(*types.Struct)
	if !ok {
		return nil, "element of Runtime.handles is not a struct"
	}
	e.handleT = named
	n := 0
	for i := 0; i < hs.NumFields(); i++ {
		if c20isLineChan(hs.Field(i).Type()) {
			e.lines = hs.Field(i)
			n++
		}
	}
	if n != 1 {
		return nil, fmt.Sprintf("the handle struct %s has %d channel-of-lines fields, expected exactly one", named.Obj().Name(), n)
	}
	for _, f := range shipped(c) {
		switch core.Rel(f.Pkg.PkgPath) {
		case c20RuntimePkg:
			e.rt = append(e.rt, f)
			e.rtvm = append(e.rtvm, f)
		case c20VMPkg:
			e.rtvm = append(e.rtvm, f)
		}
	}
	// receives that are one alternative of a select with several clauses are not unconditional waits
	for _, f := range e.rtvm {
		if f.Lit != nil {
			continue
		}
		ast.Inspect(f.Body, func(n ast.Node) bool {
			ss, ok := n.(*ast.SelectStmt)
			if !ok || len(ss.Body.List) < 2 {
				return true
			}
			hasDefault := false
			for _, cl := range ss.Body.List {
				if cc, ok := cl.(*ast.CommClause); ok && cc.Comm == nil {
					hasDefault = true
				}
			}
			for _, cl := range ss.Body.List {
				if cc, ok := cl.(*ast.CommClause); ok && cc.Comm != nil {
					if snd, ok := cc.Comm.(*ast.SendStmt); ok {
						e.selSend[snd] = hasDefault
					}
					ast.Inspect(cc.Comm, func(x ast.Node) bool {
						if u, ok := x.(*ast.UnaryExpr); ok && u.Op == token.ARROW {
							e.selAlt[u] = true
						}
						return true
					})
				}
			}
			return true
		})
	}
	return e, ""
}

// c20field resolves a selector expression to the struct field it selects.
func c20field(info *types.Info, x ast.Expr) *types.Var {
	sel, ok := core.Unparen(x).(*ast.SelectorExpr)
	if !ok {
		return nil
	}
	if s := info.Selections[sel]; s != nil && s.Kind() == types.FieldVal {
		v, _ := s.Obj().(*types.Var)
		return v
	}
	return nil
}

// c20defs lists the defining right-hand sides of a local variable inside the
// declaration enclosing f.  A definition that is not a plain one-to-one or
// comma-ok assignment / var spec / range clause yields ok=false.
type c20def struct {
	rhs ast.Expr       // defining expression (nil for a range clause)
	rng *ast.RangeStmt // the range statement defining it as key or value
	val bool           // defined as the range value (else key)
	at  ast.Node
}

func c20defs(f *core.Func, obj types.Object) (defs []c20def, ok bool) {
	if obj == nil {
		return nil, false
	}
	ok = true
	info := f.Info()
	ast.Inspect(f.Decl.Body, func(n ast.Node) bool {
		switch x := n.(type) {
		case *ast.AssignStmt:
			for i, l := range x.Lhs {
				if identObj(info, l) != obj {
					continue
				}
				switch {
				case len(x.Rhs) == len(x.Lhs) && (x.Tok == token.DEFINE || x.Tok == token.ASSIGN):
					defs = append(defs, c20def{rhs: x.Rhs[i], at: x})
				case len(x.Rhs) == 1 && len(x.Lhs) == 2 && i == 0:
					defs = append(defs, c20def{rhs: x.Rhs[0], at: x})
				default:
					ok = false
				}
			}
		case *ast.ValueSpec:
			for i, nm := range x.Names {
				if info.Defs[nm] != obj {
					continue
				}
				if len(x.Values) == len(x.Names) {
					defs = append(defs, c20def{rhs: x.Values[i], at: x})
				} else if len(x.Values) == 1 && len(x.Names) == 2 && i == 0 {
					defs = append(defs, c20def{rhs: x.Values[0], at: x})
				} else {
					ok = false // zero value or multi-value call
				}
			}
		case *ast.RangeStmt:
			if x.Key != nil && identObj(info, x.Key) == obj {
				defs = append(defs, c20def{rng: x, at: x})
			}
			if x.Value != nil && identObj(info, x.Value) == obj {
				defs = append(defs, c20def{rng: x, val: true, at: x})
			}
		case *ast.IncDecStmt:
			if identObj(info, x.X) == obj {
				ok = false
			}
		case *ast.UnaryExpr:
			if x.Op == token.AND && identObj(info, x.X) == obj {
				ok = false // address taken: may be written elsewhere
			}
		}
		return true
	})
	return defs, ok
}

// c20single returns the only definition of obj, if it has exactly one.
func c20single(f *core.Func, obj types.Object) (c20def, bool) {
	defs, ok := c20defs(f, obj)
	if !ok || len(defs) != 1 {
		return c20def{}, false
	}
	return defs[0], true
}

// c20handle describes how an expression denoting a VM handle was obtained from the handle map.
type c20handle struct {
	local  types.Object   // the variable holding the handle; nil when the map is indexed in place
	key    ast.Expr       // the key of the lookup: index expression or the range key
	lookup ast.Node       // *ast.IndexExpr, or the *ast.RangeStmt when obtained as the range value
	rng    *ast.RangeStmt // non-nil when obtained as the value of `range handles`
	alias  []types.Object // further variables the same handle went through (h2 := h)
}

// isLocal reports whether obj is the variable holding the handle or one of its aliases.
func (h *c20handle) isLocal(obj types.Object) bool {
	if obj == nil {
		return false
	}
	if obj == h.local {
		return true
	}
	for _, a := range h.alias {
		if a == obj {
			return true
		}
	}
	return false
}

func (e *c20env) isHandlesMap(info *types.Info, x ast.Expr) bool {
	return c20field(info, x) == e.handles
}

// handleOf resolves x (an expression of handle type) to its lookup in the map.
func (e *c20env) handleOf(f *core.Func, x ast.Expr) *c20handle {
	info := f.Info()
	switch y := core.Unparen(x).(type) {
	case *ast.IndexExpr:
		if e.isHandlesMap(info, y.X) {
			return &c20handle{key: y.Index, lookup: y}
		}
	case *ast.Ident:
		obj := identObj(info, y)
		d, ok := c20single(f, obj)
		if !ok {
			return nil
		}
		if d.rng != nil {
			if d.val && e.isHandlesMap(info, d.rng.X) {
				return &c20handle{local: obj, key: d.rng.Key, lookup: d.rng, rng: d.rng}
			}
			return nil
		}
		if ix, ok := core.Unparen(d.rhs).(*ast.IndexExpr); ok && e.isHandlesMap(info, ix.X) {
			return &c20handle{local: obj, key: ix.Index, lookup: ix}
		}
		if id, ok := core.Unparen(d.rhs).(*ast.Ident); ok && identObj(info, id) != obj {
			if h := e.handleOf(f, id); h != nil && len(h.alias) < 3 && h.local != nil {
				h2 := *h
				h2.alias = append(append([]types.Object{}, h.alias...), h.local)
				h2.local = obj
				return &h2
			}
		}
	}
	return nil
}

// linesOf reports whether x denotes the line channel of a handle, and resolves the handle.
func (e *c20env) linesOf(f *core.Func, x ast.Expr) (h *c20handle, isLines bool) {
	info := f.Info()
	switch y := core.Unparen(x).(type) {
	case *ast.SelectorExpr:
		if c20field(info, y) == e.lines {
			return e.handleOf(f, y.X), true
		}
	case *ast.Ident:
		if d, ok := c20single(f, identObj(info, y)); ok && d.rhs != nil {
			if sel, ok := core.Unparen(d.rhs).(*ast.SelectorExpr); ok && c20field(info, sel) == e.lines {
				return e.handleOf(f, sel.X), true
			}
		}
	}
	return nil, false
}

// sameKey compares two key expressions: same variable, or the same constant / text.
func c20sameKey(info *types.Info, a, b ast.Expr) bool {
	if a == nil || b == nil {
		return false
	}
	if oa, ob := identObj(info, a), identObj(info, b); oa != nil || ob != nil {
		return oa == ob
	}
	return exprStr(a) == exprStr(b)
}

// lockEvs lists the events on the handle lock in g.
func (e *c20env) lockEvs(g *core.Graph) []core.LockEv {
	var out []core.LockEv
	for _, ev := range g.LockEvents() {
		if r := core.RecvExpr(ev.Call); r != nil && c20field(g.F.Info(), r) == e.mu {
			out = append(out, ev)
		}
	}
	return out
}

// releases lists the points of explicit (not deferred) releases of the handle lock; mode "" = any.
func (e *c20env) releases(g *core.Graph, mode string) []core.Point {
	var out []core.Point
	for _, ev := range e.lockEvs(g) {
		if !ev.Acquire && !ev.Deferred && (mode == "" || ev.Mode == mode) {
			out = append(out, ev.P)
		}
	}
	return out
}

func c20isGoLit(c *core.Check, f *core.Func) bool {
	if f.Lit == nil || f.Parent == nil {
		return false
	}
	for _, l := range goLits(c, f.Parent) {
		if l == f {
			return true
		}
	}
	return false
}

type c20site struct {
	f    *core.Func
	p    core.Point
	inGo bool
	call *ast.CallExpr
}

// callSites lists the statically resolved calls of f in package runtime.
func (e *c20env) callSites(f *core.Func) []c20site {
	var out []c20site
	for _, cf := range e.rt {
		for _, h := range cf.Graph().Find(func(n ast.Node) bool {
			call, ok := n.(*ast.CallExpr)
			return ok && cf.CalleeFunc(call) == f
		}) {
			out = append(out, c20site{cf, h.P, h.InGo || h.InDefer, h.N.(*ast.CallExpr)})
		}
	}
	return out
}

// held decides whether the handle lock is certainly held (at least in mode)
// at point p of f.  A body that never touches the lock inherits the state of
// all its call sites (helper extracted from a locked region).  undecided is
// non-empty when the shape is outside the recognised family.
func (e *c20env) held(f *core.Func, p core.Point, mode string, depth int) (ok bool, undecided string) {
	g := f.Graph()
	evs := e.lockEvs(g)
	if len(evs) > 0 {
		set := g.MustHold().At(p)
		for _, ev := range evs {
			if core.Holds(set, ev.Path, mode) {
				return true, ""
			}
		}
		return false, ""
	}
	if f.Lit != nil {
		if c20isGoLit(e.c, f) {
			return false, "" // a new goroutine holds nothing
		}
		return false, "the operation is inside a function literal that is not a goroutine body; its lock context is not followed"
	}
	if depth >= 3 {
		return false, "call chain deeper than 3 without touching the handle lock"
	}
	sites := e.callSites(f)
	if len(sites) == 0 {
		return false, ""
	}
	for _, s := range sites {
		if s.inGo {
			return false, ""
		}
		ok, und := e.held(s.f, s.p, mode, depth+1)
		if !ok {
			return false, und
		}
	}
	return true, ""
}

// releasedBetween looks for a path from the lookup of handle h to the point
// use on which the handle lock is released and the lookup is not repeated:
// the handle used is then possibly no longer the one in the map.
func (e *c20env) releasedBetween(f *core.Func, h *c20handle, use core.Point) (trail []string, found bool, undecided string) {
	g := f.Graph()
	var from core.Point
	var avoid func(core.Point) bool
	if h.rng != nil {
		head, body, _ := loopBlocks(g, h.rng)
		if head == nil || body == nil {
			return nil, false, "the range over the handle map is not in the same function as the use of the handle"
		}
		from = core.Point{B: body, I: -1}
		avoid = func(p core.Point) bool { return p.B == head }
	} else {
		lp, ok := g.PointOf(h.lookup)
		if !ok {
			return nil, false, "the lookup of the handle is not in the same function as its use"
		}
		if lp == use {
			return nil, false, ""
		}
		from = lp
		avoid = core.At(lp)
	}
	for _, r := range e.releases(g, "") {
		r := r
		t1, ok1 := g.Search(core.Query{From: &from, Goal: core.At(r)})
		if !ok1 {
			continue
		}
		t2, ok2 := g.Search(core.Query{From: &r, Goal: core.At(use), Avoid: avoid})
		if ok2 {
			return append(g.Trail(t1), g.Trail(t2)...), true, ""
		}
	}
	return nil, false, ""
}

// c20base strips selectors, calls, stars and parentheses down to the root expression.
func c20base(x ast.Expr) ast.Expr {
	for {
		switch y := x.(type) {
		case *ast.ParenExpr:
			x = y.X
		case *ast.SelectorExpr:
			x = y.X
		case *ast.StarExpr:
			x = y.X
		case *ast.CallExpr:
			x = y.Fun
		case *ast.UnaryExpr:
			if y.Op != token.AND {
				return x
			}
			x = y.X
		default:
			return x
		}
	}
}

// rootOf builds the predicate "this expression is rooted at handle h".
func (e *c20env) rootOf(f *core.Func, h *c20handle) func(ast.Expr) bool {
	info := f.Info()
	var root func(x ast.Expr, depth int) bool
	root = func(x ast.Expr, depth int) bool {
		switch b := c20base(x).(type) {
		case *ast.Ident:
			obj := identObj(info, b)
			if h.isLocal(obj) {
				return true
			}
			// a local defined once from something rooted at the handle (vm := handle.vm)
			if _, isVar := obj.(*types.Var); isVar && depth < 3 {
				if d, ok := c20single(f, obj); ok && d.rhs != nil {
					return root(d.rhs, depth+1)
				}
			}
		case *ast.IndexExpr:
			return e.isHandlesMap(info, b.X) && c20sameKey(info, b.Index, h.key)
		}
		return false
	}
	return func(x ast.Expr) bool { return root(x, 0) }
}

// c20wait is a point that blocks until a goroutine signals through carrier.
type c20wait struct {
	p       core.Point
	n       ast.Node
	carrier *types.Var // the struct field through which completion is signalled (nil if unresolved)
	kind    string     // "recv" or "wg"
	via     string
}

// carrierOf resolves the channel / waitgroup expression of a wait to a struct field,
// following a getter method whose body is `return recv.field`.
func (e *c20env) carrierOf(f *core.Func, x ast.Expr) *types.Var {
	x = core.Unparen(x)
	if u, ok := x.(*ast.UnaryExpr); ok && u.Op == token.AND {
		x = core.Unparen(u.X)
	}
	if v := c20field(f.Info(), x); v != nil {
		return v
	}
	if call, ok := x.(*ast.CallExpr); ok {
		if cf := f.CalleeFunc(call); cf != nil && cf.Lit == nil && len(cf.Body.List) == 1 {
			if rs, ok := cf.Body.List[0].(*ast.ReturnStmt); ok && len(rs.Results) == 1 {
				return c20field(cf.Info(), rs.Results[0])
			}
		}
	}
	return nil
}

func c20recvObj(f *core.Func) types.Object {
	if f.Decl == nil || f.Lit != nil || f.Decl.Recv == nil || len(f.Decl.Recv.List) == 0 || len(f.Decl.Recv.List[0].Names) == 0 {
		return nil
	}
	return f.Info().Defs[f.Decl.Recv.List[0].Names[0]]
}

// waitsIn finds the unconditional waits in f whose subject is rooted as root says:
// `<-root.x`, `root.wg.Wait()`, or a call of a method on root... whose every path waits on its receiver.
func (e *c20env) waitsIn(f *core.Func, root func(ast.Expr) bool, depth int) []c20wait {
	var out []c20wait
	g := f.Graph()
	for _, h := range g.Find(func(n ast.Node) bool {
		switch x := n.(type) {
		case *ast.UnaryExpr:
			return x.Op == token.ARROW
		case *ast.CallExpr:
			return true
		}
		return false
	}) {
		if h.InDefer || h.InGo {
			continue
		}
		switch x := h.N.(type) {
		case *ast.UnaryExpr:
			if e.selAlt[x] || !root(x.X) {
				continue
			}
			out = append(out, c20wait{p: h.P, n: x, carrier: e.carrierOf(f, x.X), kind: "recv", via: exprStr(x)})
		case *ast.CallExpr:
			recv := core.RecvExpr(x)
			if recv == nil || !root(recv) {
				continue
			}
			if f.CalleeID(x) == "sync.(*WaitGroup).Wait" {
				out = append(out, c20wait{p: h.P, n: x, carrier: e.carrierOf(f, recv), kind: "wg", via: exprStr(x)})
				continue
			}
			cf := f.CalleeFunc(x)
			ro := (types.Object)(nil)
			if cf != nil {
				ro = c20recvObj(cf)
			}
			if cf == nil || ro == nil || depth >= 2 {
				continue
			}
			sub := e.waitsIn(cf, func(y ast.Expr) bool {
				id, ok := c20base(y).(*ast.Ident)
				return ok && identObj(cf.Info(), id) == ro
			}, depth+1)
			if len(sub) == 0 {
				continue
			}
			var pts []core.Point
			for _, s := range sub {
				pts = append(pts, s.p)
			}
			cg := cf.Graph()
			if _, miss := pathAvoiding(cg, nil, core.ExitPoints(normalExits(cg)), pts); miss {
				continue // the callee can return without waiting
			}
			e.c.Analysed(cf)
			out = append(out, c20wait{p: h.P, n: x, carrier: sub[0].carrier, kind: sub[0].kind, via: exprStr(x) + " -> " + sub[0].via})
		}
	}
	return out
}

// runStarts finds the go statements of f that start VM.Run, directly or through
// a goroutine literal calling it; arg is the channel expression handed to Run.
type c20start struct {
	p    core.Point
	n    *ast.GoStmt
	arg  ast.Expr
	lit  *core.Func // the wrapper literal, if any
	nrun int        // number of Run calls in the wrapper
}

func (e *c20env) runStarts(f *core.Func) []c20start {
	var out []c20start
	for _, h := range f.Graph().Find(func(n ast.Node) bool { _, ok := n.(*ast.GoStmt); return ok }) {
		gs := h.N.(*ast.GoStmt)
		if f.CalleeID(gs.Call) == c20RunKey && len(gs.Call.Args) > 0 {
			out = append(out, c20start{p: h.P, n: gs, arg: gs.Call.Args[0], nrun: 1})
			continue
		}
		if lit, ok := core.Unparen(gs.Call.Fun).(*ast.FuncLit); ok {
			lf := e.c.Prog.FuncOf[lit]
			if lf == nil {
				continue
			}
			runs := lf.Graph().CallsTo(c20RunKey)
			if len(runs) == 0 {
				continue
			}
			e.c.Analysed(lf)
			call := runs[0].N.(*ast.CallExpr)
			if len(call.Args) == 0 {
				continue
			}
			out = append(out, c20start{p: h.P, n: gs, arg: call.Args[0], lit: lf, nrun: len(runs)})
		}
	}
	return out
}

// handleLit resolves the right-hand side of a store into the handle map to the composite literal building the handle.
func (e *c20env) handleLit(f *core.Func, x ast.Expr) *ast.CompositeLit {
	x = core.Unparen(x)
	if id, ok := x.(*ast.Ident); ok {
		d, ok := c20single(f, identObj(f.Info(), id))
		if !ok || d.rhs == nil {
			return nil
		}
		x = core.Unparen(d.rhs)
	}
	if u, ok := x.(*ast.UnaryExpr); ok && u.Op == token.AND {
		x = core.Unparen(u.X)
	}
	lit, _ := x.(*ast.CompositeLit)
	return lit
}

// litField returns the value given to field fv in a keyed composite literal.
func c20litField(info *types.Info, lit *ast.CompositeLit, fv *types.Var) ast.Expr {
	if lit == nil {
		return nil
	}
	for _, el := range lit.Elts {
		if kv, ok := el.(*ast.KeyValueExpr); ok {
			if id, ok := kv.Key.(*ast.Ident); ok && info.Uses[id] == fv {
				return kv.Value
			}
		}
	}
	return nil
}

func c20structHas(t types.Type, fv *types.Var) bool {
	if p, ok := t.(*types.Pointer); ok {
		t = p.Elem()
	}
	st, ok := t.Underlying().(*types.Struct)
	if !ok {
		return false
	}
	for i := 0; i < st.NumFields(); i++ {
		if st.Field(i) == fv {
			return true
		}
	}
	return false
}

func c20isMake(f *core.Func, x ast.Expr) (*ast.CallExpr, bool) {
	call, ok := core.Unparen(x).(*ast.CallExpr)
	if ok && f.CalleeID(call) == "builtin.make" {
		return call, true
	}
	return nil, false
}

func c20(c *core.Check) {
	c.Explain = "Decides structural necessary conditions of C20 on the program loader's fan-out and swap code and on the VM run loop, for every control-flow path of the current source: (R1) a line is sent to a handle only while the handle lock is held and in the critical section in which the handle was looked up; a handle's channel is closed, and the map changed, only under the write lock, and a closed channel is replaced or removed before that lock is released; every input line is sent exactly once to every handle in the map; the channel of an installed handle has exactly one VM.Run started on it; (R2) after the channel of a running version is closed, something waits for that version's Run goroutine to return before the lock is released and a successor can be started, and the signal waited for is raised only when Run has returned and on every way out of it; (R3) VM.Run handles each received line synchronously, exactly once, in receive order, and line processing starts no goroutine; where (R2) does not hold, the per-program channel must be unbuffered so that at most the one line in flight can overlap. Lock state is a must-hold dataflow, orderings are path searches over go/cfg graphs, counts a min/max dataflow; variables, fields and callees are resolved through go/types. NOT decided: that the Go scheduler, sync.RWMutex and channels behave as documented; data races inside metric updates (C11); line framing and delivery before the loader (C15-C19); timing (how long a reload may stall delivery)."
	c.Assume = append(c.Assume,
		"sync.RWMutex excludes writers from readers; an unbuffered channel send completes only when the receiver has taken the value; close() on a channel lets a range loop drain and end",
		"calls through interfaces and function values are not followed (none occur in the anchored code); exits by panic are not considered",
		"all shipped code that can touch runtime.Runtime.handles is in package internal/runtime (the field and the handle type are unexported)")
	for _, r := range []string{"C20-R1a", "C20-R1b", "C20-R1c", "C20-R1d", "C20-R1e", "C20-R2a", "C20-R2b", "C20-R3a", "C20-R3b", "C20-R3c"} {
		c.Rule(r, c20rules[r])
	}
	e, why := c20resolve(c)
	if e == nil {
		c.Undecided("C20-R1a", "anchors", "-", why)
		return
	}
	c.Extra["c20_anchors"] = map[string]string{
		"handle map":   "runtime.Runtime." + e.handles.Name(),
		"handle lock":  "runtime.Runtime." + e.mu.Name() + " (" + e.mu.Type().String() + ")",
		"handle type":  e.handleT.Obj().Name(),
		"line channel": e.handleT.Obj().Name() + "." + e.lines.Name(),
		"run loop":     c20RunKey,
		"line handler": c20LineKey,
	}

	// ---- inventory of the operations on handles in package runtime
	var sends, closes, stores, deletes []*c20op
	ord := map[string]int{}
	mk := func(f *core.Func, hit core.Hit, kind string) *c20op {
		ord[f.Key+kind]++
		c.Analysed(f)
		return &c20op{f: f, hit: hit, kind: kind, ord: ord[f.Key+kind]}
	}
	for _, f := range e.rt {
		g := f.Graph()
		info := f.Info()
		for _, s := range sendsOfLines(g) {
			o := mk(f, s, "send")
			h, isLines := e.linesOf(f, s.N.(*ast.SendStmt).Chan)
			if !isLines {
				c.Undecided("C20-R1a", fmt.Sprintf("%s|send#%d", f.Key, o.ord), pos(c, s.N), "a line is sent in package runtime on a channel that is not resolved to a handle's line channel")
				continue
			}
			o.h = h
			sends = append(sends, o)
		}
		for _, cl := range g.CallsTo("builtin.close") {
			call := cl.N.(*ast.CallExpr)
			if len(call.Args) != 1 {
				continue
			}
			h, isLines := e.linesOf(f, call.Args[0])
			if !isLines {
				if c20isLineChan(info.TypeOf(call.Args[0])) {
					c.Undecided("C20-R1b", f.Key+"|close "+exprStr(call.Args[0]), pos(c, call), "a channel of lines is closed in package runtime that is not resolved to a handle's line channel")
				}
				continue
			}
			o := mk(f, cl, "close")
			o.h = h
			closes = append(closes, o)
		}
		for _, d := range g.CallsTo("builtin.delete") {
			call := d.N.(*ast.CallExpr)
			if len(call.Args) == 2 && e.isHandlesMap(info, call.Args[0]) {
				o := mk(f, d, "delete")
				o.key = call.Args[1]
				deletes = append(deletes, o)
			}
		}
		for _, a := range g.Find(func(n ast.Node) bool { _, ok := n.(*ast.AssignStmt); return ok }) {
			as := a.N.(*ast.AssignStmt)
			for i, l := range as.Lhs {
				if ix, ok := core.Unparen(l).(*ast.IndexExpr); ok && e.isHandlesMap(info, ix.X) {
					o := mk(f, a, "store")
					o.key = ix.Index
					if len(as.Rhs) == len(as.Lhs) {
						o.rhs = as.Rhs[i]
					}
					stores = append(stores, o)
				} else if c20field(info, l) == e.handles {
					c.Undecided("C20-R1b", f.Key+"|assign "+exprStr(l), pos(c, as), "the whole handle map is replaced: outside the recognised family of updates (indexed store, delete)")
				}
			}
		}
	}
	c.Extra["c20_operations"] = map[string]int{"sends": len(sends), "closes": len(closes), "stores": len(stores), "deletes": len(deletes)}

	// ---- R1a: send under the lock, in the critical section of the lookup
	for _, s := range sends {
		key := fmt.Sprintf("%s|send#%d", s.f.Key, s.ord)
		ok, und := e.held(s.f, s.hit.P, "R", 0)
		switch {
		case und != "":
			c.Undecided("C20-R1a", key+"|lock", pos(c, s.hit.N), und)
		case !ok:
			c.Fail("C20-R1a", key+"|lock", pos(c, s.hit.N), "a line is sent to a program's channel without the handle lock: a reload or unload can close that channel and install the successor between the lookup and the send, so the line is sent on a closed channel (the loader panics) or goes to the retired version only — the loaded version never sees it")
		default:
			c.Ok("C20-R1a", key+"|lock", pos(c, s.hit.N), "handle lock held (read or write) at the send")
		}
		if s.h == nil {
			c.Undecided("C20-R1a", key+"|lookup", pos(c, s.hit.N), "the handle whose channel is used is not resolved to a lookup in / range over the handle map")
			continue
		}
		tr, found, und := e.releasedBetween(s.f, s.h, s.hit.P)
		switch {
		case und != "":
			c.Undecided("C20-R1a", key+"|lookup", pos(c, s.hit.N), und)
		case found:
			c.Fail("C20-R1a", key+"|lookup", pos(c, s.hit.N), "the handle lock is released between looking the handle up and sending to it: the handle may have been retired (closed, replaced) in between — send on a closed channel, and the new version misses the line", tr...)
		default:
			c.Ok("C20-R1a", key+"|lookup", pos(c, s.hit.N), "handle looked up in the same critical section as the send")
		}
	}
	c.Floor("C20-R1a", 2)

	// ---- R1b: close / store / delete under the write lock
	for _, set := range [][]*c20op{closes, stores, deletes} {
		for _, o := range set {
			key := fmt.Sprintf("%s|%s#%d", o.f.Key, o.kind, o.ord)
			ok, und := e.held(o.f, o.hit.P, "W", 0)
			what := map[string]string{
				"close":  "a handle's line channel is closed",
				"store":  "a handle is installed in the handle map",
				"delete": "a handle is removed from the handle map",
			}[o.kind]
			switch {
			case und != "":
				c.Undecided("C20-R1b", key, pos(c, o.hit.N), und)
			case !ok:
				c.Fail("C20-R1b", key, pos(c, o.hit.N), what+" without the handle write lock: the fan-out, which holds the read lock while it sends, can be in the middle of delivering a line — the line is sent on the closed channel (panic), or one line goes to the old version and is missed by / duplicated in the new one")
			default:
				c.Ok("C20-R1b", key, pos(c, o.hit.N), "write lock held")
			}
		}
	}
	c.Floor("C20-R1b", 6)

	// ---- R1c: a closed channel does not stay visible; the handle closed is the one currently in the map
	for _, cl := range closes {
		key := fmt.Sprintf("%s|close#%d", cl.f.Key, cl.ord)
		if cl.h == nil {
			c.Undecided("C20-R1c", key, pos(c, cl.hit.N), "the handle whose channel is closed is not resolved to a lookup in / range over the handle map")
			continue
		}
		g := cl.f.Graph()
		tr, found, und := e.releasedBetween(cl.f, cl.h, cl.hit.P)
		switch {
		case und != "":
			c.Undecided("C20-R1c", key+"|current", pos(c, cl.hit.N), und)
		case found:
			c.Fail("C20-R1c", key+"|current", pos(c, cl.hit.N), "the handle whose channel is closed was looked up in an earlier critical section: it may already have been retired (closed twice: panic) and the version now in the map keeps running next to its successor — lines reach both", tr...)
		default:
			c.Ok("C20-R1c", key+"|current", pos(c, cl.hit.N), "closed handle looked up in the same critical section")
		}
		var upd []core.Point
		for _, set := range [][]*c20op{stores, deletes} {
			for _, o := range set {
				if o.f == cl.f && c20sameKey(cl.f.Info(), o.key, cl.h.key) {
					upd = append(upd, o.hit.P)
				}
			}
		}
		goals := append(e.releases(g, "W"), core.ExitPoints(normalExits(g))...)
		from := cl.hit.P
		// an update of the entry between the lookup and the close (same critical section) serves as well
		already := false
		if len(upd) > 0 {
			var lf core.Point
			okp := false
			if cl.h.rng != nil {
				if _, body, _ := loopBlocks(g, cl.h.rng); body != nil {
					lf, okp = core.Point{B: body, I: -1}, true
				}
			} else {
				lf, okp = g.PointOf(cl.h.lookup)
			}
			if okp && lf != cl.hit.P {
				if _, direct := pathAvoiding(g, &lf, []core.Point{cl.hit.P}, upd); !direct {
					already = true
				}
			}
		}
		if already {
			c.Ok("C20-R1c", key+"|replaced", pos(c, cl.hit.N), "the map entry of the handle is replaced or deleted between its lookup and the close, in the same critical section")
		} else if ok, why := e.replacedInCallers(cl.f, from, upd, stores, deletes); ok {
			c.Ok("C20-R1c", key+"|replaced", pos(c, cl.hit.N), why)
		} else if tr, found := pathAvoiding(g, &from, goals, upd); found {
			c.Fail("C20-R1c", key+"|replaced", pos(c, cl.hit.N), "after the channel is closed the handle lock can be released (or the function left) with the closed handle still in the map under its name: the fan-out's next send to that program is a send on a closed channel — the loader panics and the line reaches no version", tr...)
		} else {
			c.Ok("C20-R1c", key+"|replaced", pos(c, cl.hit.N), "the map entry of the closed handle is replaced or deleted before the write lock is released")
		}
	}
	c.Floor("C20-R1c", 6)

	// ---- channels made for handles: R1d (installed => exactly one Run on it), R3a (unbuffered unless joined)
	type chanSite struct {
		f    *core.Func
		call *ast.CallExpr
		p    core.Point
		obj  types.Object
		key  string
	}
	var chans []chanSite
	for _, f := range e.rt {
		g := f.Graph()
		n := 0
		for _, h := range g.CallsTo("builtin.make") {
			call := h.N.(*ast.CallExpr)
			if len(call.Args) == 0 || !c20isLineChan(f.Info().TypeOf(call.Args[0])) {
				continue
			}
			n++
			cs := chanSite{f: f, call: call, p: h.P, key: fmt.Sprintf("%s|make#%d", f.Key, n)}
			// the variable it is assigned to
			if as, ok := h.P.Node().(*ast.AssignStmt); ok {
				for i, r := range as.Rhs {
					if core.Unparen(r) == ast.Expr(call) && len(as.Lhs) == len(as.Rhs) {
						cs.obj = identObj(f.Info(), as.Lhs[i])
					}
				}
			}
			chans = append(chans, cs)
			c.Analysed(f)
		}
	}

	// ---- R2a: join after every close that can be followed by a successor
	var inputLoop *c20outer // the fan-out's loop over the loader's input
	for _, s := range sends {
		for _, rs := range c20enclosingRanges(s.f, s.hit.N) {
			if e.isHandlesMap(s.f.Info(), rs.X) && inputLoop == nil {
				inputLoop, _ = e.findOuter(s.f, rs)
			}
		}
	}
	allJoined := true
	njoin := 0
	carriers := map[*types.Var][]string{}
	for _, cl := range closes {
		key := fmt.Sprintf("%s|close#%d|join", cl.f.Key, cl.ord)
		g := cl.f.Graph()
		if inputLoop != nil && cl.f == inputLoop.f {
			// a close in the function that runs the fan-out's input loop: exempt when that loop cannot run again (the input has ended)
			if head, _, _ := loopBlocks(g, inputLoop.rs); head != nil {
				from := cl.hit.P
				if _, again := g.Search(core.Query{From: &from, Goal: func(p core.Point) bool { return p.B == head }}); !again {
					njoin++
					c.Ok("C20-R2a", key, pos(c, cl.hit.N), "closed by the fan-out goroutine after its input loop has ended: no line is dispatched to any later version, nothing to order")
					continue
				}
			}
		}
		if cl.h == nil {
			allJoined = false
			c.Undecided("C20-R2a", key, pos(c, cl.hit.N), "the closed handle is not resolved; cannot look for a wait on it")
			continue
		}
		njoin++
		waits := e.waitsIn(cl.f, e.rootOf(cl.f, cl.h), 0)
		var wp []core.Point
		for _, w := range waits {
			wp = append(wp, w.p)
		}
		starts := e.runStarts(cl.f)
		var sp []core.Point
		for _, s := range starts {
			sp = append(sp, s.p)
		}
		rels := e.releases(g, "W")
		exits := core.ExitPoints(normalExits(g))
		from := cl.hit.P
		var bad []string
		found := false
		if tr, f1 := pathAvoiding(g, &from, exits, wp); f1 {
			bad, found = tr, true
		}
		if !found {
			if len(starts) == 0 {
				if tr, f1 := pathAvoiding(g, &from, rels, wp); f1 {
					bad, found = tr, true
				}
			} else {
				for _, seq := range [][2][]core.Point{{rels, sp}, {sp, rels}} {
					for _, mid := range seq[0] {
						mid := mid
						t1, f1 := pathAvoiding(g, &from, []core.Point{mid}, wp)
						if !f1 {
							continue
						}
						if t2, f2 := pathAvoiding(g, &mid, seq[1], wp); f2 {
							bad, found = append(t1, t2...), true
						}
					}
				}
			}
		}
		if found {
			allJoined = false
			msg := "the channel of the running version is closed and the handle lock released without waiting for that version's Run goroutine to return"
			if len(starts) > 0 {
				msg += ", and its successor is started: the old VM can still be executing line k when the new VM receives and applies line k+1; both write the same datum (the store carries it over on reload), so a gauge ends with line k's value instead of the last line's, and the two versions run concurrently"
			} else {
				msg += ": a later load of the same name starts a new version while the unloaded one is still executing its last line; its late write lands after the new version's (effects out of arrival order)"
			}
			if len(waits) > 0 {
				msg += fmt.Sprintf(" (a wait exists — %s — but not on every path before the release/start)", waits[0].via)
			}
			c.Fail("C20-R2a", key, pos(c, cl.hit.N), msg, bad...)
			continue
		}
		var vias []string
		for _, w := range waits {
			vias = append(vias, w.via)
			if w.carrier != nil {
				carriers[w.carrier] = append(carriers[w.carrier], key)
			} else {
				c.Undecided("C20-R2b", key+"|carrier "+w.via, pos(c, w.n), "the channel / wait group waited on is not resolved to a struct field; cannot check who signals it")
			}
		}
		c.Ok("C20-R2a", key, pos(c, cl.hit.N), "every path from the close to the release of the lock / start of the successor waits for the retired version: "+strings.Join(vias, "; "))
	}
	c.Floor("C20-R2a", 3)
	c.Extra["c20_all_retiring_closes_joined"] = allJoined

	// ---- R2b: the signal waited for is raised exactly when Run has returned
	var cvs []*types.Var
	for v := range carriers {
		cvs = append(cvs, v)
	}
	sort.Slice(cvs, func(i, j int) bool { return cvs[i].Name() < cvs[j].Name() })
	for _, fv := range cvs {
		e.checkSignal(fv)
	}
	if len(cvs) == 0 {
		c.Note("C20-R2b", "no join", "-", "no wait for a retired version was found (see C20-R2a), so there is no completion signal to check")
	}
	c.Floor("C20-R2b", 1)

	// ---- R1d / R3a per channel made
	for _, cs := range chans {
		f, g := cs.f, cs.f.Graph()
		info := f.Info()
		// R3a
		switch {
		case len(cs.call.Args) == 1:
			c.Ok("C20-R3a", cs.key, pos(c, cs.call), "unbuffered: a line handed to a version has been taken by it, and all earlier ones are complete, when the send returns")
		default:
			v, isConst := constInt(info, cs.call.Args[1])
			switch {
			case isConst && v == 0:
				c.Ok("C20-R3a", cs.key, pos(c, cs.call), "capacity is the constant 0")
			case allJoined:
				c.Note("C20-R3a", cs.key, pos(c, cs.call), "the per-program channel is buffered ("+exprStr(cs.call.Args[1])+"), but every retiring close is followed by a wait for the old Run goroutine (C20-R2a), which drains the queue before a successor starts: arrival order is kept")
			case isConst:
				c.Fail("C20-R3a", cs.key, pos(c, cs.call), fmt.Sprintf("the per-program line channel is buffered (capacity %d) and a reload does not wait for the retired version (C20-R2a): up to %d lines that arrived before the reload are still queued in the old version and are applied by it after / concurrently with lines that arrived later and went to the new version — the last-written value of a gauge is not that of the last line", v, v))
			default:
				c.Undecided("C20-R3a", cs.key, pos(c, cs.call), "the capacity of the per-program line channel ("+exprStr(cs.call.Args[1])+") is not a constant and reloads do not wait for the retired version: whether lines can queue behind a reload depends on a run-time value")
			}
		}
		// R1d
		isCh := func(x ast.Expr) bool {
			if x == nil {
				return false
			}
			if core.Unparen(x) == ast.Expr(cs.call) {
				return true
			}
			return cs.obj != nil && identObj(info, x) == cs.obj
		}
		var inst []core.Point
		for _, st := range stores {
			if st.f != f {
				continue
			}
			lit := e.handleLit(f, st.rhs)
			if lit == nil {
				c.Undecided("C20-R1d", fmt.Sprintf("%s|store#%d", f.Key, st.ord), pos(c, st.hit.N), "the handle installed is not built by a composite literal in this function; cannot tell which channel it carries")
				continue
			}
			if isCh(c20litField(info, lit, e.lines)) {
				inst = append(inst, st.hit.P)
			}
		}
		var stp []core.Point
		multi := false
		for _, s := range e.runStarts(f) {
			arg := s.arg
			ok := isCh(arg)
			if !ok {
				// handle.lines of the handle variable built from this channel
				if sel, isSel := core.Unparen(arg).(*ast.SelectorExpr); isSel && c20field(info, sel) == e.lines {
					if lit := e.handleLit(f, sel.X); lit != nil && isCh(c20litField(info, lit, e.lines)) {
						ok = true
					}
				}
			}
			if ok {
				stp = append(stp, s.p)
				if s.nrun > 1 {
					multi = true
				}
				if s.lit != nil {
					// the wrapper must call Run on every path exactly once
					lg := s.lit.Graph()
					runs := core.HitPoints(lg.CallsTo(c20RunKey))
					ctr := lg.Count(nil, runs, nil)
					for _, ex := range normalExits(lg) {
						if cnt, reach := ctr.At(ex.P); reach && (cnt.Min != 1 || cnt.Max != 1) {
							c.Fail("C20-R1d", cs.key+"|wrapper", pos(c, s.n), "the goroutine started for the installed channel calls VM.Run "+cnt.String()+" times on some path: with 0 the channel has no receiver and the fan-out blocks for ever on its first send (no program receives another line); with more than one the lines are consumed by two loops")
						}
					}
				}
			}
		}
		if len(inst) == 0 {
			c.Note("C20-R1d", cs.key, pos(c, cs.call), "this channel is not installed in a handle; nothing to decide")
			continue
		}
		bad := false
		exits := core.ExitPoints(normalExits(g))
		mkp := cs.p
		for i, ip := range inst {
			ip := ip
			_, f1 := pathAvoiding(g, &mkp, []core.Point{ip}, stp)
			tr, f2 := pathAvoiding(g, &ip, exits, stp)
			if f1 && f2 {
				bad = true
				c.Fail("C20-R1d", fmt.Sprintf("%s|install#%d", cs.key, i+1), ppos(c, ip, f), "a handle with this channel is installed in the map, but a path to the end of the function starts no VM.Run on the channel: the unbuffered channel has no receiver, the fan-out blocks for ever (holding the read lock) on its first send to this program — neither this nor any other program receives another line", tr...)
			}
		}
		ctr := g.Count(&mkp, stp, nil)
		for _, ex := range normalExits(g) {
			if cnt, reach := ctr.At(ex.P); reach && cnt.Max > 1 || multi {
				bad = true
				c.Fail("C20-R1d", cs.key+"|starts", ppos(c, ex.P, f), "more than one VM.Run can be started on the same channel: two goroutines take lines from it alternately and run the same VM concurrently — effects are no longer applied in arrival order")
				break
			}
		}
		ictr := g.Count(&mkp, inst, nil)
		for _, ex := range normalExits(g) {
			if cnt, reach := ictr.At(ex.P); reach && cnt.Max > 1 {
				bad = true
				c.Fail("C20-R1d", cs.key+"|installs", ppos(c, ex.P, f), "the same channel is installed in more than one handle: each line is sent to it once per handle and the one VM processes it several times")
				break
			}
		}
		if !bad {
			c.Ok("C20-R1d", cs.key, pos(c, cs.call), fmt.Sprintf("installed in a handle at %d site(s); on every path through an installation exactly one VM.Run is started on it", len(inst)))
		}
	}
	c.Floor("C20-R3a", 1)
	c.Floor("C20-R1d", 1)

	// ---- R1e: fan-out completeness
	e.fanout(sends)

	// ---- R3b / R3c: the run loop
	e.runLoop()
}

var c20rules = map[string]string{
	"C20-R1a": "SEND-UNDER-LOCK: every send of a line on a handle's channel happens with Runtime.handleMu held (read or write; in the function itself or at every call site of a helper that never touches the lock), and no path from the lookup of that handle in Runtime.handles to the send releases the lock without repeating the lookup",
	"C20-R1b": "UPDATE-UNDER-WRITE-LOCK: every close of a handle's line channel, every indexed store into and every delete from Runtime.handles happens with Runtime.handleMu write-held",
	"C20-R1c": "RETIRED-NOT-VISIBLE: for every close(h.lines): h was looked up in the same critical section, and every path from the close to the release of the write lock (explicit Unlock, or the function's exits when deferred) passes a store to / delete of the same map key",
	"C20-R1d": "ONE-RUN-PER-CHANNEL: for every make(chan *logline.LogLine) in package runtime that is installed as a handle's channel: no path from the make through an installation to an exit avoids `go VM.Run(<that channel>)` (direct or through a goroutine literal calling Run exactly once), at most one such start and one installation on any path",
	"C20-R1e": "FAN-OUT: every send to a handle is inside `for k[, h] := range Runtime.handles` nested in `for line := range <input>`; it sends the outer loop's line to the inner loop's handle; exactly one send per inner iteration; no path through an outer iteration bypasses the inner loop; neither loop is left early",
	"C20-R2a": "JOIN-BEFORE-SUCCESSOR: for every close(h.lines) after which lines can still be dispatched (all except those after the fan-out's input loop has ended): no path from the close reaches the function's exit, or both the release of the write lock and the start of a successor Run (the release alone where the function starts none), without an unconditional wait rooted at h — `<-h.…`, `h.….Wait()` on a sync.WaitGroup, or a method on h… all of whose paths do so",
	"C20-R2b": "SIGNAL-IS-RUN-RETURN: the field waited on in R2a is given a fresh channel in every composite literal of its struct; it is closed (or Done) only in VM.Run or in the goroutine literal that calls VM.Run, deferred or with no path from the signal back to line processing, at most once, and no exit of that goroutine body avoids it",
	"C20-R3a": "SYNCHRONOUS-HAND-OVER: every make of a per-program line channel in package runtime has no capacity or the constant 0 — required whenever R2a does not hold for every retiring close (with the join the queue is drained before a successor starts)",
	"C20-R3b": "RUN-LOOP: VM.Run (or the helper it hands its channel parameter to) ranges over its channel parameter; each iteration calls ProcessLogLine exactly once, with the received line, not in a go/defer statement or literal; the loop is not left early; the channel parameter has no other use",
	"C20-R3c": "PROCESSING-IS-SYNCHRONOUS: no go statement is reachable from ProcessLogLine through statically resolved calls",
}

// checkSignal decides R2b for one carrier field.
func (e *c20env) checkSignal(fv *types.Var) {
	c := e.c
	isChan := false
	if _, ok := fv.Type().Underlying().(*types.Chan); ok {
		isChan = true
	}
	name := fv.Name()
	// (i) freshness: every composite literal of the owning struct sets the field to a channel made there
	locals := map[types.Object]*ast.CompositeLit{} // local variable given to the field -> literal
	litFunc := map[*ast.CompositeLit]*core.Func{}
	nlit := 0
	for _, f := range e.rtvm {
		f := f
		core.InspectNoLit(f.Body, func(n ast.Node) bool {
			lit, ok := n.(*ast.CompositeLit)
			if !ok || !c20structHas(f.Info().TypeOf(lit), fv) {
				return true
			}
			nlit++
			c.Analysed(f)
			key := fmt.Sprintf("%s|literal#%d sets %s", f.Key, nlit, name)
			if !isChan {
				c.Ok("C20-R2b", key, pos(c, lit), "wait group: zero value is ready")
				return true
			}
			val := c20litField(f.Info(), lit, fv)
			fresh := false
			if val != nil {
				if _, ok := c20isMake(f, val); ok {
					fresh = true
				} else if obj := identObj(f.Info(), val); obj != nil {
					if d, ok := c20single(f, obj); ok && d.rhs != nil {
						if _, ok := c20isMake(f, d.rhs); ok {
							fresh = true
							locals[obj] = lit
							litFunc[lit] = f
						}
					}
				}
			}
			c.Verdict(fresh, "C20-R2b", key, pos(c, lit), "a channel made for this instance",
				"an instance is built without its own fresh `"+name+"` channel: the next reload of that program waits on a nil (for ever, holding the handle lock: no program receives lines again) or on another instance's channel")
			return true
		})
	}
	if nlit == 0 {
		c.Undecided("C20-R2b", "literals of the struct holding "+name, "-", "no composite literal building the struct was found")
	}
	// (ii) signals
	nsig := 0
	perBody := map[*core.Func][]core.Point{}
	firstCall := map[*core.Func]*ast.CallExpr{}
	var bodies []*core.Func
	for _, f := range e.rtvm {
		g := f.Graph()
		for _, h := range g.Find(func(n ast.Node) bool { _, ok := n.(*ast.CallExpr); return ok }) {
			call := h.N.(*ast.CallExpr)
			id := f.CalleeID(call)
			var subject ast.Expr
			switch {
			case isChan && id == "builtin.close" && len(call.Args) == 1:
				subject = call.Args[0]
			case !isChan && id == "sync.(*WaitGroup).Done":
				subject = core.RecvExpr(call)
			default:
				continue
			}
			viaLocal := (*ast.CompositeLit)(nil)
			if c20field(f.Info(), subject) != fv {
				obj := identObj(f.Info(), subject)
				lit, ok := locals[obj]
				if obj == nil || !ok {
					continue
				}
				viaLocal = lit
			}
			nsig++
			// the body in which the signal runs; a deferred literal counts as its parent, deferred
			sf, sp, deferred := f, h.P, h.InDefer
			if f.Lit != nil && f.Parent != nil {
				for _, dl := range deferLits(c, f.Parent) {
					if dl == f {
						sf, deferred = f.Parent, true
						core.InspectNoLit(sf.Body, func(n ast.Node) bool {
							if ds, ok := n.(*ast.DeferStmt); ok && core.Unparen(ds.Call.Fun) == ast.Expr(f.Lit) {
								if p, ok := sf.Graph().PointOf(ds.Call); ok {
									sp = p
								}
							}
							return true
						})
					}
				}
			}
			c.Analysed(sf)
			key := fmt.Sprintf("%s|signal %s#%d", sf.Key, name, nsig)
			sg := sf.Graph()
			var work []core.Point
			runner := false
			switch {
			case sf.Key == c20RunKey:
				runner = true
				work = core.HitPoints(sg.CallsTo(c20LineKey))
				for _, rs := range rangeStmts(sf) {
					if _, body, _ := loopBlocks(sg, rs); body != nil && c20isLineChan(sf.Info().TypeOf(rs.X)) {
						work = append(work, core.Point{B: body, I: 0})
					}
				}
				// the field must be the receiver's own
				if id, ok := c20base(subject).(*ast.Ident); !ok || identObj(sf.Info(), id) != c20recvObj(sf) {
					c.Fail("C20-R2b", key+"|own", pos(c, call), "VM.Run signals completion on another instance's `"+name+"`: a reload waiting for this VM is released by (or waits for) a different one")
				}
			case c20isGoLit(c, sf) && len(sg.CallsTo(c20RunKey)) > 0:
				runner = true
				work = core.HitPoints(sg.CallsTo(c20RunKey))
				if viaLocal != nil {
					// the goroutine must run the VM on the channel installed next to this signal channel
					lf := litFunc[viaLocal]
					want := c20litField(lf.Info(), viaLocal, e.lines)
					for _, r := range sg.CallsTo(c20RunKey) {
						rc := r.N.(*ast.CallExpr)
						if len(rc.Args) == 0 || identObj(sf.Info(), rc.Args[0]) == nil || identObj(sf.Info(), rc.Args[0]) != identObj(lf.Info(), want) {
							c.Fail("C20-R2b", key+"|own", pos(c, rc), "the goroutine that signals `"+name+"` of a handle runs the VM on a channel other than that handle's: the wait for the retired version is released by a different goroutine")
						}
					}
				}
			}
			if !runner {
				c.Fail("C20-R2b", key, pos(c, call), "`"+name+"`, which a reload waits on to know that the retired version has finished, is signalled outside VM.Run / the goroutine that calls VM.Run: the wait can return while the old version is still executing a line")
				continue
			}
			bad := false
			if !deferred {
				from := sp
				if tr, found := pathAvoiding(sg, &from, work, nil); found {
					bad = true
					c.Fail("C20-R2b", key+"|after", pos(c, call), "completion is signalled before line processing has ended (processing is reachable after the signal): the reload proceeds while the old version still executes", tr...)
				}
			}
			if !bad {
				c.Ok("C20-R2b", key+"|after", pos(c, call), map[bool]string{true: "deferred: runs when the goroutine body returns", false: "no line processing is reachable after the signal"}[deferred])
			}
			perBody[sf] = append(perBody[sf], sp)
			if firstCall[sf] == nil {
				firstCall[sf] = call
				bodies = append(bodies, sf)
			}
		}
	}
	// every exit of a signalling goroutine body signals, and at most once
	for _, sf := range bodies {
		sg := sf.Graph()
		call := firstCall[sf]
		key := fmt.Sprintf("%s|signal %s", sf.Key, name)
		if tr, found := pathAvoiding(sg, nil, core.ExitPoints(normalExits(sg)), perBody[sf]); found {
			c.Fail("C20-R2b", key+"|every exit", pos(c, call), "the VM goroutine can end without signalling `"+name+"`: the next reload or unload of the program waits for ever while holding the handle write lock — the fan-out can never take the read lock again and no program receives another line", tr...)
		} else {
			c.Ok("C20-R2b", key+"|every exit", pos(c, call), "no exit of the goroutine body avoids the signal")
		}
		twice := false
		ctr := sg.Count(nil, perBody[sf], nil)
		for _, ex := range normalExits(sg) {
			if cnt, reach := ctr.At(ex.P); reach && cnt.Max > 1 {
				twice = true
			}
		}
		if isChan {
			c.Verdict(!twice, "C20-R2b", key+"|once", pos(c, call), "signalled at most once on any path", "`"+name+"` can be closed twice on one path through the VM goroutine: the second close panics and takes the whole process down in the middle of the line stream")
		}
	}
	if nsig == 0 {
		c.Undecided("C20-R2b", "signal of "+name, "-", "no close()/Done() of the field waited on was found in packages runtime and vm: who releases the wait is outside the recognised family")
	}
}

// c20op is one operation on a VM handle found in package runtime.
type c20op struct {
	f    *core.Func
	hit  core.Hit
	h    *c20handle
	key  ast.Expr // for stores / deletes
	rhs  ast.Expr // for stores
	kind string   // send close store delete
	ord  int
}

// c20enclosingRanges lists the range statements of f lexically enclosing n, outermost first.
func c20enclosingRanges(f *core.Func, n ast.Node) []*ast.RangeStmt {
	var out []*ast.RangeStmt
	for _, rs := range rangeStmts(f) {
		if rs.Body.Pos() <= n.Pos() && n.End() <= rs.Body.End() {
			out = append(out, rs)
		}
	}
	sort.Slice(out, func(i, j int) bool { return out[i].Pos() < out[j].Pos() })
	return out
}

// c20outer is the input loop of the fan-out: in the function that sends, or
// around the single call of the helper that sends.
type c20outer struct {
	f    *core.Func     // function containing the input loop
	rs   *ast.RangeStmt // `for line := range <channel of lines>`
	line types.Object   // the variable that denotes the received line inside the sending function
	call *core.Point    // the call of the sending helper inside the loop (nil when the loop is in the sending function)
}

func (e *c20env) findOuter(f *core.Func, inner *ast.RangeStmt) (*c20outer, string) {
	for _, rs := range c20enclosingRanges(f, inner) {
		if c20isLineChan(f.Info().TypeOf(rs.X)) {
			return &c20outer{f: f, rs: rs, line: identObj(f.Info(), rs.Key)}, ""
		}
	}
	if f.Lit != nil {
		return nil, "the loop over the handle map is not nested in `range <channel of lines>`"
	}
	sites := e.callSites(f)
	if len(sites) != 1 || sites[0].inGo {
		return nil, fmt.Sprintf("the loop over the handle map is in a helper with %d call sites (or started with go/defer); the recognised family has one ordinary call inside the input loop", len(sites))
	}
	st := sites[0]
	for _, rs := range c20enclosingRanges(st.f, st.call) {
		if !c20isLineChan(st.f.Info().TypeOf(rs.X)) {
			continue
		}
		o := &c20outer{f: st.f, rs: rs, call: &st.p}
		lineObj := identObj(st.f.Info(), rs.Key)
		for i, a := range st.call.Args {
			if lineObj != nil && identObj(st.f.Info(), a) == lineObj {
				o.line = c20nthParam(f, i)
			}
		}
		e.c.Analysed(st.f)
		return o, ""
	}
	return nil, "the call of the fan-out helper is not inside `range <channel of lines>`"
}

// fanout decides R1e.
func (e *c20env) fanout(sends []*c20op) {
	c := e.c
	byFunc := map[*core.Func][]*c20op{}
	var order []*core.Func
	for _, s := range sends {
		if byFunc[s.f] == nil {
			order = append(order, s.f)
		}
		byFunc[s.f] = append(byFunc[s.f], s)
	}
	if len(order) > 1 {
		c.Undecided("C20-R1e", "fan-out", "-", fmt.Sprintf("lines are sent to handles from %d functions; the recognised family has a single fan-out loop", len(order)))
	}
	for _, f := range order {
		g := f.Graph()
		info := f.Info()
		var inner *ast.RangeStmt
		var outer *c20outer
		okShape := true
		for _, s := range byFunc[f] {
			ss := s.hit.N.(*ast.SendStmt)
			key := fmt.Sprintf("%s|send#%d", f.Key, s.ord)
			var in *ast.RangeStmt
			for _, rs := range c20enclosingRanges(f, ss) {
				if e.isHandlesMap(info, rs.X) {
					in = rs
				}
			}
			if in == nil {
				okShape = false
				c.Undecided("C20-R1e", key, pos(c, ss), "the send is not inside `range <handle map>`: outside the recognised fan-out family")
				continue
			}
			if inner != nil && inner != in {
				okShape = false
				c.Undecided("C20-R1e", key, pos(c, ss), "several fan-out loops in one function")
				continue
			}
			if outer == nil {
				o, why := e.findOuter(f, in)
				if o == nil {
					okShape = false
					c.Undecided("C20-R1e", key, pos(c, ss), why)
					continue
				}
				outer = o
			}
			inner = in
			// value sent = the outer loop's line
			c.Verdict(outer.line != nil && identObj(info, ss.Value) == outer.line, "C20-R1e", key+"|value", pos(c, ss), "sends the line received by the enclosing input loop",
				"the value sent to the programs is not the line just received from the input: programs see another line (or the same line again) instead of this one")
			// destination = the inner loop's handle
			dest := false
			if s.h != nil {
				if s.h.rng != nil {
					dest = s.h.rng == in
				} else {
					dest = in.Key != nil && identObj(info, in.Key) != nil && identObj(info, s.h.key) == identObj(info, in.Key)
				}
			}
			c.Verdict(dest, "C20-R1e", key+"|destination", pos(c, ss), "sends to the handle of the current iteration over the handle map",
				"the send inside the loop over the handle map does not go to the handle of the current iteration: some program receives the line several times and another not at all")
			// go/cfg places the communication of every select clause before the branch, so a send that is
			// one alternative of a select looks unconditional in the graph; decide it here
			if hasDefault, alt := e.selSend[ss]; alt {
				if hasDefault {
					c.Fail("C20-R1e", key+"|unconditional", pos(c, ss), "the send to the program is one alternative of a select with a default clause: whenever that program's VM is still busy with an earlier line the line is silently skipped — the loaded version never processes it")
				} else {
					c.Undecided("C20-R1e", key+"|unconditional", pos(c, ss), "the send to the program is one alternative of a select with other communication clauses: whether a line can be skipped depends on those clauses (outside the recognised family)")
				}
			}
		}
		if !okShape || inner == nil || outer == nil {
			continue
		}
		var sp []core.Point
		for _, s := range byFunc[f] {
			sp = append(sp, s.hit.P)
		}
		cnt, ok := iterationCount(g, inner, sp)
		key := f.Key + "|fan-out"
		if !ok {
			c.Undecided("C20-R1e", key+"|once per handle", pos(c, inner), "loop blocks of the range over the handle map not found")
		} else {
			c.Verdict(cnt.Min == 1 && cnt.Max == 1, "C20-R1e", key+"|once per handle", pos(c, inner), "exactly one send per handle per line",
				"within one iteration over the handle map a line is sent "+cnt.String()+" times: a loaded program misses lines (0) or processes a line more than once (many)")
		}
		if early := earlyLoopExits(c, g, inner); len(early) > 0 {
			c.Fail("C20-R1e", key+"|all handles", pos(c, inner), "the loop over the handle map can be left before every handle has been sent the line: the remaining programs never process it ("+early[0]+")")
		} else {
			c.Ok("C20-R1e", key+"|all handles", pos(c, inner), "the loop over the handle map is never left early")
		}
		// every outer iteration passes the inner loop
		og := outer.f.Graph()
		ohead, obody, _ := loopBlocks(og, outer.rs)
		ihead, _, _ := loopBlocks(g, inner)
		if ohead == nil || obody == nil || ihead == nil {
			c.Undecided("C20-R1e", key+"|every line", pos(c, outer.rs), "loop blocks not found")
		} else {
			start := core.Point{B: obody, I: -1}
			avoid := func(p core.Point) bool { return p.B == ihead }
			if outer.call != nil {
				avoid = core.At(*outer.call)
			}
			tr, found := og.Search(core.Query{From: &start, Goal: func(p core.Point) bool { return p.B == ohead }, Avoid: avoid})
			trail := og.Trail(tr)
			if !found && outer.call != nil {
				// inside the helper every path must go through the loop over the handle map
				var t2 []*cfg.Block
				t2, found = g.Search(core.Query{Goal: core.At(core.ExitPoints(normalExits(g))...), Avoid: func(p core.Point) bool { return p.B == ihead }})
				trail = g.Trail(t2)
			}
			c.Verdict(!found, "C20-R1e", key+"|every line", pos(c, outer.rs), "every received line goes through the loop over the handle map",
				"a received line can be dropped without being offered to the programs (a path through the input loop's body bypasses the loop over the handle map)", trail...)
		}
		if early := earlyLoopExits(c, og, outer.rs); len(early) > 0 {
			c.Fail("C20-R1e", key+"|input loop", pos(c, outer.rs), "the fan-out can stop in the middle of the input (the loop over the input channel is left other than by the channel being closed): later lines reach no program ("+early[0]+")")
		} else {
			c.Ok("C20-R1e", key+"|input loop", pos(c, outer.rs), "the input loop ends only when its channel is closed")
		}
	}
	c.Floor("C20-R1e", 6)
}

// runLoop decides R3b and R3c.
func (e *c20env) runLoop() {
	c := e.c
	run := c.MustFn("C20-R3b", c20RunKey)
	pll := c.MustFn("C20-R3c", c20LineKey)
	if run != nil {
		// the channel parameter
		var chObj types.Object
		for _, fl := range run.Type.Params.List {
			for _, nm := range fl.Names {
				if c20isLineChan(run.Info().TypeOf(fl.Type)) && chObj == nil {
					chObj = run.Info().Defs[nm]
				}
			}
		}
		f := run
		for hop := 0; chObj != nil && hop < 2; hop++ {
			if len(rangeOver(f, chObj)) > 0 {
				break
			}
			// handed to exactly one helper?
			var next *core.Func
			var nextObj types.Object
			n := 0
			core.InspectNoLit(f.Body, func(x ast.Node) bool {
				call, ok := x.(*ast.CallExpr)
				if !ok {
					return true
				}
				for i, a := range call.Args {
					if identObj(f.Info(), a) == chObj {
						n++
						if cf := f.CalleeFunc(call); cf != nil && cf.Lit == nil {
							next = cf
							nextObj = c20nthParam(cf, i)
						}
					}
				}
				return true
			})
			if n != 1 || next == nil || nextObj == nil {
				break
			}
			// the hand-over itself must be an ordinary call on every path
			hp := f.Graph().Find(func(x ast.Node) bool {
				call, ok := x.(*ast.CallExpr)
				return ok && f.CalleeFunc(call) == next
			})
			if len(hp) != 1 || hp[0].InGo || hp[0].InDefer {
				break
			}
			c.Analysed(next)
			f, chObj = next, nextObj
		}
		key := f.Key
		loops := rangeOver(f, chObj)
		if chObj == nil || len(loops) != 1 {
			c.Undecided("C20-R3b", c20RunKey+"|loop", pos(c, run.Decl), fmt.Sprintf("expected exactly one `range` over VM.Run's channel parameter (directly or in the helper it is handed to), found %d", len(loops)))
		} else {
			rs := loops[0]
			g := f.Graph()
			info := f.Info()
			calls := inside(g.CallsTo(c20LineKey), rs)
			var cp []core.Point
			async := false
			for _, h := range calls {
				cp = append(cp, h.P)
				if h.InGo || h.InDefer {
					async = true
				}
			}
			// calls to ProcessLogLine in literals inside the loop body are asynchronous or deferred work too
			ast.Inspect(rs.Body, func(x ast.Node) bool {
				if lit, ok := x.(*ast.FuncLit); ok {
					if lf := c.Prog.FuncOf[lit]; lf != nil && len(lf.Graph().CallsTo(c20LineKey)) > 0 {
						async = true
					}
				}
				return true
			})
			c.Verdict(!async, "C20-R3b", key+"|synchronous", pos(c, rs), "ProcessLogLine is an ordinary call in the loop body",
				"the run loop hands a line to `go`/`defer`/a function literal instead of processing it before receiving the next: lines of one program are processed concurrently and their effects are applied in no particular order")
			cnt, ok := iterationCount(g, rs, cp)
			if !ok {
				c.Undecided("C20-R3b", key+"|once per line", pos(c, rs), "loop blocks not found")
			} else {
				c.Verdict(cnt.Min == 1 && cnt.Max == 1, "C20-R3b", key+"|once per line", pos(c, rs), "exactly one ProcessLogLine per received line",
					"a received line is processed "+cnt.String()+" times by the version that received it (0: by no version — it was taken off the channel and dropped; many: more than once)")
			}
			lineObj := identObj(info, rs.Key)
			for i, h := range calls {
				call := h.N.(*ast.CallExpr)
				okArg := false
				for _, a := range call.Args {
					if lineObj != nil && identObj(info, a) == lineObj {
						okArg = true
					}
				}
				c.Verdict(okArg, "C20-R3b", fmt.Sprintf("%s|argument#%d", key, i+1), pos(c, call), "processes the line just received",
					"ProcessLogLine is not given the line just received from the channel")
			}
			if early := earlyLoopExits(c, g, rs); len(early) > 0 {
				c.Fail("C20-R3b", key+"|drains", pos(c, rs), "the run loop can end before its channel is closed: the fan-out then blocks for ever on its next send to this program (and, when retired with lines queued, those lines are processed by no version) — "+early[0])
			} else {
				c.Ok("C20-R3b", key+"|drains", pos(c, rs), "the loop ends only when the channel is closed and drained")
			}
			// no other use of the channel
			uses := 0
			ast.Inspect(f.Body, func(x ast.Node) bool {
				if id, ok := x.(*ast.Ident); ok && info.Uses[id] == chObj {
					uses++
				}
				return true
			})
			c.Verdict(uses == 1, "C20-R3b", key+"|sole consumer", pos(c, rs), "the channel parameter is used by the range loop only",
				fmt.Sprintf("the channel parameter of the run loop has %d uses besides/instead of the single range loop: a second consumer takes lines away from the in-order loop", uses))
		}
	}
	c.Floor("C20-R3b", 5)
	if pll != nil {
		// declared functions reachable from ProcessLogLine through statically resolved calls
		reach := c20closure([]*core.Func{pll})
		touchesState := func(f *core.Func) bool {
			rel := core.Rel(f.Pkg.PkgPath)
			if strings.HasPrefix(rel, "internal/metrics") {
				return true
			}
			return rel == c20VMPkg && f.Decl != nil && f.Decl.Recv != nil
		}
		var order []*core.Func
		for f := range reach {
			order = append(order, f)
		}
		sort.Slice(order, func(i, j int) bool { return order[i].Key < order[j].Key })
		ngo := 0
		for _, f := range order {
			ast.Inspect(f.Body, func(n ast.Node) bool {
				gs, ok := n.(*ast.GoStmt)
				if !ok {
					return true
				}
				ngo++
				key := fmt.Sprintf("%s|go#%d", f.Key, ngo)
				// what the goroutine runs
				var roots []*core.Func
				if lit, ok := core.Unparen(gs.Call.Fun).(*ast.FuncLit); ok {
					ast.Inspect(lit.Body, func(x ast.Node) bool {
						if call, ok := x.(*ast.CallExpr); ok {
							if cf := f.CalleeFunc(call); cf != nil {
								roots = append(roots, cf)
							}
						}
						return true
					})
				} else if cf := f.CalleeFunc(gs.Call); cf != nil {
					roots = append(roots, cf)
				} else {
					c.Undecided("C20-R3c", key, pos(c, gs), "line processing starts a goroutine whose body is not statically resolved")
					return true
				}
				var hit *core.Func
				for g := range c20closure(roots) {
					if touchesState(g) && (hit == nil || g.Key < hit.Key) {
						hit = g
					}
				}
				if hit != nil {
					c.Fail("C20-R3c", key, pos(c, gs), "processing a line starts a goroutine that reaches "+hit.Key+": part of the line's effect on the program's metrics / VM state is applied asynchronously and can land after the effects of later lines (and concurrently with the next line on the same VM)")
				} else {
					c.Note("C20-R3c", key, pos(c, gs), "line processing starts a goroutine, but it reaches no function of the metrics packages and no VM method through statically resolved calls")
				}
				return true
			})
		}
		c.Extra["c20_functions_reachable_from_ProcessLogLine"] = len(order)
		if ngo == 0 {
			c.Ok("C20-R3c", c20LineKey, pos(c, pll.Decl), fmt.Sprintf("no go statement in the %d module functions reachable through statically resolved calls", len(order)))
		}
	}
	c.Floor("C20-R3c", 1)
}

func c20nthParam(f *core.Func, n int) types.Object {
	i := 0
	for _, fl := range f.Type.Params.List {
		if len(fl.Names) == 0 {
			i++
			continue
		}
		for _, nm := range fl.Names {
			if i == n {
				return f.Info().Defs[nm]
			}
			i++
		}
	}
	return nil
}

var _ = cfg.KindBody

// c20closure returns the declared functions reachable from roots (inclusive)
// through statically resolved calls; literals belong to their declaration.
func c20closure(roots []*core.Func) map[*core.Func]bool {
	seen := map[*core.Func]bool{}
	var work []*core.Func
	push := func(f *core.Func) {
		if f == nil {
			return
		}
		for f.Parent != nil {
			f = f.Parent
		}
		if !seen[f] {
			seen[f] = true
			work = append(work, f)
		}
	}
	for _, r := range roots {
		push(r)
	}
	for len(work) > 0 {
		f := work[0]
		work = work[1:]
		for _, cf := range f.Callees() {
			push(cf)
		}
	}
	return seen
}

// replacedInCallers: the close sits in a helper that never touches the handle
// lock (its callers hold it).  The helper may return with the closed handle
// still in the map if every caller, from the call on, replaces or deletes an
// entry of the map before it releases the write lock or returns.
func (e *c20env) replacedInCallers(f *core.Func, from core.Point, upd []core.Point, stores, deletes []*c20op) (bool, string) {
	g := f.Graph()
	if len(e.lockEvs(g)) > 0 || f.Lit != nil {
		return false, ""
	}
	// inside the helper no release can occur; does a path reach an exit without an update?
	if _, leaves := pathAvoiding(g, &from, core.ExitPoints(normalExits(g)), upd); !leaves {
		return false, "" // decided locally (every path updates)
	}
	sites := e.callSites(f)
	if len(sites) == 0 {
		return false, ""
	}
	for _, s := range sites {
		if s.inGo {
			return false, ""
		}
		cg := s.f.Graph()
		if len(e.lockEvs(cg)) == 0 {
			return false, "" // a chain of helpers: not followed
		}
		var cupd []core.Point
		for _, set := range [][]*c20op{stores, deletes} {
			for _, o := range set {
				if o.f == s.f {
					cupd = append(cupd, o.hit.P)
				}
			}
		}
		goals := append(e.releases(cg, "W"), core.ExitPoints(normalExits(cg))...)
		p := s.p
		if _, found := pathAvoiding(cg, &p, goals, cupd); found {
			return false, ""
		}
	}
	return true, "the close is in a helper called with the write lock held; every caller replaces or deletes a map entry before it releases the lock"
}
