package props

import (
	"fmt"
	"go/ast"
	"go/types"

	"verif/sa/core"
)

// Extra C11 rule (own file).
func init() { register("C11", c11HeaderCopies) }

// c11HeaderCopies: copying a guarded slice or map field into a local copies
// the header only; the elements (and for a map the whole table) stay shared
// with the writers.  Every later use of such a local is an access to the
// guarded storage and needs the same lock.
func c11HeaderCopies(c *core.Check) {
	c.Rule("C11-R7", "HEADER-COPY: a local assigned from a guarded slice or map field (not from a copy made with append/copy/make) is indexed, ranged over or sliced only where the guard of the object it came from is certainly held — releasing the lock after `x := m.LabelValues` does not make x a snapshot")
	fields := map[*types.Var]*c11Guard{}
	for i := range c11Guards {
		g := &c11Guards[i]
		if g.Global || g.AnyOwner != "" {
			continue
		}
		fv := c11FieldVar(c, g)
		if fv == nil {
			continue
		}
		switch fv.Type().Underlying().(type) {
		case *types.Slice, *types.Map:
			fields[fv] = g
		}
	}
	n := 0
	for _, f := range shipped(c) {
		info := f.Info()
		type alias struct {
			lockPath string
			g        *c11Guard
			def      ast.Node
		}
		aliases := map[types.Object]alias{}
		core.InspectNoLit(f.Body, func(nd ast.Node) bool {
			if lit, ok := nd.(*ast.FuncLit); ok && lit != f.Lit {
				return false
			}
			as, ok := nd.(*ast.AssignStmt)
			if !ok || len(as.Lhs) != len(as.Rhs) {
				return true
			}
			for i, r := range as.Rhs {
				e := core.Unparen(r)
				for {
					if se, ok := e.(*ast.SliceExpr); ok { // a reslice shares the backing array too
						e = core.Unparen(se.X)
						continue
					}
					break
				}
				sel, ok := e.(*ast.SelectorExpr)
				if !ok {
					continue
				}
				s := info.Selections[sel]
				if s == nil || s.Kind() != types.FieldVal {
					continue
				}
				g := fields[s.Obj().(*types.Var)]
				if g == nil {
					continue
				}
				o := identObj(info, as.Lhs[i])
				if o == nil {
					continue
				}
				lp := core.PathOf(sel.X)
				if g.Lock != "" {
					lp += "." + g.Lock
				}
				aliases[o] = alias{lp, g, as}
			}
			return true
		})
		if len(aliases) == 0 {
			continue
		}
		g := f.Graph()
		held := g.MustHold()
		core.InspectNoLit(f.Body, func(nd ast.Node) bool {
			if lit, ok := nd.(*ast.FuncLit); ok && lit != f.Lit {
				return false
			}
			var used ast.Expr
			switch x := nd.(type) {
			case *ast.IndexExpr:
				used = x.X
			case *ast.RangeStmt:
				used = x.X
			case *ast.SliceExpr:
				used = x.X
			}
			if used == nil {
				return true
			}
			o := identObj(info, used)
			al, ok := aliases[o]
			if !ok || nd == al.def {
				return true
			}
			// the range statement itself is not a CFG node: use its X expression
			var at ast.Node = nd
			if rs, ok := nd.(*ast.RangeStmt); ok {
				at = rs.X
			}
			p, okP := g.PointOf(at)
			n++
			key := fmt.Sprintf("%s|use of header copy %s#%d", f.Key, o.Name(), n)
			if !okP {
				c.Undecided("C11-R7", key, pos(c, nd), "use not located in the control-flow graph")
				return true
			}
			set := held.At(p)
			c.Analysed(f)
			c.Verdict(core.Holds(set, al.lockPath, "R"), "C11-R7", key, pos(c, nd), "the guard "+al.lockPath+" is held at the use", fmt.Sprintf("%s was copied from %s.%s (a slice/map header: the elements stay shared) and is used here without %s held (held: %s): a concurrent removal shifts the backing array under this walk — a live label value is skipped, another is reported twice, and the reads race with the writer", o.Name(), al.g.Typ, al.g.Field, al.lockPath, core.SetString(set)))
			return true
		})
	}
	if n == 0 {
		c.Ok("C11-R7", "no header copy", "-", "no local is assigned from a guarded slice or map field and used afterwards")
	}
}
