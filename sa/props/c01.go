package props

import (
	"bytes"
	"fmt"
	"go/ast"
	"go/constant"
	"go/parser"
	"go/printer"
	"go/token"
	"go/types"
	"os"
	"os/exec"
	"path/filepath"
	"sort"
	"strings"

	"golang.org/x/tools/go/ast/astutil"

	"verif/sa/core"
)

func init() { register("C01", c01) }

const (
	checkerAfter  = "internal/runtime/compiler/checker.(*checker).VisitAfter"
	checkerBefore = "internal/runtime/compiler/checker.(*checker).VisitBefore"
	codegenAfter  = "internal/runtime/compiler/codegen.(*codegen).VisitAfter"
	lexProgKey    = "internal/runtime/compiler/parser.lexProg"
)

// lexTrie is the spelling -> token table read out of lexProg's character decisions.
type lexTrie struct {
	spell      map[string][]string        // spelling -> tokens emitted after exactly that spelling
	attributed map[*ast.CallExpr]bool     // emit calls that were attributed to a spelling
	emitCalls  map[string][]*ast.CallExpr // token -> every emit call in lexProg and the helpers it calls
}

// lexerTrie extracts spelling -> token from lexProg's character decisions.
// Recognised family: tagless switches with `r == 'c'` / `'c' == r` cases, tagged switches with 'c' cases,
// if/else on such a test, all nested to any depth; helper functions of the package that lexProg calls are read as if inlined.
func lexerTrieX(f *core.Func) *lexTrie {
	lt := &lexTrie{spell: map[string][]string{}, attributed: map[*ast.CallExpr]bool{}, emitCalls: map[string][]*ast.CallExpr{}}
	const emitID = "internal/runtime/compiler/parser.(*Lexer).emit"
	charLit := func(fn *core.Func, e ast.Expr) (string, bool) {
		bl, ok := core.Unparen(e).(*ast.BasicLit)
		if !ok || bl.Kind != token.CHAR {
			return "", false
		}
		if tv, ok := fn.Info().Types[bl]; !ok || tv.Value == nil {
			return "", false
		}
		if len(bl.Value) == 3 {
			return string(bl.Value[1]), true
		}
		return "", false
	}
	charOf := func(fn *core.Func, e ast.Expr) (string, bool) {
		// `x == 'c'`, `'c' == x` or `'c'`
		if be, ok := core.Unparen(e).(*ast.BinaryExpr); ok && be.Op == token.EQL {
			if ch, ok := charLit(fn, be.Y); ok {
				return ch, true
			}
			return charLit(fn, be.X)
		}
		return charLit(fn, e)
	}
	tokOf := func(fn *core.Func, call *ast.CallExpr) string {
		if name := constName(fn.Info(), call.Args[0]); name != "" {
			return name
		}
		return exprStr(call.Args[0])
	}
	// helper reports the function a statement hands over to (a plain call statement or a returned call), if it is a
	// declared function of the package other than the lexer's primitive methods and contains token decisions of its own.
	var helperOf func(fn *core.Func, st ast.Stmt) *core.Func
	helperOf = func(fn *core.Func, st ast.Stmt) *core.Func {
		var call *ast.CallExpr
		switch x := st.(type) {
		case *ast.ExprStmt:
			call, _ = core.Unparen(x.X).(*ast.CallExpr)
		case *ast.ReturnStmt:
			if len(x.Results) == 1 {
				call, _ = core.Unparen(x.Results[0]).(*ast.CallExpr)
			}
		}
		if call == nil {
			return nil
		}
		cf := fn.CalleeFunc(call)
		if cf == nil || cf.Lit != nil || cf.Pkg != fn.Pkg || cf.Obj == nil || fn.CalleeID(call) == emitID {
			return nil
		}
		if !exprCalls(cf, cf.Body, emitID) {
			return nil
		}
		return cf
	}
	var walkStmts func(fn *core.Func, stmts []ast.Stmt, prefix string, depth int)
	var walkSwitch func(fn *core.Func, sw *ast.SwitchStmt, prefix string, depth int)
	isCharIf := func(fn *core.Func, st ast.Stmt) (*ast.IfStmt, string, bool) {
		is, ok := st.(*ast.IfStmt)
		if !ok {
			return nil, "", false
		}
		ch, ok := charOf(fn, is.Cond)
		return is, ch, ok
	}
	// direct emits of a statement list: everything except nested character decisions and helpers
	var directEmits func(fn *core.Func, stmts []ast.Stmt, sp string)
	directEmits = func(fn *core.Func, stmts []ast.Stmt, sp string) {
		for _, st := range stmts {
			if _, isSw := st.(*ast.SwitchStmt); isSw {
				continue
			}
			if _, _, ok := isCharIf(fn, st); ok {
				continue
			}
			if helperOf(fn, st) != nil {
				continue
			}
			ast.Inspect(st, func(n ast.Node) bool {
				if call, ok := n.(*ast.CallExpr); ok && fn.CalleeID(call) == emitID && len(call.Args) == 1 {
					if sp != "" {
						lt.spell[sp] = append(lt.spell[sp], tokOf(fn, call))
						lt.attributed[call] = true
					}
				}
				return true
			})
		}
	}
	walkStmts = func(fn *core.Func, stmts []ast.Stmt, prefix string, depth int) {
		hasInner := false
		for _, st := range stmts {
			if sw, ok := st.(*ast.SwitchStmt); ok {
				hasInner = true
				walkSwitch(fn, sw, prefix, depth)
				continue
			}
			if is, ch, ok := isCharIf(fn, st); ok {
				hasInner = true
				walkStmts(fn, is.Body.List, prefix+ch, depth)
				switch el := is.Else.(type) {
				case *ast.BlockStmt:
					walkStmts(fn, el.List, prefix, depth)
				case *ast.IfStmt:
					walkStmts(fn, []ast.Stmt{el}, prefix, depth)
				}
				continue
			}
			if cf := helperOf(fn, st); cf != nil && depth < 3 {
				hasInner = true
				walkStmts(cf, cf.Body.List, prefix, depth+1)
			}
		}
		_ = hasInner
		directEmits(fn, stmts, prefix)
	}
	walkSwitch = func(fn *core.Func, sw *ast.SwitchStmt, prefix string, depth int) {
		for _, cl := range sw.Body.List {
			cc := cl.(*ast.CaseClause)
			var chars []string
			if cc.List == nil {
				chars = []string{""} // default: the prefix alone
			}
			for _, e := range cc.List {
				if ch, ok := charOf(fn, e); ok {
					chars = append(chars, ch)
				}
			}
			for _, ch := range chars {
				walkStmts(fn, cc.Body, prefix+ch, depth)
			}
		}
	}
	// every emit call in scope
	seen := map[*core.Func]bool{}
	var scope func(fn *core.Func, depth int)
	scope = func(fn *core.Func, depth int) {
		if seen[fn] || depth > 3 {
			return
		}
		seen[fn] = true
		ast.Inspect(fn.Body, func(n ast.Node) bool {
			if call, ok := n.(*ast.CallExpr); ok && fn.CalleeID(call) == emitID && len(call.Args) == 1 {
				t := tokOf(fn, call)
				lt.emitCalls[t] = append(lt.emitCalls[t], call)
			}
			if st, ok := n.(ast.Stmt); ok {
				if cf := helperOf(fn, st); cf != nil {
					scope(cf, depth+1)
				}
			}
			return true
		})
	}
	scope(f, 0)
	// the top level of lexProg: only its character switches (statements before them decide on lexer state, not on characters)
	for _, st := range f.Body.List {
		if sw, ok := st.(*ast.SwitchStmt); ok {
			walkSwitch(f, sw, "", 0)
		}
	}
	return lt
}

// lexerTrie is the plain spelling -> tokens table (also used by C23).
func lexerTrie(f *core.Func) map[string][]string { return lexerTrieX(f).spell }

// unattributed lists the emit calls of token t that lie outside the recognised character decisions.
func (lt *lexTrie) unattributed(t string) []*ast.CallExpr {
	var out []*ast.CallExpr
	for _, c := range lt.emitCalls[t] {
		if !lt.attributed[c] {
			out = append(out, c)
		}
	}
	return out
}

var defsCache = map[*core.Func]map[types.Object]ast.Expr{}

func defsOf(f *core.Func) map[types.Object]ast.Expr {
	if d, ok := defsCache[f]; ok {
		return d
	}
	d := singleDefs(f.Info(), f.Body)
	defsCache[f] = d
	return d
}

// isASTNodeType reports whether e denotes the type *ast.<name> of the compiler's ast package (through any import alias).
func isASTNodeType(info *types.Info, e ast.Expr, name string) bool {
	return astNodeTypeName(info, e) == name
}

// astNodeTypeName names the compiler/ast type (pointer stripped) an expression denotes, "" if none.
func astNodeTypeName(info *types.Info, e ast.Expr) string {
	t := info.TypeOf(e)
	if t == nil {
		return ""
	}
	if p, ok := t.(*types.Pointer); ok {
		t = p.Elem()
	}
	nt, ok := t.(*types.Named)
	if !ok || nt.Obj().Pkg() == nil || !strings.HasSuffix(nt.Obj().Pkg().Path(), "/compiler/ast") {
		return ""
	}
	return nt.Obj().Name()
}

// parserToken names the parser token constant e denotes, "" if it is not one.
func parserToken(info *types.Info, e ast.Expr) string {
	if cn, ok := usedObj(info, e).(*types.Const); ok && cn.Pkg() != nil && strings.HasSuffix(cn.Pkg().Path(), "/compiler/parser") {
		return cn.Name()
	}
	return ""
}

// opClause is a case clause of a switch on the Op field of an ast node.
type opClause struct {
	cc   *ast.CaseClause
	sw   *ast.SwitchStmt
	toks []string
}

// opSwitchClauses lists, inside the type-switch clause of f for *ast.<nodeType>, the clauses of every switch whose tag
// is that node's Op field (directly, through `switch op := n.Op; op`, or through a single-definition local).
func opSwitchClauses(f *core.Func, nodeType string) (out []opClause, found bool) {
	info := f.Info()
	defs := defsOf(f)
	ast.Inspect(f.Body, func(n ast.Node) bool {
		cc, isCC := n.(*ast.CaseClause)
		if !isCC {
			return true
		}
		match := false
		for _, e := range cc.List {
			if isASTNodeType(info, e, nodeType) {
				match = true
			}
		}
		if !match {
			return true
		}
		ast.Inspect(cc, func(m ast.Node) bool {
			sw, isSw := m.(*ast.SwitchStmt)
			if !isSw || sw.Tag == nil {
				return true
			}
			var tag ast.Expr = sw.Tag
			if as, ok := sw.Init.(*ast.AssignStmt); ok && len(as.Lhs) == 1 && len(as.Rhs) == 1 && identObj(info, tag) != nil && identObj(info, as.Lhs[0]) == identObj(info, tag) {
				tag = as.Rhs[0]
			}
			fld, recv, _ := selField(info, throughDefs(info, defs, tag))
			if fld != "Op" || !strings.HasSuffix(recv, "compiler/ast."+nodeType) {
				return true
			}
			found = true
			for _, cl := range sw.Body.List {
				c2 := cl.(*ast.CaseClause)
				var toks []string
				for _, e := range c2.List {
					if t := parserToken(info, e); t != "" {
						toks = append(toks, t)
					}
				}
				out = append(out, opClause{c2, sw, toks})
			}
			return true
		})
		return false
	})
	return
}

// opSwitchTokens collects the parser tokens handled by the Op switches of the clause for the given AST type in f.
func opSwitchTokens(f *core.Func, nodeType string) (toks map[string]bool, ok bool) {
	toks = map[string]bool{}
	cls, ok := opSwitchClauses(f, nodeType)
	for _, oc := range cls {
		for _, t := range oc.toks {
			toks[t] = true
		}
	}
	return toks, ok
}

// innermostOpTokens returns the tokens of the innermost Op-switch clause of f (for any node type) containing pos.
// kind is "B" for a switch on BinaryExpr.Op, "U" for UnaryExpr.Op.
func innermostOpTokens(f *core.Func, p token.Pos) (kind string, toks []string) {
	var best *opClause
	for _, nt := range []string{"BinaryExpr", "UnaryExpr"} {
		cls, _ := opSwitchClauses(f, nt)
		for i := range cls {
			oc := &cls[i]
			if len(oc.toks) > 0 && posWithin(oc.cc, p) && (best == nil || best.cc.Pos() <= oc.cc.Pos()) {
				best, kind = oc, nt[:1]
			}
		}
	}
	if best == nil {
		return "", nil
	}
	return kind, best.toks
}

// deltaSign follows the single int64 argument of a call made in a VM case down to sync/atomic.AddInt64 through
// statically resolved callees (type-switch dispatch on the datum included) and reports the sign with which it is
// added: +1, -1, or 0 if the chain is not recognised.
func deltaSign(f *core.Func, call *ast.CallExpr, depth int) int {
	cf := f.CalleeFunc(call)
	if cf == nil || depth > 4 {
		return 0
	}
	// the one int64 parameter of the callee that receives an argument
	idx := -1
	for i, a := range call.Args {
		if t := f.Info().TypeOf(a); t != nil && types.Identical(t.Underlying(), types.Typ[types.Int64]) {
			if idx >= 0 {
				return 0
			}
			idx = i
		}
	}
	if idx < 0 {
		return 0
	}
	var params []types.Object
	for _, fl := range cf.Type.Params.List {
		for _, nm := range fl.Names {
			params = append(params, cf.Info().Defs[nm])
		}
		if len(fl.Names) == 0 {
			params = append(params, nil)
		}
	}
	if idx >= len(params) || params[idx] == nil {
		return 0
	}
	p := params[idx]
	ci := cf.Info()
	result, n := 0, 0
	ast.Inspect(cf.Body, func(m ast.Node) bool {
		inner, ok := m.(*ast.CallExpr)
		if !ok {
			return true
		}
		for _, a := range inner.Args {
			sign := 0
			a = core.Unparen(a)
			if identObj(ci, a) == p {
				sign = +1
			} else if u, ok := a.(*ast.UnaryExpr); ok && u.Op == token.SUB && identObj(ci, u.X) == p {
				sign = -1
			}
			if sign == 0 {
				continue
			}
			switch id := cf.CalleeID(inner); {
			case id == "sync/atomic.AddInt64":
				n++
				result = sign
			case cf.CalleeFunc(inner) != nil:
				if s2 := deltaSign(cf, inner, depth+1); s2 != 0 {
					n++
					result = sign * s2
				}
			}
		}
		return true
	})
	if n != 1 {
		return 0
	}
	return result
}

var goOpOf = map[string]string{"+": "+", "-": "-", "*": "*", "/": "/", "%": "%", "<<": "<<", ">>": ">>", "&": "&", "|": "|", "^": "^"}

func c01(c *core.Check) {
	c.Explain = "Whole-property equality with the language reference is out of reach statically; this check decides the internal agreement of the compiler pipeline, every clause of which is necessary for C01, from /repo's current source: (R1) the committed parser.go is what goyacc generates from parser.y (so grammar-level facts are facts about the compiled parser) with no conflicts; (R2) every operator token is spelled once in the lexer, typed by the checker, handled by the code generator, and for arithmetic/bitwise operators the VM opcode selected computes the Go operator with that spelling on (second pop, first pop); (R3) the emitted comparison templates, evaluated with the VM's compare functions and jump senses on the three orderings a<b, a=b, a>b, equal the meaning of the operator's spelling; (R4) the builtin tables of lexer, type checker, code generator and VM agree in name, opcode and arity; (R5) every opcode the generator can emit has a VM case; (R6) ast.Walk handles every node type and walks every child field; (R7) after a runtime error is raised no datum or metric is modified in that instruction; (R8) every block a conditional opens starts with the matched flag cleared. Not decided: numeric results, regexp semantics, type inference soundness."
	c.Assume = append(c.Assume, "goyacc v0.29.0 (built from the module cache) is the generator", "Go operators on int64/float64 are the reference semantics of the same-spelled mtail operators")
	vm := extractVM(c)
	emits, _ := extractEmits(c)
	if vm == nil {
		c.Undecided("C01-R5", vmExecute, "-", "VM table not extracted")
		return
	}

	// ---- R1
	c.Rule("C01-R1", "GENERATED: goyacc on /repo's parser.y reports no conflicts and produces a parser.go whose declarations equal the committed file's, ignoring comments and the element type of the table arrays")
	c01grammar(c)

	// ---- R2
	c.Rule("C01-R2", "OPERATORS: for each token T in the checker's BinaryExpr/UnaryExpr operator switches: the lexer emits T for exactly one spelling; the code generator has a case for T; for + - * / % << >> & | ^ the int opcode's VM push expression is `a <spelling> b`, for float + - * / likewise, % is math.Mod(a, b) and ** is math.Pow; unary ~ pushes ^a, ++ adds and -- subtracts its delta (followed to the atomic add)")
	lf := c.MustFn("C01-R2", lexProgKey)
	ca := c.MustFn("C01-R2", checkerAfter)
	cgA := c.MustFn("C01-R2", codegenAfter)
	cgB := c.MustFn("C01-R2", codegenBefore)
	if lf != nil && ca != nil && cgA != nil && cgB != nil {
		trie := lexerTrieX(lf)
		spellOf := map[string][]string{}
		for sp, ts := range trie.spell {
			for _, t := range ts {
				spellOf[t] = append(spellOf[t], sp)
			}
		}
		c.Extra["lexer_spellings"] = len(trie.spell)
		vmDefs := defsOf(vm.F)
		binC, ok1 := opSwitchTokens(ca, "BinaryExpr")
		unC, ok2 := opSwitchTokens(ca, "UnaryExpr")
		binGA, _ := opSwitchTokens(cgA, "BinaryExpr")
		binGB, _ := opSwitchTokens(cgB, "BinaryExpr")
		unGA, _ := opSwitchTokens(cgA, "UnaryExpr")
		if !ok1 || !ok2 {
			c.Undecided("C01-R2", "checker operator switches", "-", "not found")
		}
		_, _, typed := mapLiteralOpcodes(c, "internal/runtime/compiler/codegen", "typedOperators")
		directOp := map[string]string{}
		for _, es := range emits {
			if es.Call != nil && len(es.Ops) == 1 {
				if k, ts := innermostOpTokens(es.F, es.Call.Pos()); len(ts) == 1 {
					directOp[k+":"+ts[0]] = es.Ops[0]
				}
			}
		}
		var toks []string
		for t := range binC {
			toks = append(toks, "B:"+t)
		}
		for t := range unC {
			toks = append(toks, "U:"+t)
		}
		sort.Strings(toks)
		for _, kt := range toks {
			kind, t := kt[:1], kt[2:]
			key := map[string]string{"B": "binary ", "U": "unary "}[kind] + t
			sps := uniq(spellOf[t])
			if un := trie.unattributed(t); len(un) > 0 && len(sps) <= 1 {
				// the token is emitted at a place the trie extraction does not understand: its spellings are not all known
				c.Undecided("C01-R2", key+"|spelling", pos(c, un[0]), fmt.Sprintf("token %s is emitted outside the recognised character decisions of lexProg (switch / if on a character literal, helpers called from there): cannot list its spellings", t))
				continue
			}
			if len(sps) != 1 {
				c.Fail("C01-R2", key+"|spelling", pos(c, lf.Decl), fmt.Sprintf("token %s is emitted for %d spellings %v: the operator cannot be written, or two spellings mean the same operator", t, len(sps), sps))
				continue
			}
			sp := sps[0]
			handled := (kind == "B" && (binGA[t] || binGB[t])) || (kind == "U" && unGA[t])
			if kind == "U" && t == "NOT" {
				handled = unGA[t]
			}
			if kind == "B" && t == "NOT" {
				// NOT appears in the checker's binary bitwise list only as a type class; unary in the grammar
				continue
			}
			c.Verdict(handled, "C01-R2", key+"|codegen", pos(c, cgA.Decl), "spelled `"+sp+"`, handled by the code generator", "operator "+t+" (`"+sp+"`) is typed by the checker but the code generator has no case for it: every program using it fails with an internal compiler error")
			if kind == "U" {
				c01unary(c, vm, vmDefs, key, t, sp, directOp["U:"+t])
				continue
			}
			goOp, isArith := goOpOf[sp]
			if !isArith && sp != "**" {
				continue
			}
			for _, cls := range []string{"Int", "Float"} {
				opc := typed[t][cls]
				if opc == "" && cls == "Int" {
					opc = directOp["B:"+t]
				}
				if opc == "" {
					continue
				}
				vc := vm.Cases[opc]
				if vc == nil || len(vc.Pops) < 2 || len(vc.Pushes) == 0 || vc.Pops[0].Var == nil || vc.Pops[1].Var == nil {
					c.Undecided("C01-R2", key+"|vm "+opc, "-", "VM case shape not recognised")
					continue
				}
				got, _, _ := vmPushExpr(vm, vmDefs, vc.Pushes[len(vc.Pushes)-1].Expr, map[types.Object]string{vc.Pops[1].Var: "a", vc.Pops[0].Var: "b"})
				var want []string
				switch {
				case sp == "**" && cls == "Float":
					want = []string{"math.Pow(a,b)"}
				case sp == "**" && cls == "Int":
					want = []string{"int64(math.Pow(float64(a),float64(b)))"}
				case sp == "%" && cls == "Float":
					want = []string{"math.Mod(a,b)"}
				case (sp == "<<" || sp == ">>") && cls == "Int":
					want = []string{"a" + goOp + "uint(b)", "a" + goOp + "b", "a" + goOp + "uint64(b)"}
				default:
					want = []string{"a" + goOp + "b"}
				}
				c.Verdict(has(want, got), "C01-R2", key+"|vm "+opc, pos(c, vc.Pushes[len(vc.Pushes)-1].Call), "`"+sp+"` -> "+t+" -> "+opc+" -> "+got, fmt.Sprintf("operator `%s` compiles to %s, whose VM case computes %s with a = second pop, b = first pop; the operator means %s", sp, opc, got, want[0]))
			}
		}
	}
	c.Floor("C01-R2", 40)

	// ---- R3
	c.Rule("C01-R3", "COMPARISONS: for each relational token the template [cmp cmpArg; jumpOp lFail; push true; jmp lEnd; lFail: push false] evaluated with compareInt/compareFloat/compareString and the jump senses of Jnm/Jm yields, on a<b, a=b, a>b, the truth table of the operator's spelling")
	if lf != nil && cgA != nil {
		c01comparisons(c, lf, cgA, vm)
	}
	c.Floor("C01-R3", 18)

	// ---- R4
	c.Rule("C01-R4", "BUILTINS: lexer builtins = keys of types.Builtins = names the code generator handles (builtin map and explicit cases); each mapped opcode has a VM case; the declared parameter count is consistent with the pops of that case")
	c01builtins(c, vm, cgA)
	c.Floor("C01-R4", 12)

	// ---- R5
	c.Rule("C01-R5", "OPCODES: every opcode constant is handled by vm.execute or never emitted; every emitted opcode is handled; vm.execute has a default that raises a runtime error")
	emitted := map[string]bool{}
	for _, es := range emits {
		for _, op := range es.Ops {
			emitted[op] = true
		}
	}
	if pkg := c.Prog.Pkgs["internal/runtime/code"]; pkg != nil {
		var ops []string
		sc := pkg.Types.Scope()
		for _, name := range sc.Names() {
			if cn, ok := sc.Lookup(name).(*types.Const); ok && strings.HasSuffix(cn.Type().String(), "code.Opcode") && cn.Exported() {
				ops = append(ops, name)
			}
		}
		for _, op := range ops {
			_, handled := vm.Cases[op]
			switch {
			case handled:
				c.Ok("C01-R5", "opcode "+op, "-", pick(emitted[op], "emitted and handled", "handled, not emitted"))
			case emitted[op]:
				c.Fail("C01-R5", "opcode "+op, "-", "opcode "+op+" is emitted by the code generator but vm.execute has no case for it")
			default:
				c.Note("C01-R5", "opcode "+op, "-", "neither emitted nor handled")
			}
		}
		c.Extra["opcodes"] = len(ops)
	}
	c.Verdict(vm.HasDef, "C01-R5", "execute default", pos(c, vm.F.Decl), "unknown opcodes raise a runtime error", "vm.execute has no default clause: an unknown opcode is silently skipped")
	c.Floor("C01-R5", 55)

	// ---- R6
	c.Rule("C01-R6", "NODES: ast.Walk's type switch lists every type of package ast that implements Node, and for every field of type Node or []Node of such a type the clause walks it — or, for fields the generic walk leaves out, checker and code generator walk it explicitly")
	c01nodes(c)
	c.Floor("C01-R6", 24)

	// ---- R7
	c.Rule("C01-R7", "ERROR-ABORTS-REST: in vm.execute (and in every function of package vm it calls that raises errors itself) no path from a call of errorf reaches a call that modifies a datum or a metric (datum.Set*/Inc*/Dec*/Observe, Metric.GetDatum/RemoveDatum/ExpireDatum); errorf stops the line (C25-R3) and ProcessLogLine returns without undoing earlier effects")
	if exe := vm.F; exe != nil {
		isMut := func(id string, _ *ast.CallExpr) bool {
			switch {
			case strings.HasPrefix(id, "internal/metrics/datum.Set"), strings.HasPrefix(id, "internal/metrics/datum.Inc"), strings.HasPrefix(id, "internal/metrics/datum.Dec"), id == "internal/metrics/datum.Observe":
				return true
			case id == "internal/metrics.(*Metric).GetDatum", id == "internal/metrics.(*Metric).RemoveDatum", id == "internal/metrics.(*Metric).ExpireDatum":
				return true
			}
			return false
		}
		// execute, and the functions of package vm it (transitively) calls that raise errors themselves: an opcode
		// case moved into a helper method is judged inside the helper
		fns := []*core.Func{exe}
		seenFn := map[*core.Func]bool{exe: true}
		for i := 0; i < len(fns); i++ {
			for _, cf := range fns[i].Callees() {
				if !seenFn[cf] && cf.Pkg == exe.Pkg && cf.Lit == nil && !c.Prog.IsTestSupport(cf) && cf.Key != vmErrorf {
					seenFn[cf] = true
					fns = append(fns, cf)
				}
			}
		}
		nerrs := 0
		for _, fn := range fns {
			g := fn.Graph()
			errs := g.CallsTo(vmErrorf)
			if fn != exe && len(errs) == 0 {
				continue
			}
			c.Analysed(fn)
			muts := g.Calls(isMut)
			nerrs += len(errs)
			bad := 0
			for i, e := range errs {
				from := e.P
				if tr, found := pathAvoiding(g, &from, core.HitPoints(muts), nil); found {
					bad++
					where := enclosingCaseName(fn, e.N)
					if fn != exe {
						where = fn.Key
					}
					c.Fail("C01-R7", fmt.Sprintf("errorf#%d in %s", i+1, where), pos(c, e.N), "after raising a runtime error the instruction still modifies a datum: the failed statement takes effect anyway", tr...)
				}
			}
			if bad == 0 {
				key := "execute"
				if fn != exe {
					key = fn.Key
				}
				c.Ok("C01-R7", key, pos(c, fn.Decl), fmt.Sprintf("%d errorf sites, %d mutation sites, none ordered badly", len(errs), len(muts)))
			}
		}
		c.Extra["errorf_sites"] = nerrs
		if nerrs < 50 {
			c.Undecided("C01-R7", "floor", "-", fmt.Sprintf("only %d errorf sites found in execute and the functions it calls", nerrs))
		}
	}
	c.Floor("C01-R7", 1)

	// ---- R8
	c.Rule("C01-R8", "SCOPING: in the code generator's CondStmt clause every walk of a block the statement opens (Truth, Else) is preceded, since the previous walk or jump, by emit(Setmatched, false); Setmatched true is emitted after the truth block only; the else block is skipped by a jump when the condition held: Jnm targets a label set between the truth and else blocks, Jmp a label set after both")
	if cgB != nil {
		c01cond(c, cgB)
	}
	c.Floor("C01-R8", 3)

	c.Rule("C01-R9", "CAPTURES: capture groups are per line and per pattern — the per-line thread and its capture table are created anew before the first instruction (shared with C05-R1), and every pattern expression gets its own slot in the regexp table, which also keys the capture table (shared with C04-R3)")
	if pll := c.MustFn("C01-R9", processLogLine); pll != nil {
		threadFreshness(c, "C01-R9", pll)
	}
	tableSlotsTyped(c, "C01-R9")
	c.Floor("C01-R9", 8)
}

// c01unary checks the VM case of the opcode a unary operator compiles to: `~` pushes ^a; `++` adds its delta to the
// datum and `--` subtracts it (followed down to the atomic add).
func c01unary(c *core.Check, vm *vmTable, vmDefs map[types.Object]ast.Expr, key, t, sp, opc string) {
	if sp != "~" && sp != "++" && sp != "--" {
		return
	}
	if opc == "" {
		c.Undecided("C01-R2", key+"|vm", "-", "the opcode the code generator emits for unary "+t+" was not resolved")
		return
	}
	vc := vm.Cases[opc]
	if vc == nil {
		c.Fail("C01-R2", key+"|vm "+opc, "-", "unary `"+sp+"` compiles to "+opc+", which the VM does not handle")
		return
	}
	if sp == "~" {
		if len(vc.Pops) != 1 || len(vc.Pushes) == 0 || vc.Pops[0].Var == nil {
			c.Undecided("C01-R2", key+"|vm "+opc, "-", "VM case shape not recognised")
			return
		}
		got, _, _ := vmPushExpr(vm, vmDefs, vc.Pushes[len(vc.Pushes)-1].Expr, map[types.Object]string{vc.Pops[0].Var: "a"})
		c.Verdict(got == "^a", "C01-R2", key+"|vm "+opc, pos(c, vc.Pushes[len(vc.Pushes)-1].Call), "`~` -> "+t+" -> "+opc+" -> "+got, fmt.Sprintf("operator `~` compiles to %s, whose VM case computes %s of the popped value a; the operator means ^a (bitwise complement)", opc, got))
		return
	}
	want := map[string]int{"++": +1, "--": -1}[sp]
	signs := map[int]int{}
	var where ast.Node
	vm.inspectCase(vc, func(n ast.Node) bool {
		call, ok := n.(*ast.CallExpr)
		if !ok {
			return true
		}
		if cf := vm.F.CalleeFunc(call); cf != nil && core.Rel(cf.Pkg.PkgPath) == "internal/metrics/datum" {
			if s := deltaSign(vm.F, call, 0); s != 0 {
				signs[s]++
				where = call
			}
		}
		return true
	})
	switch {
	case len(signs) == 1 && signs[want] > 0:
		c.Ok("C01-R2", key+"|vm "+opc, pos(c, where), fmt.Sprintf("`%s` -> %s -> %s adds %+d x delta to the datum", sp, t, opc, want))
	case len(signs) == 1:
		c.Fail("C01-R2", key+"|vm "+opc, pos(c, where), fmt.Sprintf("operator `%s` compiles to %s, whose VM case adds %+d x delta to the datum: the operator means %+d x delta", sp, opc, -want, want))
	default:
		c.Undecided("C01-R2", key+"|vm "+opc, pos(c, vm.F.Decl), "cannot follow the delta of "+opc+" to an atomic add with a definite sign")
	}
}

func c01grammar(c *core.Check) {
	root := c.Prog.Root
	y := filepath.Join(root, "internal/runtime/compiler/parser/parser.y")
	committed := filepath.Join(root, "internal/runtime/compiler/parser/parser.go")
	goyacc := filepath.Join(c.VerifDir, "bin", "goyacc")
	if _, err := os.Stat(goyacc); err != nil {
		c.Undecided("C01-R1", "goyacc", "-", "bin/goyacc not built (run setup.sh)")
		return
	}
	tmp, err := os.MkdirTemp("", "goyacc-")
	if err != nil {
		c.Undecided("C01-R1", "goyacc", "-", err.Error())
		return
	}
	defer os.RemoveAll(tmp)
	gen := filepath.Join(tmp, "parser.go")
	yout := filepath.Join(tmp, "y.output")
	cmd := exec.Command(goyacc, "-o", gen, "-v", yout, "-p", "mtail", y)
	cmd.Dir = tmp
	out, err := cmd.CombinedOutput()
	if err != nil {
		c.Fail("C01-R1", "goyacc parser.y", "internal/runtime/compiler/parser/parser.y", "goyacc rejects the grammar: "+strings.TrimSpace(string(out)))
		return
	}
	conflicts := strings.Contains(string(out), "conflict")
	if b, err := os.ReadFile(yout); err == nil {
		for _, l := range strings.Split(string(b), "\n") {
			if strings.Contains(l, "conflict") && !strings.Contains(l, "0 shift/reduce, 0 reduce/reduce") && strings.Contains(l, "reduce") {
				conflicts = true
			}
		}
	}
	c.Verdict(!conflicts, "C01-R1", "no conflicts", "internal/runtime/compiler/parser/parser.y", "0 shift/reduce, 0 reduce/reduce", "the grammar has LALR conflicts: "+strings.TrimSpace(string(out)))
	norm := func(path string) (map[string]string, error) {
		fset := token.NewFileSet()
		file, err := parser.ParseFile(fset, path, nil, 0)
		if err != nil {
			return nil, err
		}
		decls := map[string]string{}
		// the committed file may come from a goyacc that used plain int tables: drop int(x) conversions of table reads
		astutil.Apply(file, func(cur *astutil.Cursor) bool {
			if call, ok := cur.Node().(*ast.CallExpr); ok && len(call.Args) == 1 {
				if id, ok := call.Fun.(*ast.Ident); ok && id.Name == "int" {
					if _, isIdx := call.Args[0].(*ast.IndexExpr); isIdx {
						cur.Replace(call.Args[0])
					}
				}
			}
			return true
		}, nil)
		for _, d := range file.Decls {
			var name string
			switch x := d.(type) {
			case *ast.FuncDecl:
				name = "func " + x.Name.Name
				if x.Recv != nil {
					name = "method " + types.ExprString(x.Recv.List[0].Type) + "." + x.Name.Name
				}
			case *ast.GenDecl:
				for _, sp := range x.Specs {
					switch s := sp.(type) {
					case *ast.ValueSpec:
						name += "var " + s.Names[0].Name + " "
						// table arrays: ignore element type
						for _, v := range s.Values {
							if cl, ok := v.(*ast.CompositeLit); ok {
								if at, ok := cl.Type.(*ast.ArrayType); ok {
									if id, ok := at.Elt.(*ast.Ident); ok && (strings.HasPrefix(id.Name, "int") || strings.HasPrefix(id.Name, "uint")) {
										id.Name = "int"
									}
								}
							}
						}
					case *ast.TypeSpec:
						name += "type " + s.Name.Name + " "
					case *ast.ImportSpec:
						name += "import " + s.Path.Value + " "
					}
				}
			}
			var buf bytes.Buffer
			printer.Fprint(&buf, fset, d)
			// line directives and positions do not matter
			decls[name] += buf.String()
		}
		return decls, nil
	}
	a, err1 := norm(gen)
	b, err2 := norm(committed)
	if err1 != nil || err2 != nil {
		c.Undecided("C01-R1", "parse parser.go", "-", fmt.Sprint(err1, err2))
		return
	}
	var diff []string
	for k, v := range a {
		if b[k] != v {
			diff = append(diff, strings.TrimSpace(k))
		}
	}
	for k := range b {
		if _, ok := a[k]; !ok {
			diff = append(diff, "only committed: "+strings.TrimSpace(k))
		}
	}
	sort.Strings(diff)
	c.Verdict(len(diff) == 0, "C01-R1", "parser.go == goyacc(parser.y)", "internal/runtime/compiler/parser/parser.go", fmt.Sprintf("%d declarations equal", len(a)), "the committed parser.go is not what goyacc generates from parser.y (grammar edited without regenerating, or parser.go edited by hand); differing declarations: "+strings.Join(diff, "; "))
	c.Extra["generated_decls"] = len(a)
}

func c01comparisons(c *core.Check, lf, cgA *core.Func, vm *vmTable) {
	trie := lexerTrieX(lf)
	spellOf := map[string]string{}
	for sp, ts := range trie.spell {
		for _, t := range ts {
			spellOf[t] = sp
		}
	}
	meaning := map[string][3]bool{"<": {true, false, false}, "<=": {true, true, false}, ">": {false, false, true}, ">=": {false, true, true}, "==": {false, true, false}, "!=": {true, false, true}}
	isRel := func(t string) bool { _, ok := meaning[spellOf[t]]; return ok }
	info := cgA.Info()
	const emitID = "internal/runtime/compiler/codegen.(*codegen).emit"
	const setLabelID = "internal/runtime/compiler/codegen.(*codegen).setLabel"

	// ---- the clause of the code generator's operator switch that lists the relational tokens
	cls, _ := opSwitchClauses(cgA, "BinaryExpr")
	var rel *opClause
	for i := range cls {
		n := 0
		for _, t := range cls[i].toks {
			if isRel(t) {
				n++
			}
		}
		if n >= 2 && rel == nil {
			rel = &cls[i]
		}
	}

	// ---- the emitted template, as a sequence of emit / setLabel calls (followed into one helper method of the code generator)
	type tItem struct {
		kind    string // "emit" or "label"
		op, arg string // value keys
		text    string
	}
	objOf := map[string]types.Object{}
	var valKey func(fn *core.Func, bind map[types.Object]ast.Expr, e ast.Expr, depth int) string
	valKey = func(fn *core.Func, bind map[types.Object]ast.Expr, e ast.Expr, depth int) string {
		fi := fn.Info()
		e = core.Unparen(e)
		if op, ok := constOpcode(fi, e); ok {
			return "op:" + op
		}
		if v, ok := constBool(fi, e); ok {
			return fmt.Sprintf("bool:%v", v)
		}
		o := identObj(fi, e)
		if o == nil || depth > 4 {
			return "?"
		}
		if arg, ok := bind[o]; ok {
			return valKey(cgA, nil, arg, depth+1)
		}
		if d, ok := defsOf(fn)[o]; ok {
			if _, isCall := core.Unparen(d).(*ast.CallExpr); !isCall {
				return valKey(fn, bind, d, depth+1)
			}
		}
		k := fmt.Sprintf("var:%s@%d", o.Name(), o.Pos())
		objOf[k] = o
		return k
	}
	var items []tItem
	unknown := ""
	var collect func(fn *core.Func, bind map[types.Object]ast.Expr, stmts []ast.Stmt, depth int)
	collect = func(fn *core.Func, bind map[types.Object]ast.Expr, stmts []ast.Stmt, depth int) {
		for _, st := range stmts {
			es, ok := st.(*ast.ExprStmt)
			if !ok {
				continue
			}
			call, ok := core.Unparen(es.X).(*ast.CallExpr)
			if !ok {
				continue
			}
			switch id := fn.CalleeID(call); {
			case id == emitID && len(call.Args) == 3:
				items = append(items, tItem{"emit", valKey(fn, bind, call.Args[1], 0), valKey(fn, bind, call.Args[2], 0), "emit " + nospace(exprStr(call.Args[1])) + " " + nospace(exprStr(call.Args[2]))})
			case id == setLabelID && len(call.Args) == 1:
				items = append(items, tItem{"label", "", valKey(fn, bind, call.Args[0], 0), "label " + exprStr(call.Args[0])})
			default:
				cf := fn.CalleeFunc(call)
				if cf == nil || cf.Lit != nil || cf.Pkg != cgA.Pkg || !exprCalls(cf, cf.Body, emitID, setLabelID) {
					continue
				}
				if depth >= 1 {
					unknown = "the template is spread over nested helpers (" + cf.Key + ")"
					continue
				}
				b := map[types.Object]ast.Expr{}
				i := 0
				for _, fl := range cf.Type.Params.List {
					for _, nm := range fl.Names {
						if i < len(call.Args) {
							b[cf.Info().Defs[nm]] = call.Args[i]
						}
						i++
					}
					if len(fl.Names) == 0 {
						i++
					}
				}
				c.Analysed(cf)
				collect(cf, b, cf.Body.List, depth+1)
			}
		}
	}
	var argVar, jumpVar, cmpVar types.Object
	if rel == nil {
		c.Undecided("C01-R3", "template", "-", "the clause of the code generator's operator switch that lists the relational tokens was not found")
	} else {
		collect(cgA, nil, rel.cc.Body, 0)
		var seq []string
		for _, it := range items {
			seq = append(seq, it.text)
			if it.op == "?" || it.arg == "?" {
				unknown = "an operand of `" + it.text + "` is not a constant or a variable"
			}
		}
		isVar := func(k string) bool { return strings.HasPrefix(k, "var:") }
		match := len(items) == 7 &&
			items[0].kind == "emit" && isVar(items[0].arg) && (isVar(items[0].op) || has([]string{"op:Cmp", "op:Icmp", "op:Fcmp", "op:Scmp"}, items[0].op)) &&
			items[1].kind == "emit" && isVar(items[1].op) && isVar(items[1].arg) &&
			items[2].kind == "emit" && items[2].op == "op:Push" && items[2].arg == "bool:true" &&
			items[3].kind == "emit" && items[3].op == "op:Jmp" && isVar(items[3].arg) && items[3].arg != items[1].arg &&
			items[4].kind == "label" && items[4].arg == items[1].arg &&
			items[5].kind == "emit" && items[5].op == "op:Push" && items[5].arg == "bool:false" &&
			items[6].kind == "label" && items[6].arg == items[3].arg
		switch {
		case len(items) == 0:
			c.Undecided("C01-R3", "template", pos(c, rel.cc), "no emit/setLabel sequence found in the relational clause (or in a helper method it calls)")
		case match:
			argVar, jumpVar, cmpVar = objOf[items[0].arg], objOf[items[1].op], objOf[items[0].op]
			c.Ok("C01-R3", "template", pos(c, rel.cc), strings.Join(seq, "; "))
		case unknown != "":
			c.Undecided("C01-R3", "template", pos(c, rel.cc), unknown)
		default:
			c.Fail("C01-R3", "template", pos(c, rel.cc), "the comparison template is not [cmp; jump lFail; push true; jmp lEnd; lFail: push false; lEnd:] but "+strings.Join(seq, "; "))
		}
		// the variable compare instruction must range over compare opcodes only
		if cmpVar != nil {
			ast.Inspect(cgA.Body, func(n ast.Node) bool {
				var lhs, rhs []ast.Expr
				switch x := n.(type) {
				case *ast.AssignStmt:
					if len(x.Lhs) == len(x.Rhs) {
						lhs, rhs = x.Lhs, x.Rhs
					}
				case *ast.ValueSpec:
					if len(x.Names) == len(x.Values) {
						for _, nm := range x.Names {
							lhs = append(lhs, nm)
						}
						rhs = x.Values
					}
				}
				for i := range lhs {
					if identObj(info, lhs[i]) != cmpVar {
						continue
					}
					if op, ok := constOpcode(info, rhs[i]); !ok {
						c.Undecided("C01-R3", "template", pos(c, rhs[i]), "the compare instruction of the template is assigned a value that is not an opcode constant")
					} else if !has([]string{"Cmp", "Icmp", "Fcmp", "Scmp"}, op) {
						c.Fail("C01-R3", "template compare opcode", pos(c, rhs[i]), "the first instruction of the comparison template can be "+op+", which is not a compare instruction")
					}
				}
				return true
			})
		}
	}

	// ---- operand order in the VM: every compare opcode the template can emit hands (second pop, first pop) to its compare function
	cmpOps := map[string]bool{}
	if len(items) > 0 && strings.HasPrefix(items[0].op, "op:") {
		cmpOps[strings.TrimPrefix(items[0].op, "op:")] = true
	}
	if cmpVar != nil {
		ast.Inspect(cgA.Body, func(n ast.Node) bool {
			var lhs, rhs []ast.Expr
			switch x := n.(type) {
			case *ast.AssignStmt:
				if len(x.Lhs) == len(x.Rhs) {
					lhs, rhs = x.Lhs, x.Rhs
				}
			case *ast.ValueSpec:
				if len(x.Names) == len(x.Values) {
					for _, nm := range x.Names {
						lhs = append(lhs, nm)
					}
					rhs = x.Values
				}
			}
			for i := range lhs {
				if identObj(info, lhs[i]) == cmpVar {
					if op, ok := constOpcode(info, rhs[i]); ok {
						cmpOps[op] = true
					}
				}
			}
			return true
		})
	}
	for _, op := range sortedKeys(cmpOps) {
		vc := vm.Cases[op]
		key := "VM operand order " + op
		if vc == nil {
			c.Fail("C01-R3", key, "-", "the comparison template emits "+op+", which the VM does not handle")
			continue
		}
		if len(vc.Pops) != 2 || vc.Pops[0].Var == nil || vc.Pops[1].Var == nil {
			c.Undecided("C01-R3", key, pos(c, vm.F.Decl), "the case does not bind exactly two pops to variables")
			continue
		}
		first, second := vc.Pops[0].Var, vc.Pops[1].Var
		verdict, ncall := triU, 0
		var where ast.Node
		vm.inspectCase(vc, func(n ast.Node) bool {
			call, ok := n.(*ast.CallExpr)
			if !ok || len(call.Args) != 3 || !has([]string{"internal/runtime/vm.compare", "internal/runtime/vm.compareInt", "internal/runtime/vm.compareFloat", "internal/runtime/vm.compareString"}, vm.F.CalleeID(call)) {
				return true
			}
			ncall++
			where = call
			x, y := aliasObj(vi0(vm), defsOf(vm.F), call.Args[0]), aliasObj(vi0(vm), defsOf(vm.F), call.Args[1])
			switch {
			case x == second && y == first:
				verdict = triT
			case x == first && y == second:
				verdict = triF
			}
			return true
		})
		switch {
		case ncall == 1 && verdict == triT:
			c.Ok("C01-R3", key, pos(c, where), "compares (second pop, first pop)")
		case ncall == 1 && verdict == triF:
			c.Fail("C01-R3", key, pos(c, where), op+" hands (first pop, second pop) to its compare function: `a < b` evaluates b < a, every ordering comparison of that type is mirrored")
		default:
			c.Undecided("C01-R3", key, pos(c, vm.F.Decl), fmt.Sprintf("%d compare calls found in the case, or their arguments are not the popped variables", ncall))
		}
	}

	// ---- per-token (compare operand, jump opcode): the assignments to the template's two variables inside a clause for exactly that token
	type enc struct {
		arg  int64
		jump string
	}
	encs := map[string]*enc{}
	if rel != nil && argVar != nil && jumpVar != nil {
		for _, oc := range cls {
			if len(oc.toks) != 1 || len(oc.cc.List) != 1 || !isRel(oc.toks[0]) || !posWithin(rel.cc, oc.cc.Pos()) {
				continue
			}
			e := &enc{}
			na, nj := 0, 0
			ast.Inspect(oc.cc, func(n ast.Node) bool {
				as, ok := n.(*ast.AssignStmt)
				if !ok || len(as.Lhs) != len(as.Rhs) {
					return true
				}
				for i, l := range as.Lhs {
					switch identObj(info, l) {
					case argVar:
						na++
						if v, ok := constInt(info, as.Rhs[i]); ok {
							e.arg = v
						} else {
							na += 10
						}
					case jumpVar:
						nj++
						if op, ok := constOpcode(info, as.Rhs[i]); ok {
							e.jump = op
						} else {
							nj += 10
						}
					}
				}
				return true
			})
			if na == 1 && nj == 1 {
				encs[oc.toks[0]] = e
			} else {
				c.Undecided("C01-R3", oc.toks[0]+" encoding", pos(c, oc.cc), fmt.Sprintf("the clause for %s does not assign the template's compare operand and jump opcode exactly once each from constants", oc.toks[0]))
			}
		}
	}

	// ---- compare functions: operand value -> Go comparison of (first parameter, second parameter)
	swapped := map[token.Token]token.Token{token.LSS: token.GTR, token.GTR: token.LSS, token.LEQ: token.GEQ, token.GEQ: token.LEQ, token.EQL: token.EQL, token.NEQ: token.NEQ}
	cmpTab := map[string]map[int64]token.Token{}
	cmpComplete := map[string]bool{}
	for _, name := range []string{"compareInt", "compareFloat", "compareString"} {
		cf := c.Prog.Fn("internal/runtime/vm." + name)
		if cf == nil {
			c.Undecided("C01-R3", name, "-", "not found")
			continue
		}
		c.Analysed(cf)
		ci := cf.Info()
		var params []types.Object
		for _, fl := range cf.Type.Params.List {
			for _, nm := range fl.Names {
				params = append(params, ci.Defs[nm])
			}
		}
		tab := map[int64]token.Token{}
		complete := len(params) == 3
		if complete {
			pa, pb, pk := params[0], params[1], params[2]
			cdefs := defsOf(cf)
			isK := func(e ast.Expr) bool { return identObj(ci, throughDefs(ci, cdefs, e)) == pk }
			ast.Inspect(cf.Body, func(n ast.Node) bool {
				if _, isLit := n.(*ast.FuncLit); isLit {
					return false
				}
				r, ok := n.(*ast.ReturnStmt)
				if !ok {
					return true
				}
				if len(r.Results) < 1 {
					complete = false
					return true
				}
				res := throughDefs(ci, cdefs, r.Results[0])
				if v, isConst := constBool(ci, res); isConst && !v {
					return true // the error return
				}
				be, ok := res.(*ast.BinaryExpr)
				if !ok {
					complete = false
					return true
				}
				op, known := be.Op, false
				x, y := identObj(ci, throughDefs(ci, cdefs, be.X)), identObj(ci, throughDefs(ci, cdefs, be.Y))
				if _, isCmp := swapped[op]; isCmp {
					switch {
					case x == pa && y == pb:
						known = true
					case x == pb && y == pa:
						op, known = swapped[op], true
					}
				}
				if !known {
					complete = false
					return true
				}
				// the operand value under which this return is reached
				var k int64
				haveK := false
				var bestCC *ast.CaseClause
				ast.Inspect(cf.Body, func(m ast.Node) bool {
					sw, ok := m.(*ast.SwitchStmt)
					if !ok || sw.Tag == nil || !isK(sw.Tag) {
						return true
					}
					for _, cl := range sw.Body.List {
						cc := cl.(*ast.CaseClause)
						if posWithin(cc, r.Pos()) && (bestCC == nil || bestCC.Pos() <= cc.Pos()) {
							bestCC = cc
						}
					}
					return true
				})
				if bestCC != nil && len(bestCC.List) == 1 {
					if v, ok := constInt(ci, bestCC.List[0]); ok {
						k, haveK = v, true
					}
				}
				if !haveK {
					ifs := cf.EnclosingIfs(r.Pos())
					if len(ifs) > 0 {
						ic := ifs[len(ifs)-1]
						if cb, ok := core.Unparen(ic.If.Cond).(*ast.BinaryExpr); ok && cb.Op == token.EQL && ic.InThen {
							if v, ok := constInt(ci, cb.Y); ok && isK(cb.X) {
								k, haveK = v, true
							} else if v, ok := constInt(ci, cb.X); ok && isK(cb.Y) {
								k, haveK = v, true
							}
						}
					}
				}
				if !haveK {
					complete = false
					return true
				}
				if old, dup := tab[k]; dup && old != op {
					complete = false
				}
				tab[k] = op
				return true
			})
		}
		cmpTab[name] = tab
		cmpComplete[name] = complete
	}

	// ---- jump senses: under which value of the popped boolean does the case assign the program counter
	sense := map[string]string{} // "Jnm" -> "false" (jumps when value false); "?" = not recognised
	vi := vm.F.Info()
	vdefs := defsOf(vm.F)
	for _, j := range []string{"Jnm", "Jm"} {
		vc := vm.Cases[j]
		if vc == nil {
			continue
		}
		vm.inspectCase(vc, func(n ast.Node) bool {
			cc, ok := n.(*ast.CaseClause)
			if !ok || len(cc.List) != 1 {
				return true
			}
			if t := vi.TypeOf(cc.List[0]); t == nil || !types.Identical(t, types.Typ[types.Bool]) {
				return true
			}
			if tv, ok := vi.Types[cc.List[0]]; !ok || !tv.IsType() {
				return true
			}
			mObj := vi.Implicits[cc]
			ast.Inspect(cc, func(m ast.Node) bool {
				as, ok := m.(*ast.AssignStmt)
				if !ok {
					return true
				}
				isPC := false
				for _, l := range as.Lhs {
					if fld, recv, _ := selField(vi, l); fld == "pc" && strings.HasSuffix(recv, "vm.thread") {
						isPC = true
					}
				}
				if !isPC {
					return true
				}
				// does the assignment execute when the boolean is true / false?
				runs := func(val bool) tri {
					res := triT
					for _, ic := range vm.F.EnclosingIfs(as.Pos()) {
						if !posWithin(cc, ic.If.Pos()) {
							continue
						}
						v := evalCond(vi, vdefs, ic.If.Cond, func(e ast.Expr) tri {
							if mObj != nil && identObj(vi, e) == mObj {
								if val {
									return triT
								}
								return triF
							}
							return triU
						})
						if !ic.InThen {
							v = v.not()
						}
						switch v {
						case triF:
							return triF
						case triU:
							res = triU
						}
					}
					return res
				}
				onTrue, onFalse := runs(true), runs(false)
				s := "?"
				switch {
				case onTrue == triT && onFalse == triF:
					s = "true"
				case onTrue == triF && onFalse == triT:
					s = "false"
				case onTrue == triT && onFalse == triT:
					s = "either value"
				}
				if old, dup := sense[j]; dup && old != s {
					s = "?"
				}
				sense[j] = s
				return true
			})
			return true
		})
	}
	if sense["Jnm"] == "?" || sense["Jm"] == "?" || sense["Jnm"] == "" || sense["Jm"] == "" {
		c.Undecided("C01-R3", "jump senses", pos(c, vm.F.Decl), fmt.Sprintf("cannot tell under which boolean value Jnm (%q) / Jm (%q) assign the program counter: the bool clause of their type switch has a shape that is not evaluated", sense["Jnm"], sense["Jm"]))
	} else {
		c.Verdict(sense["Jnm"] == "false" && sense["Jm"] == "true", "C01-R3", "jump senses", pos(c, vm.F.Decl), "Jnm jumps on false, Jm on true", fmt.Sprintf("Jnm jumps when the value is %q and Jm when it is %q: conditions are inverted", sense["Jnm"], sense["Jm"]))
	}
	senseKnown := func(j string) bool { return sense[j] == "true" || sense[j] == "false" }

	evalOp := func(op token.Token, ord int) bool { // ord 0: a<b, 1: a==b, 2: a>b
		switch op {
		case token.LSS:
			return ord == 0
		case token.EQL:
			return ord == 1
		case token.GTR:
			return ord == 2
		case token.LEQ:
			return ord <= 1
		case token.GEQ:
			return ord >= 1
		case token.NEQ:
			return ord != 1
		}
		return false
	}
	var toks []string
	for t := range encs {
		toks = append(toks, t)
	}
	sort.Strings(toks)
	for _, t := range toks {
		e := encs[t]
		sp := spellOf[t]
		mean, known := meaning[sp]
		if !known {
			continue
		}
		for _, fn := range sortedKeys(cmpTab) {
			tab := cmpTab[fn]
			op, okOp := tab[e.arg]
			if !okOp && !cmpComplete[fn] {
				c.Undecided("C01-R3", t+" via "+fn, pos(c, cgA.Decl), fmt.Sprintf("%s has return statements of a shape that is not recognised: cannot tell what it computes for operand %d", fn, e.arg))
				continue
			}
			if !okOp {
				c.Fail("C01-R3", t+" via "+fn, pos(c, cgA.Decl), fmt.Sprintf("%s is compiled with compare operand %d which %s does not handle: every such comparison is a runtime error", sp, e.arg, fn))
				continue
			}
			if !senseKnown(e.jump) {
				c.Undecided("C01-R3", t+" via "+fn, pos(c, cgA.Decl), "the sense of "+e.jump+" is not known")
				continue
			}
			okAll := true
			var got [3]bool
			for ord := 0; ord < 3; ord++ {
				r := evalOp(op, ord)
				jumpTaken := (sense[e.jump] == "true") == r
				got[ord] = !jumpTaken
				if got[ord] != mean[ord] {
					okAll = false
				}
			}
			c.Verdict(okAll, "C01-R3", t+" via "+fn, pos(c, cgA.Decl), fmt.Sprintf("`%s`: cmp %d (%s), %s -> %v", sp, e.arg, op, e.jump, got), fmt.Sprintf("`a %s b` compiles to cmp %d (a %s b) followed by %s; on (a<b, a=b, a>b) that yields %v but the operator means %v", sp, e.arg, op, e.jump, got, mean))
		}
	}
}

func vi0(vm *vmTable) *types.Info { return vm.F.Info() }

// aliasObj resolves an identifier to the variable it names, following single-definition locals that are plain
// copies of another variable (`x := y`).
func aliasObj(info *types.Info, defs map[types.Object]ast.Expr, e ast.Expr) types.Object {
	o := identObj(info, e)
	for i := 0; i < 8 && o != nil; i++ {
		d, ok := defs[o]
		if !ok {
			break
		}
		id, isIdent := core.Unparen(d).(*ast.Ident)
		if !isIdent {
			break
		}
		if n := identObj(info, id); n != nil {
			o = n
		} else {
			break
		}
	}
	return o
}

func c01builtins(c *core.Check, vm *vmTable, cgA *core.Func) {
	sigs := builtinSignatures(c)
	_, byName, _ := mapLiteralOpcodes(c, "internal/runtime/compiler/codegen", "builtin")
	// lexer list
	var lex []string
	if pkg := c.Prog.Pkgs["internal/runtime/compiler/parser"]; pkg != nil {
		for _, file := range pkg.Syntax {
			ast.Inspect(file, func(n ast.Node) bool {
				vs, ok := n.(*ast.ValueSpec)
				if ok && len(vs.Names) == 1 && vs.Names[0].Name == "builtins" && len(vs.Values) == 1 {
					if cl, ok := vs.Values[0].(*ast.CompositeLit); ok {
						for _, el := range cl.Elts {
							lex = append(lex, strings.Trim(exprStr(el), `"`))
						}
					}
				}
				return true
			})
		}
	}
	sorted := sort.StringsAreSorted(lex)
	c.Verdict(sorted && len(lex) > 0, "C01-R4", "lexer builtins sorted", "-", "sorted (the lexer uses binary search)", "the lexer's builtin list is not sorted: sort.SearchStrings misses entries and the name lexes as an identifier")
	explicit := map[string]bool{}
	if cgA != nil {
		ast.Inspect(cgA.Body, func(n ast.Node) bool {
			if sw, ok := n.(*ast.SwitchStmt); ok && sw.Tag != nil {
				// a switch on the Name field of a BuiltinExpr (directly, through `switch name := n.Name; name`, or a single-definition local)
				gi := cgA.Info()
				var tag ast.Expr = sw.Tag
				if as, ok := sw.Init.(*ast.AssignStmt); ok && len(as.Lhs) == 1 && len(as.Rhs) == 1 && identObj(gi, tag) != nil && identObj(gi, as.Lhs[0]) == identObj(gi, tag) {
					tag = as.Rhs[0]
				}
				if fld, recv, _ := selField(gi, throughDefs(gi, defsOf(cgA), tag)); fld != "Name" || !strings.HasSuffix(recv, "compiler/ast.BuiltinExpr") {
					return true
				}
				for _, cl := range sw.Body.List {
					for _, e := range cl.(*ast.CaseClause).List {
						if tv, ok := gi.Types[e]; ok && tv.Value != nil && tv.Value.Kind() == constant.String {
							explicit[constant.StringVal(tv.Value)] = true
						}
					}
				}
			}
			return true
		})
	}
	names := map[string]bool{}
	for _, n := range lex {
		names[n] = true
	}
	for n := range sigs {
		names[n] = true
	}
	for n := range byName {
		names[n] = true
	}
	var all []string
	for n := range names {
		all = append(all, n)
	}
	sort.Strings(all)
	for _, n := range all {
		inLex, inTypes := has(lex, n), len(sigs[n]) > 0
		_, inMap := byName[n]
		inGen := inMap || explicit[n]
		if !(inLex && inTypes && inGen) {
			c.Fail("C01-R4", "builtin "+n, "-", fmt.Sprintf("builtin %s: lexer=%v, types.Builtins=%v, code generator=%v — the stages disagree about its existence", n, inLex, inTypes, inGen))
			continue
		}
		if inMap {
			op := byName[n][0]
			vc := vm.Cases[op]
			if vc == nil {
				c.Fail("C01-R4", "builtin "+n, "-", "builtin "+n+" maps to opcode "+op+" which the VM does not handle")
				continue
			}
			nparams := len(sigs[n]) - 1
			// pops on the longest path: count pops in the case (operand-gated pops included)
			npop := len(vc.Pops)
			okAr := npop >= nparams && !(nparams == 0 && npop > 0)
			if n == "strptime" {
				okAr = npop >= 2
			}
			c.Verdict(okAr, "C01-R4", "builtin "+n, pos(c, vm.F.Decl), fmt.Sprintf("%s -> %s, %d parameters, %d pops", n, op, nparams, npop), fmt.Sprintf("builtin %s takes %d arguments but its VM case %s pops %d values: the stack is corrupted", n, nparams, op, npop))
		} else {
			c.Ok("C01-R4", "builtin "+n, "-", "handled explicitly by the code generator")
		}
	}
}

func c01nodes(c *core.Check) {
	pkg := c.Prog.Pkgs["internal/runtime/compiler/ast"]
	wf := c.MustFn("C01-R6", "internal/runtime/compiler/ast.Walk")
	if pkg == nil || wf == nil {
		return
	}
	nodeIface, _ := pkg.Types.Scope().Lookup("Node").Type().Underlying().(*types.Interface)
	if nodeIface == nil {
		c.Undecided("C01-R6", "ast.Node", "-", "interface not found")
		return
	}
	// clauses of Walk
	walked := map[string]map[string]bool{} // type -> fields walked
	ast.Inspect(wf.Body, func(n ast.Node) bool {
		cc, ok := n.(*ast.CaseClause)
		if !ok {
			return true
		}
		for _, e := range cc.List {
			tn := astNodeTypeName(wf.Info(), e)
			if tn == "" {
				continue
			}
			if walked[tn] == nil {
				walked[tn] = map[string]bool{}
			}
			for _, fld := range walkedFields(wf, cc, tn, "internal/runtime/compiler/ast.Walk", "internal/runtime/compiler/ast.walknodelist") {
				walked[tn][fld] = true
			}
		}
		return true
	})
	explicitWalk := func(fkey, typ, field string) bool {
		f := c.Prog.Fn(fkey)
		if f == nil {
			return false
		}
		found := false
		ast.Inspect(f.Body, func(n ast.Node) bool {
			cc, ok := n.(*ast.CaseClause)
			if !ok {
				return true
			}
			for _, e := range cc.List {
				if isASTNodeType(f.Info(), e, typ) {
					if has(walkedFields(f, cc, typ, "internal/runtime/compiler/ast.Walk"), field) {
						found = true
					}
				}
			}
			return true
		})
		return found
	}
	sc := pkg.Types.Scope()
	for _, name := range sc.Names() {
		tn, ok := sc.Lookup(name).(*types.TypeName)
		if !ok {
			continue
		}
		st, ok := tn.Type().Underlying().(*types.Struct)
		if !ok || !types.Implements(types.NewPointer(tn.Type()), nodeIface) {
			continue
		}
		fields, listed := walked[name]
		if !listed && name == "Error" {
			// reasoned exception, itself checked: ast.Error is built only for the INVALID token, and the
			// parser driver records an error whenever it returns INVALID, so Parse fails and the tree is never walked
			okExc := false
			if lx := c.Prog.Fn("internal/runtime/compiler/parser.(*parser).Lex"); lx != nil {
				c.Analysed(lx)
				lg := lx.Graph()
				var rets []core.Point
				for _, e := range normalExits(lg) {
					if e.Kind == "return" && len(e.Ret.Results) == 1 && constName(lx.Info(), e.Ret.Results[0]) == "INVALID" {
						rets = append(rets, e.P)
					}
				}
				errs := lg.Calls(func(id string, _ *ast.CallExpr) bool { return strings.HasSuffix(id, "(*parser).Error") })
				_, found := pathAvoiding(lg, nil, rets, core.HitPoints(errs))
				okExc = len(rets) > 0 && !found
			}
			nlit := 0
			for _, sf := range shipped(c) {
				ast.Inspect(sf.Body, func(n ast.Node) bool {
					if cl, ok := n.(*ast.CompositeLit); ok && strings.HasSuffix(typeStr(sf.Info().TypeOf(cl)), "ast.Error") {
						nlit++
						if !strings.HasSuffix(sf.Key, "mtailParserImpl).Parse") {
							okExc = false
						}
					}
					return true
				})
			}
			c.Verdict(okExc && nlit == 1, "C01-R6", "node Error", "-", "never walked: built only by the grammar for INVALID, and every INVALID the driver returns is preceded by a recorded parse error", "ast.Walk has no case for *ast.Error and it can reach a walk: built outside the INVALID production, or the driver can return INVALID without recording an error")
			continue
		}
		if !listed {
			c.Fail("C01-R6", "node "+name, "-", "ast.Walk has no case for *ast."+name+": walking a program containing it panics")
			continue
		}
		var missing []string
		for i := 0; i < st.NumFields(); i++ {
			fl := st.Field(i)
			ts := fl.Type().String()
			if name == "PatternFragment" && fl.Name() == "ID" {
				// the name being defined, not a use: the checker reads it in its own clause instead of walking it
				if refersTo(c, checkerBefore, "PatternFragment", "ID") {
					continue
				}
			}
			if strings.HasSuffix(ts, "ast.Node") && !fields[fl.Name()] {
				if explicitWalk(checkerBefore, name, fl.Name()) || explicitWalk(checkerAfter, name, fl.Name()) {
					if explicitWalk(codegenBefore, name, fl.Name()) || explicitWalk(codegenAfter, name, fl.Name()) {
						continue
					}
				}
				missing = append(missing, fl.Name())
			}
		}
		c.Verdict(len(missing) == 0, "C01-R6", "node "+name, "-", "every child field is walked", "child field(s) "+strings.Join(missing, ", ")+" of *ast."+name+" are not walked (neither by ast.Walk nor explicitly by checker and code generator): that sub-tree is never checked or compiled")
	}
}

func c01cond(c *core.Check, cgB *core.Func) {
	info := cgB.Info()
	defs := defsOf(cgB)
	const emitID = "internal/runtime/compiler/codegen.(*codegen).emit"
	const setLabelID = "internal/runtime/compiler/codegen.(*codegen).setLabel"
	const walkID = "internal/runtime/compiler/ast.Walk"
	var clause *ast.CaseClause
	ast.Inspect(cgB.Body, func(n ast.Node) bool {
		if cc, ok := n.(*ast.CaseClause); ok && len(cc.List) == 1 && isASTNodeType(info, cc.List[0], "CondStmt") {
			if tv, ok := info.Types[cc.List[0]]; ok && tv.IsType() {
				clause = cc
			}
		}
		return true
	})
	if clause == nil {
		c.Undecided("C01-R8", "CondStmt clause", "-", "not found")
		return
	}
	g := cgB.Graph()
	inCl := func(hs []core.Hit) []core.Hit { return inside(hs, clause) }
	emitOf := func(call *ast.CallExpr) (op string, operand ast.Expr, ok bool) {
		if len(call.Args) != 3 {
			return "", nil, false
		}
		op, ok = constOpcode(info, throughDefs(info, defs, call.Args[1]))
		return op, call.Args[2], ok
	}
	setMatched := func(want bool) []core.Hit {
		return inCl(g.Calls(func(id string, call *ast.CallExpr) bool {
			if id != emitID {
				return false
			}
			op, operand, ok := emitOf(call)
			if !ok || op != "Setmatched" {
				return false
			}
			v, isConst := constBool(info, throughDefs(info, defs, operand))
			return isConst && v == want
		}))
	}
	// the child block a Walk call descends into: the CondStmt field its argument denotes
	childOf := func(call *ast.CallExpr) string {
		if len(call.Args) < 2 {
			return ""
		}
		if fld, recv, _ := selField(info, throughDefs(info, defs, call.Args[1])); strings.HasSuffix(recv, "compiler/ast.CondStmt") {
			return fld
		}
		return ""
	}
	walks := inCl(g.CallsTo(walkID))
	setFalse, setTrue := setMatched(false), setMatched(true)
	// a Setmatched emit whose operand is not a constant cannot be classified
	for _, h := range inCl(g.CallsTo(emitID)) {
		call := h.N.(*ast.CallExpr)
		if op, operand, ok := emitOf(call); ok && op == "Setmatched" {
			if _, isConst := constBool(info, throughDefs(info, defs, operand)); !isConst {
				c.Undecided("C01-R8", "CondStmt Setmatched operand", pos(c, call), "Setmatched is emitted with an operand that is not a boolean constant")
			}
		}
	}
	jumps := inCl(g.Calls(func(id string, call *ast.CallExpr) bool {
		if id != emitID {
			return false
		}
		op, _, ok := emitOf(call)
		return ok && (op == "Jmp" || op == "Jnm")
	}))
	labels := inCl(g.CallsTo(setLabelID))
	var truthWalks, elseWalks []core.Hit
	for _, w := range walks {
		call := w.N.(*ast.CallExpr)
		fld := childOf(call)
		switch fld {
		case "Truth":
			truthWalks = append(truthWalks, w)
		case "Else":
			elseWalks = append(elseWalks, w)
		default:
			continue
		}
		child := "n." + fld // stable key: the clause variable is named by its role, whatever it is called in the source
		// every path from the clause start to this walk must pass a Setmatched false after the last preceding walk/label
		var barriers []core.Point
		for _, o := range walks {
			if o.N != w.N {
				barriers = append(barriers, o.P)
			}
		}
		barriers = append(barriers, core.HitPoints(labels)...)
		bad := false
		var tr []string
		for _, b := range barriers {
			from := b
			if t, found := pathAvoiding(g, &from, []core.Point{w.P}, append(core.HitPoints(setFalse), without(barriers, b)...)); found {
				bad, tr = true, t
			}
		}
		if _, found := pathAvoiding(g, nil, []core.Point{w.P}, append(core.HitPoints(setFalse), barriers...)); found && len(barriers) == 0 {
			bad = true
		}
		c.Verdict(!bad, "C01-R8", "CondStmt block "+child+" starts unmatched", pos(c, call), "Setmatched false precedes the block", "the "+fld+" block of a conditional is entered without clearing the matched flag: an `otherwise` inside it sees matches made in the enclosing scope (or in the condition's own scope) and does not fire", tr...)
	}
	// Setmatched true only after Truth: on every path to it the truth block has been walked, and it never follows the else block
	for _, st := range setTrue {
		_, noTruth := pathAvoiding(g, nil, []core.Point{st.P}, core.HitPoints(truthWalks))
		afterElse := false
		for _, w := range elseWalks {
			from := w.P
			if _, found := pathAvoiding(g, &from, []core.Point{st.P}, nil); found {
				afterElse = true
			}
		}
		c.Verdict(len(truthWalks) > 0 && !noTruth && !afterElse, "C01-R8", "CondStmt Setmatched true", pos(c, st.N), "after the truth block, before the else block", "the matched flag is set true at the wrong place")
	}
	// jump targets: Jnm goes to a label set after the truth block and before the else block; Jmp goes to a label set after both
	labelObj := func(e ast.Expr) types.Object { return aliasObj(info, defs, e) }
	setPoints := func(o types.Object) []core.Point {
		var ps []core.Point
		for _, l := range labels {
			if call := l.N.(*ast.CallExpr); len(call.Args) == 1 && labelObj(call.Args[0]) == o && o != nil {
				ps = append(ps, l.P)
			}
		}
		return ps
	}
	reaches := func(from core.Point, to []core.Point) bool {
		_, found := pathAvoiding(g, &from, to, nil)
		return found
	}
	for _, j := range jumps {
		call := j.N.(*ast.CallExpr)
		op, operand, _ := emitOf(call)
		lo := labelObj(operand)
		sets := setPoints(lo)
		key := "CondStmt " + op + " target"
		if lo == nil || len(sets) == 0 {
			c.Undecided("C01-R8", key, pos(c, call), "the jump's label is not a variable passed to setLabel in this clause")
			continue
		}
		bad := ""
		for _, sp := range sets {
			beforeTruth := false
			for _, w := range truthWalks {
				if reaches(sp, []core.Point{w.P}) {
					beforeTruth = true
				}
			}
			beforeElse := reaches(sp, core.HitPoints(elseWalks))
			afterElse := false
			for _, w := range elseWalks {
				if reaches(w.P, []core.Point{sp}) {
					afterElse = true
				}
			}
			switch {
			case beforeTruth:
				bad = "its label is set before the truth block: the jump re-enters the truth block"
			case op == "Jnm" && afterElse:
				bad = "a false condition jumps past the else block: the else block never runs"
			case op == "Jmp" && beforeElse:
				bad = "after the truth block control jumps to the start of the else block: both blocks run"
			}
		}
		if op == "Jmp" {
			// the jump over the else block ends the truth path: no label of the clause may be set before it
			for _, l := range labels {
				if reaches(l.P, []core.Point{j.P}) {
					bad = "it is emitted after a label has been set: a false condition lands on the jump and skips the else block"
				}
			}
		}
		c.Verdict(bad == "", "C01-R8", key, pos(c, call), "label placed "+pick(op == "Jnm", "between the truth and else blocks", "after both blocks"), op+" in the conditional has the wrong target — "+bad)
	}
	c.Verdict(len(jumps) >= 2 && len(setTrue) == 1, "C01-R8", "CondStmt shape", pos(c, clause), "jnm to else, jmp over else, one Setmatched true", "the conditional no longer has the shape [cond; jnm else; truth; setmatched true; jmp end; else:; …; end:]")
}

// tableSlotsTyped checks that every assignment to PatternExpr.Index / a metric symbol's Addr is the index of an
// element appended at that moment.  Same rule and obligation keys as tableSlots (c04.go), with every name resolved:
// the table is whatever expression S denotes the Regexps / Metrics field of a code.Object, the index must be
// len(S)-1 just after `S = append(S, …)` (Regexps) or len(S) just before it (Metrics), on the same access path S;
// definitions of single-definition locals between the two statements are skipped and read through.
func tableSlotsTyped(c *core.Check, rule string) {
	tableOf := func(f *core.Func, e ast.Expr, field string) (string, bool) {
		fld, recv, _ := selField(f.Info(), e)
		if fld != field || !strings.HasSuffix(recv, "runtime/code.Object") {
			return "", false
		}
		return core.PathOf(e), true
	}
	lenOf := func(f *core.Func, e ast.Expr, field string) (string, bool) {
		call, ok := core.Unparen(e).(*ast.CallExpr)
		if !ok || len(call.Args) != 1 || f.CalleeID(call) != "builtin.len" {
			return "", false
		}
		return tableOf(f, throughDefs(f.Info(), defsOf(f), call.Args[0]), field)
	}
	appendTo := func(f *core.Func, st ast.Stmt, path, field string) bool {
		as, ok := st.(*ast.AssignStmt)
		if !ok || len(as.Lhs) != 1 || len(as.Rhs) != 1 {
			return false
		}
		if p, ok := tableOf(f, as.Lhs[0], field); !ok || p != path {
			return false
		}
		call, ok := core.Unparen(as.Rhs[0]).(*ast.CallExpr)
		if !ok || len(call.Args) < 2 || f.CalleeID(call) != "builtin.append" {
			return false
		}
		p, ok := tableOf(f, call.Args[0], field)
		return ok && p == path
	}
	isLocalDef := func(f *core.Func, st ast.Stmt) bool {
		as, ok := st.(*ast.AssignStmt)
		if !ok || as.Tok != token.DEFINE {
			return false
		}
		for _, l := range as.Lhs {
			if _, single := defsOf(f)[identObj(f.Info(), l)]; !single {
				return false
			}
		}
		return true
	}
	for _, k := range c.Prog.SortedFuncKeys() {
		f := c.Prog.Funcs[k]
		if f.Lit != nil || c.Prog.IsTestSupport(f) {
			continue
		}
		info := f.Info()
		ast.Inspect(f.Body, func(n ast.Node) bool {
			var list []ast.Stmt
			switch b := n.(type) {
			case *ast.BlockStmt:
				list = b.List
			case *ast.CaseClause:
				list = b.Body
			}
			for i, st := range list {
				as, ok := st.(*ast.AssignStmt)
				if !ok || len(as.Lhs) != 1 || len(as.Rhs) != 1 {
					continue
				}
				fld, recvT, _ := selField(info, as.Lhs[0])
				if fld == "" {
					continue
				}
				rhs := throughDefs(info, defsOf(f), as.Rhs[0])
				rhsText := nospace(exprStr(as.Rhs[0]))
				prev, next := i-1, i+1
				for prev >= 0 && isLocalDef(f, list[prev]) {
					prev--
				}
				for next < len(list) && isLocalDef(f, list[next]) {
					next++
				}
				switch {
				case fld == "Index" && strings.HasSuffix(recvT, "ast.PatternExpr"):
					c.Analysed(f)
					okSlot := false
					if be, ok := rhs.(*ast.BinaryExpr); ok && be.Op == token.SUB {
						if one, isC := constInt(info, be.Y); isC && one == 1 {
							if path, ok := lenOf(f, be.X, "Regexps"); ok {
								okSlot = prev >= 0 && appendTo(f, list[prev], path, "Regexps")
							}
						}
					}
					c.Verdict(okSlot, rule, f.Key+"|PatternExpr.Index", pos(c, as), "fresh slot", "a pattern's regexp index is not the index of a regexp appended for it at that moment ("+rhsText+"): it may be out of range or shared with another pattern, whose capture groups it then overwrites")
				case fld == "Addr" && strings.HasSuffix(recvT, "symbol.Symbol"):
					c.Analysed(f)
					if core.Rel(f.Pkg.PkgPath) == "internal/runtime/compiler/codegen" {
						okSlot := false
						if path, ok := lenOf(f, rhs, "Metrics"); ok {
							okSlot = next < len(list) && appendTo(f, list[next], path, "Metrics")
						}
						c.Verdict(okSlot, rule, f.Key+"|Symbol.Addr", pos(c, as), "index of the metric appended next", "a metric symbol's address is not the index at which its metric is appended ("+rhsText+")")
					} else {
						c.Ok(rule, f.Key+"|Symbol.Addr", pos(c, as), "capture-group number assigned by the checker; the VM bounds-checks it (R5)")
					}
				}
			}
			return true
		})
	}
}

func without(ps []core.Point, p core.Point) []core.Point {
	var out []core.Point
	for _, x := range ps {
		if x != p {
			out = append(out, x)
		}
	}
	return out
}

// walkedFields lists the fields of *ast.<typ> that the statements of clause cc hand to one of the given walk
// functions: `Walk(v, n.F)`, through a single-definition local (`x := n.F; Walk(v, x)`, also in an if header),
// as the element of a range over the field (`for _, x := range n.F { Walk(v, x) }`) or as an indexed element (`n.F[i]`).
func walkedFields(f *core.Func, cc *ast.CaseClause, typ string, walkIDs ...string) []string {
	info := f.Info()
	defs := defsOf(f)
	rangeOf := map[types.Object]ast.Expr{}
	ast.Inspect(cc, func(n ast.Node) bool {
		if rs, ok := n.(*ast.RangeStmt); ok && rs.Value != nil {
			if o := identObj(info, rs.Value); o != nil {
				rangeOf[o] = rs.X
			}
		}
		return true
	})
	var fieldName func(e ast.Expr, depth int) string
	fieldName = func(e ast.Expr, depth int) string {
		e = throughDefs(info, defs, e)
		if depth > 4 {
			return ""
		}
		if fld, recv, _ := selField(info, e); fld != "" && strings.HasSuffix(recv, "compiler/ast."+typ) {
			return fld
		}
		switch x := e.(type) {
		case *ast.Ident:
			if r, ok := rangeOf[identObj(info, x)]; ok {
				return fieldName(r, depth+1)
			}
		case *ast.IndexExpr:
			return fieldName(x.X, depth+1)
		}
		return ""
	}
	var out []string
	ast.Inspect(cc, func(m ast.Node) bool {
		call, ok := m.(*ast.CallExpr)
		if !ok || len(call.Args) < 2 || !has(walkIDs, f.CalleeID(call)) {
			return true
		}
		if fld := fieldName(call.Args[1], 0); fld != "" {
			out = append(out, fld)
		}
		return true
	})
	return out
}

// refersTo reports whether the clause for *ast.<typ> in function fkey mentions n.<field>.
func refersTo(c *core.Check, fkey, typ, field string) bool {
	f := c.Prog.Fn(fkey)
	if f == nil {
		return false
	}
	found := false
	ast.Inspect(f.Body, func(n ast.Node) bool {
		cc, ok := n.(*ast.CaseClause)
		if !ok {
			return true
		}
		for _, e := range cc.List {
			if isASTNodeType(f.Info(), e, typ) {
				ast.Inspect(cc, func(m ast.Node) bool {
					if sel, ok := m.(*ast.SelectorExpr); ok {
						if fld, recv, _ := selField(f.Info(), sel); fld == field && strings.HasSuffix(recv, "compiler/ast."+typ) {
							found = true
						}
					}
					return true
				})
			}
		}
		return true
	})
	return found
}
