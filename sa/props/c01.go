package props

import (
	"bytes"
	"fmt"
	"go/ast"
	"go/parser"
	"go/printer"
	"go/token"
	"go/types"
	"os"
	"os/exec"
	"path/filepath"
	"sort"
	"strings"

	"golang.org/x/tools/go/ast/astutil"

	"verif/sa/core"
)

func init() { register("C01", c01) }

const (
	checkerAfter  = "internal/runtime/compiler/checker.(*checker).VisitAfter"
	checkerBefore = "internal/runtime/compiler/checker.(*checker).VisitBefore"
	codegenAfter  = "internal/runtime/compiler/codegen.(*codegen).VisitAfter"
	lexProgKey    = "internal/runtime/compiler/parser.lexProg"
)

// lexerTrie extracts spelling -> token from lexProg's character switch.
func lexerTrie(f *core.Func) map[string][]string {
	out := map[string][]string{}
	info := f.Info()
	charOf := func(e ast.Expr) (string, bool) {
		// `r == 'c'` or `'c'`
		if be, ok := core.Unparen(e).(*ast.BinaryExpr); ok && be.Op == token.EQL {
			e = be.Y
		}
		if tv, ok := info.Types[e]; ok && tv.Value != nil {
			if bl, ok := core.Unparen(e).(*ast.BasicLit); ok && bl.Kind == token.CHAR {
				s := bl.Value
				if len(s) == 3 {
					return string(s[1]), true
				}
			}
		}
		return "", false
	}
	emitsOf := func(body []ast.Stmt) []string {
		var toks []string
		for _, st := range body {
			if _, isSw := st.(*ast.SwitchStmt); isSw {
				continue
			}
			ast.Inspect(st, func(n ast.Node) bool {
				if call, ok := n.(*ast.CallExpr); ok && strings.HasSuffix(f.CalleeID(call), "(*Lexer).emit") && len(call.Args) == 1 {
					toks = append(toks, exprStr(call.Args[0]))
				}
				return true
			})
		}
		return toks
	}
	var walk func(sw *ast.SwitchStmt, prefix string)
	walk = func(sw *ast.SwitchStmt, prefix string) {
		for _, cl := range sw.Body.List {
			cc := cl.(*ast.CaseClause)
			var chars []string
			if cc.List == nil {
				chars = []string{""} // default: the prefix alone
			}
			for _, e := range cc.List {
				if ch, ok := charOf(e); ok {
					chars = append(chars, ch)
				}
			}
			for _, ch := range chars {
				sp := prefix + ch
				hasInner := false
				for _, st := range cc.Body {
					if inner, ok := st.(*ast.SwitchStmt); ok {
						hasInner = true
						walk(inner, sp)
					}
				}
				if !hasInner || ch == "" {
					for _, t := range emitsOf(cc.Body) {
						if sp != "" {
							out[sp] = append(out[sp], t)
						}
					}
				}
			}
		}
	}
	for _, st := range f.Body.List {
		if sw, ok := st.(*ast.SwitchStmt); ok {
			walk(sw, "")
		}
	}
	return out
}

// caseTokens collects, for a `switch n.Op` found inside the clause for the given AST type in f, the parser tokens of each case and whether a default exists.
func opSwitchTokens(f *core.Func, nodeType string) (toks map[string]bool, ok bool) {
	toks = map[string]bool{}
	ast.Inspect(f.Body, func(n ast.Node) bool {
		cc, isCC := n.(*ast.CaseClause)
		if !isCC {
			return true
		}
		match := false
		for _, e := range cc.List {
			if exprStr(e) == "*ast."+nodeType {
				match = true
			}
		}
		if !match {
			return true
		}
		ast.Inspect(cc, func(m ast.Node) bool {
			sw, isSw := m.(*ast.SwitchStmt)
			if !isSw || sw.Tag == nil || !strings.HasSuffix(exprStr(sw.Tag), ".Op") {
				return true
			}
			ok = true
			for _, cl := range sw.Body.List {
				for _, e := range cl.(*ast.CaseClause).List {
					if sel, isSel := e.(*ast.SelectorExpr); isSel && exprStr(sel.X) == "parser" {
						toks[sel.Sel.Name] = true
					}
				}
			}
			return true
		})
		return false
	})
	return
}

var goOpOf = map[string]string{"+": "+", "-": "-", "*": "*", "/": "/", "%": "%", "<<": "<<", ">>": ">>", "&": "&", "|": "|", "^": "^"}

func c01(c *core.Check) {
	c.Explain = "Whole-property equality with the language reference is out of reach statically; this check decides the internal agreement of the compiler pipeline, every clause of which is necessary for C01, from /repo's current source: (R1) the committed parser.go is what goyacc generates from parser.y (so grammar-level facts are facts about the compiled parser) with no conflicts; (R2) every operator token is spelled once in the lexer, typed by the checker, handled by the code generator, and for arithmetic/bitwise operators the VM opcode selected computes the Go operator with that spelling on (second pop, first pop); (R3) the emitted comparison templates, evaluated with the VM's compare functions and jump senses on the three orderings a<b, a=b, a>b, equal the meaning of the operator's spelling; (R4) the builtin tables of lexer, type checker, code generator and VM agree in name, opcode and arity; (R5) every opcode the generator can emit has a VM case; (R6) ast.Walk handles every node type and walks every child field; (R7) after a runtime error is raised no datum or metric is modified in that instruction; (R8) every block a conditional opens starts with the matched flag cleared. Not decided: numeric results, regexp semantics, type inference soundness."
	c.Assume = append(c.Assume, "goyacc v0.29.0 (built from the module cache) is the generator", "Go operators on int64/float64 are the reference semantics of the same-spelled mtail operators")
	vm := extractVM(c)
	emits, _ := extractEmits(c)
	if vm == nil {
		c.Undecided("C01-R5", vmExecute, "-", "VM table not extracted")
		return
	}

	// ---- R1
	c.Rule("C01-R1", "GENERATED: goyacc on /repo's parser.y reports no conflicts and produces a parser.go whose declarations equal the committed file's, ignoring comments and the element type of the table arrays")
	c01grammar(c)

	// ---- R2
	c.Rule("C01-R2", "OPERATORS: for each token T in the checker's BinaryExpr/UnaryExpr operator switches: the lexer emits T for exactly one spelling; the code generator has a case for T; for + - * / % << >> & | ^ the int opcode's VM push expression is `a <spelling> b`, for float + - * / likewise, % is math.Mod(a, b) and ** is math.Pow")
	lf := c.MustFn("C01-R2", lexProgKey)
	ca := c.MustFn("C01-R2", checkerAfter)
	cgA := c.MustFn("C01-R2", codegenAfter)
	cgB := c.MustFn("C01-R2", codegenBefore)
	if lf != nil && ca != nil && cgA != nil && cgB != nil {
		trie := lexerTrie(lf)
		spellOf := map[string][]string{}
		for sp, ts := range trie {
			for _, t := range ts {
				spellOf[t] = append(spellOf[t], sp)
			}
		}
		c.Extra["lexer_spellings"] = len(trie)
		binC, ok1 := opSwitchTokens(ca, "BinaryExpr")
		unC, ok2 := opSwitchTokens(ca, "UnaryExpr")
		binGA, _ := opSwitchTokens(cgA, "BinaryExpr")
		binGB, _ := opSwitchTokens(cgB, "BinaryExpr")
		unGA, _ := opSwitchTokens(cgA, "UnaryExpr")
		if !ok1 || !ok2 {
			c.Undecided("C01-R2", "checker operator switches", "-", "not found")
		}
		_, _, typed := mapLiteralOpcodes(c, "internal/runtime/compiler/codegen", "typedOperators")
		directOp := map[string]string{}
		for _, es := range emits {
			if es.Call != nil && len(es.Ops) == 1 {
				for _, t := range enclosingCaseTokens(es.F, es.Call) {
					if len(enclosingCaseTokens(es.F, es.Call)) == 1 {
						directOp[t] = es.Ops[0]
					}
				}
			}
		}
		var toks []string
		for t := range binC {
			toks = append(toks, "B:"+t)
		}
		for t := range unC {
			toks = append(toks, "U:"+t)
		}
		sort.Strings(toks)
		for _, kt := range toks {
			kind, t := kt[:1], kt[2:]
			key := map[string]string{"B": "binary ", "U": "unary "}[kind] + t
			sps := uniq(spellOf[t])
			if len(sps) != 1 {
				c.Fail("C01-R2", key+"|spelling", pos(c, lf.Decl), fmt.Sprintf("token %s is emitted for %d spellings %v: the operator cannot be written, or two spellings mean the same operator", t, len(sps), sps))
				continue
			}
			sp := sps[0]
			handled := (kind == "B" && (binGA[t] || binGB[t])) || (kind == "U" && unGA[t])
			if kind == "U" && t == "NOT" {
				handled = unGA[t]
			}
			if kind == "B" && t == "NOT" {
				// NOT appears in the checker's binary bitwise list only as a type class; unary in the grammar
				continue
			}
			c.Verdict(handled, "C01-R2", key+"|codegen", pos(c, cgA.Decl), "spelled `"+sp+"`, handled by the code generator", "operator "+t+" (`"+sp+"`) is typed by the checker but the code generator has no case for it: every program using it fails with an internal compiler error")
			if kind != "B" {
				continue
			}
			goOp, isArith := goOpOf[sp]
			if !isArith && sp != "**" {
				continue
			}
			for _, cls := range []string{"Int", "Float"} {
				opc := typed[t][cls]
				if opc == "" && cls == "Int" {
					opc = directOp[t]
				}
				if opc == "" {
					continue
				}
				vc := vm.Cases[opc]
				if vc == nil || len(vc.Pops) < 2 || len(vc.Pushes) == 0 || vc.Pops[0].Var == nil || vc.Pops[1].Var == nil {
					c.Undecided("C01-R2", key+"|vm "+opc, "-", "VM case shape not recognised")
					continue
				}
				got := nospace(renameIdents(vm.F, vc.Pushes[len(vc.Pushes)-1].Expr, map[types.Object]string{vc.Pops[1].Var: "a", vc.Pops[0].Var: "b"}))
				var want []string
				switch {
				case sp == "**" && cls == "Float":
					want = []string{"math.Pow(a,b)"}
				case sp == "**" && cls == "Int":
					want = []string{"int64(math.Pow(float64(a),float64(b)))"}
				case sp == "%" && cls == "Float":
					want = []string{"math.Mod(a,b)"}
				case (sp == "<<" || sp == ">>") && cls == "Int":
					want = []string{"a" + goOp + "uint(b)", "a" + goOp + "b", "a" + goOp + "uint64(b)"}
				default:
					want = []string{"a" + goOp + "b"}
				}
				c.Verdict(has(want, got), "C01-R2", key+"|vm "+opc, pos(c, vc.Pushes[len(vc.Pushes)-1].Call), "`"+sp+"` -> "+t+" -> "+opc+" -> "+got, fmt.Sprintf("operator `%s` compiles to %s, whose VM case computes %s with a = second pop, b = first pop; the operator means %s", sp, opc, got, want[0]))
			}
		}
	}
	c.Floor("C01-R2", 40)

	// ---- R3
	c.Rule("C01-R3", "COMPARISONS: for each relational token the template [cmp cmpArg; jumpOp lFail; push true; jmp lEnd; lFail: push false] evaluated with compareInt/compareFloat/compareString and the jump senses of Jnm/Jm yields, on a<b, a=b, a>b, the truth table of the operator's spelling")
	if lf != nil && cgA != nil {
		c01comparisons(c, lf, cgA, vm)
	}
	c.Floor("C01-R3", 18)

	// ---- R4
	c.Rule("C01-R4", "BUILTINS: lexer builtins = keys of types.Builtins = names the code generator handles (builtin map and explicit cases); each mapped opcode has a VM case; the declared parameter count is consistent with the pops of that case")
	c01builtins(c, vm, cgA)
	c.Floor("C01-R4", 12)

	// ---- R5
	c.Rule("C01-R5", "OPCODES: every opcode constant is handled by vm.execute or never emitted; every emitted opcode is handled; vm.execute has a default that raises a runtime error")
	emitted := map[string]bool{}
	for _, es := range emits {
		for _, op := range es.Ops {
			emitted[op] = true
		}
	}
	if pkg := c.Prog.Pkgs["internal/runtime/code"]; pkg != nil {
		var ops []string
		sc := pkg.Types.Scope()
		for _, name := range sc.Names() {
			if cn, ok := sc.Lookup(name).(*types.Const); ok && strings.HasSuffix(cn.Type().String(), "code.Opcode") && cn.Exported() {
				ops = append(ops, name)
			}
		}
		for _, op := range ops {
			_, handled := vm.Cases[op]
			switch {
			case handled:
				c.Ok("C01-R5", "opcode "+op, "-", pick(emitted[op], "emitted and handled", "handled, not emitted"))
			case emitted[op]:
				c.Fail("C01-R5", "opcode "+op, "-", "opcode "+op+" is emitted by the code generator but vm.execute has no case for it")
			default:
				c.Note("C01-R5", "opcode "+op, "-", "neither emitted nor handled")
			}
		}
		c.Extra["opcodes"] = len(ops)
	}
	c.Verdict(vm.HasDef, "C01-R5", "execute default", pos(c, vm.F.Decl), "unknown opcodes raise a runtime error", "vm.execute has no default clause: an unknown opcode is silently skipped")
	c.Floor("C01-R5", 55)

	// ---- R6
	c.Rule("C01-R6", "NODES: ast.Walk's type switch lists every type of package ast that implements Node, and for every field of type Node or []Node of such a type the clause walks it — or, for fields the generic walk leaves out, checker and code generator walk it explicitly")
	c01nodes(c)
	c.Floor("C01-R6", 24)

	// ---- R7
	c.Rule("C01-R7", "ERROR-ABORTS-REST: in vm.execute no path from a call of errorf reaches a call that modifies a datum or a metric (datum.Set*/Inc*/Dec*/Observe, Metric.GetDatum/RemoveDatum/ExpireDatum); errorf stops the line (C25-R3) and ProcessLogLine returns without undoing earlier effects")
	if exe := vm.F; exe != nil {
		g := exe.Graph()
		errs := g.CallsTo(vmErrorf)
		muts := g.Calls(func(id string, _ *ast.CallExpr) bool {
			switch {
			case strings.HasPrefix(id, "internal/metrics/datum.Set"), strings.HasPrefix(id, "internal/metrics/datum.Inc"), strings.HasPrefix(id, "internal/metrics/datum.Dec"), id == "internal/metrics/datum.Observe":
				return true
			case id == "internal/metrics.(*Metric).GetDatum", id == "internal/metrics.(*Metric).RemoveDatum", id == "internal/metrics.(*Metric).ExpireDatum":
				return true
			}
			return false
		})
		bad := 0
		for i, e := range errs {
			from := e.P
			if tr, found := pathAvoiding(g, &from, core.HitPoints(muts), nil); found {
				bad++
				c.Fail("C01-R7", fmt.Sprintf("errorf#%d in %s", i+1, enclosingCaseName(exe, e.N)), pos(c, e.N), "after raising a runtime error the instruction still modifies a datum: the failed statement takes effect anyway", tr...)
			}
		}
		if bad == 0 {
			c.Ok("C01-R7", "execute", pos(c, exe.Decl), fmt.Sprintf("%d errorf sites, %d mutation sites, none ordered badly", len(errs), len(muts)))
		}
		c.Extra["errorf_sites"] = len(errs)
		if len(errs) < 50 {
			c.Undecided("C01-R7", "floor", "-", fmt.Sprintf("only %d errorf sites found in execute", len(errs)))
		}
	}
	c.Floor("C01-R7", 1)

	// ---- R8
	c.Rule("C01-R8", "SCOPING: in the code generator's CondStmt clause every walk of a block the statement opens (Truth, Else) is preceded, since the previous walk or jump, by emit(Setmatched, false); Setmatched true is emitted after the truth block only; the else block is skipped by a jump when the condition held")
	if cgB != nil {
		c01cond(c, cgB)
	}
	c.Floor("C01-R8", 3)

	c.Rule("C01-R9", "CAPTURES: capture groups are per line and per pattern — the per-line thread and its capture table are created anew before the first instruction (shared with C05-R1), and every pattern expression gets its own slot in the regexp table, which also keys the capture table (shared with C04-R3)")
	if pll := c.MustFn("C01-R9", processLogLine); pll != nil {
		threadFreshness(c, "C01-R9", pll)
	}
	tableSlots(c, "C01-R9")
	c.Floor("C01-R9", 8)
}

func c01grammar(c *core.Check) {
	root := c.Prog.Root
	y := filepath.Join(root, "internal/runtime/compiler/parser/parser.y")
	committed := filepath.Join(root, "internal/runtime/compiler/parser/parser.go")
	goyacc := filepath.Join(c.VerifDir, "bin", "goyacc")
	if _, err := os.Stat(goyacc); err != nil {
		c.Undecided("C01-R1", "goyacc", "-", "bin/goyacc not built (run setup.sh)")
		return
	}
	tmp, err := os.MkdirTemp("", "goyacc-")
	if err != nil {
		c.Undecided("C01-R1", "goyacc", "-", err.Error())
		return
	}
	defer os.RemoveAll(tmp)
	gen := filepath.Join(tmp, "parser.go")
	yout := filepath.Join(tmp, "y.output")
	cmd := exec.Command(goyacc, "-o", gen, "-v", yout, "-p", "mtail", y)
	cmd.Dir = tmp
	out, err := cmd.CombinedOutput()
	if err != nil {
		c.Fail("C01-R1", "goyacc parser.y", "internal/runtime/compiler/parser/parser.y", "goyacc rejects the grammar: "+strings.TrimSpace(string(out)))
		return
	}
	conflicts := strings.Contains(string(out), "conflict")
	if b, err := os.ReadFile(yout); err == nil {
		for _, l := range strings.Split(string(b), "\n") {
			if strings.Contains(l, "conflict") && !strings.Contains(l, "0 shift/reduce, 0 reduce/reduce") && strings.Contains(l, "reduce") {
				conflicts = true
			}
		}
	}
	c.Verdict(!conflicts, "C01-R1", "no conflicts", "internal/runtime/compiler/parser/parser.y", "0 shift/reduce, 0 reduce/reduce", "the grammar has LALR conflicts: "+strings.TrimSpace(string(out)))
	norm := func(path string) (map[string]string, error) {
		fset := token.NewFileSet()
		file, err := parser.ParseFile(fset, path, nil, 0)
		if err != nil {
			return nil, err
		}
		decls := map[string]string{}
		// the committed file may come from a goyacc that used plain int tables: drop int(x) conversions of table reads
		astutil.Apply(file, func(cur *astutil.Cursor) bool {
			if call, ok := cur.Node().(*ast.CallExpr); ok && len(call.Args) == 1 {
				if id, ok := call.Fun.(*ast.Ident); ok && id.Name == "int" {
					if _, isIdx := call.Args[0].(*ast.IndexExpr); isIdx {
						cur.Replace(call.Args[0])
					}
				}
			}
			return true
		}, nil)
		for _, d := range file.Decls {
			var name string
			switch x := d.(type) {
			case *ast.FuncDecl:
				name = "func " + x.Name.Name
				if x.Recv != nil {
					name = "method " + types.ExprString(x.Recv.List[0].Type) + "." + x.Name.Name
				}
			case *ast.GenDecl:
				for _, sp := range x.Specs {
					switch s := sp.(type) {
					case *ast.ValueSpec:
						name += "var " + s.Names[0].Name + " "
						// table arrays: ignore element type
						for _, v := range s.Values {
							if cl, ok := v.(*ast.CompositeLit); ok {
								if at, ok := cl.Type.(*ast.ArrayType); ok {
									if id, ok := at.Elt.(*ast.Ident); ok && (strings.HasPrefix(id.Name, "int") || strings.HasPrefix(id.Name, "uint")) {
										id.Name = "int"
									}
								}
							}
						}
					case *ast.TypeSpec:
						name += "type " + s.Name.Name + " "
					case *ast.ImportSpec:
						name += "import " + s.Path.Value + " "
					}
				}
			}
			var buf bytes.Buffer
			printer.Fprint(&buf, fset, d)
			// line directives and positions do not matter
			decls[name] += buf.String()
		}
		return decls, nil
	}
	a, err1 := norm(gen)
	b, err2 := norm(committed)
	if err1 != nil || err2 != nil {
		c.Undecided("C01-R1", "parse parser.go", "-", fmt.Sprint(err1, err2))
		return
	}
	var diff []string
	for k, v := range a {
		if b[k] != v {
			diff = append(diff, strings.TrimSpace(k))
		}
	}
	for k := range b {
		if _, ok := a[k]; !ok {
			diff = append(diff, "only committed: "+strings.TrimSpace(k))
		}
	}
	sort.Strings(diff)
	c.Verdict(len(diff) == 0, "C01-R1", "parser.go == goyacc(parser.y)", "internal/runtime/compiler/parser/parser.go", fmt.Sprintf("%d declarations equal", len(a)), "the committed parser.go is not what goyacc generates from parser.y (grammar edited without regenerating, or parser.go edited by hand); differing declarations: "+strings.Join(diff, "; "))
	c.Extra["generated_decls"] = len(a)
}

func c01comparisons(c *core.Check, lf, cgA *core.Func, vm *vmTable) {
	trie := lexerTrie(lf)
	spellOf := map[string]string{}
	for sp, ts := range trie {
		for _, t := range ts {
			spellOf[t] = sp
		}
	}
	// per-token (cmpArg, jumpOp)
	type enc struct {
		arg  int64
		jump string
		ok   bool
	}
	encs := map[string]*enc{}
	info := cgA.Info()
	var relClause *ast.CaseClause
	ast.Inspect(cgA.Body, func(n ast.Node) bool {
		cc, ok := n.(*ast.CaseClause)
		if !ok || len(cc.List) != 1 {
			return true
		}
		sel, ok := cc.List[0].(*ast.SelectorExpr)
		if !ok || exprStr(sel.X) != "parser" {
			return true
		}
		e := &enc{}
		na, nj := 0, 0
		for _, st := range cc.Body {
			as, ok := st.(*ast.AssignStmt)
			if !ok || len(as.Lhs) != 1 {
				continue
			}
			switch exprStr(as.Lhs[0]) {
			case "cmpArg":
				if v, ok := constInt(info, as.Rhs[0]); ok {
					e.arg = v
					na++
				}
			case "jumpOp":
				if op, ok := constOpcode(info, as.Rhs[0]); ok {
					e.jump = op
					nj++
				}
			}
		}
		if na == 1 && nj == 1 {
			e.ok = true
			encs[sel.Sel.Name] = e
		}
		return true
	})
	ast.Inspect(cgA.Body, func(n ast.Node) bool {
		if cc, ok := n.(*ast.CaseClause); ok && len(cc.List) == 6 {
			relClause = cc
		}
		return true
	})
	// compare functions: opnd -> operator
	cmpTab := map[string]map[int64]token.Token{}
	for _, name := range []string{"compareInt", "compareFloat", "compareString"} {
		cf := c.Prog.Fn("internal/runtime/vm." + name)
		if cf == nil {
			c.Undecided("C01-R3", name, "-", "not found")
			continue
		}
		c.Analysed(cf)
		tab := map[int64]token.Token{}
		ast.Inspect(cf.Body, func(n ast.Node) bool {
			cc, ok := n.(*ast.CaseClause)
			if !ok || len(cc.List) != 1 {
				return true
			}
			v, isC := constInt(cf.Info(), cc.List[0])
			if !isC {
				return true
			}
			for _, st := range cc.Body {
				if r, ok := st.(*ast.ReturnStmt); ok && len(r.Results) >= 1 {
					if be, ok := core.Unparen(r.Results[0]).(*ast.BinaryExpr); ok && exprStr(be.X) == "a" && exprStr(be.Y) == "b" {
						tab[v] = be.Op
					}
				}
			}
			return true
		})
		cmpTab[name] = tab
	}
	// jump senses
	sense := map[string]string{} // "Jnm" -> "false" (jumps when value false)
	for _, j := range []string{"Jnm", "Jm"} {
		vc := vm.Cases[j]
		if vc == nil {
			continue
		}
		vm.inspectCase(vc, func(n ast.Node) bool {
			cc, ok := n.(*ast.CaseClause)
			if !ok || len(cc.List) != 1 || exprStr(cc.List[0]) != "bool" {
				return true
			}
			for _, st := range cc.Body {
				if is, ok := st.(*ast.IfStmt); ok {
					s := nospace(exprStr(is.Cond))
					jumps := false
					ast.Inspect(is.Body, func(m ast.Node) bool {
						if as, ok := m.(*ast.AssignStmt); ok && strings.HasSuffix(core.PathOf(as.Lhs[0]), ".pc") {
							jumps = true
						}
						return true
					})
					if jumps {
						if strings.HasPrefix(s, "!") {
							sense[j] = "false"
						} else {
							sense[j] = "true"
						}
					}
				}
			}
			return true
		})
	}
	c.Verdict(sense["Jnm"] == "false" && sense["Jm"] == "true", "C01-R3", "jump senses", pos(c, vm.F.Decl), "Jnm jumps on false, Jm on true", fmt.Sprintf("Jnm jumps when the value is %q and Jm when it is %q: conditions are inverted", sense["Jnm"], sense["Jm"]))
	// template order in the relational clause
	if relClause != nil {
		var seq []string
		for _, st := range relClause.Body {
			if es, ok := st.(*ast.ExprStmt); ok {
				if call, ok := es.X.(*ast.CallExpr); ok {
					id := cgA.CalleeID(call)
					switch {
					case strings.HasSuffix(id, ".emit"):
						seq = append(seq, "emit "+nospace(exprStr(call.Args[1]))+" "+nospace(exprStr(call.Args[2])))
					case strings.HasSuffix(id, ".setLabel"):
						seq = append(seq, "label "+exprStr(call.Args[0]))
					}
				}
			}
		}
		want := []string{"emit cmpOp cmpArg", "emit jumpOp lFail", "emit code.Push true", "emit code.Jmp lEnd", "label lFail", "emit code.Push false", "label lEnd"}
		c.Verdict(strings.Join(seq, ";") == strings.Join(want, ";"), "C01-R3", "template", pos(c, relClause), strings.Join(seq, "; "), "the comparison template is not [cmp; jump lFail; push true; jmp lEnd; lFail: push false; lEnd:] but "+strings.Join(seq, "; "))
	} else {
		c.Undecided("C01-R3", "template", "-", "relational clause not found")
	}
	meaning := map[string][3]bool{"<": {true, false, false}, "<=": {true, true, false}, ">": {false, false, true}, ">=": {false, true, true}, "==": {false, true, false}, "!=": {true, false, true}}
	evalOp := func(op token.Token, ord int) bool { // ord 0: a<b, 1: a==b, 2: a>b
		switch op {
		case token.LSS:
			return ord == 0
		case token.EQL:
			return ord == 1
		case token.GTR:
			return ord == 2
		case token.LEQ:
			return ord <= 1
		case token.GEQ:
			return ord >= 1
		case token.NEQ:
			return ord != 1
		}
		return false
	}
	var toks []string
	for t := range encs {
		toks = append(toks, t)
	}
	sort.Strings(toks)
	for _, t := range toks {
		e := encs[t]
		sp := spellOf[t]
		mean, known := meaning[sp]
		if !known {
			continue
		}
		for fn, tab := range cmpTab {
			op, okOp := tab[e.arg]
			if !okOp {
				c.Fail("C01-R3", t+" via "+fn, pos(c, cgA.Decl), fmt.Sprintf("%s is compiled with compare operand %d which %s does not handle: every such comparison is a runtime error", sp, e.arg, fn))
				continue
			}
			okAll := true
			var got [3]bool
			for ord := 0; ord < 3; ord++ {
				r := evalOp(op, ord)
				jumpTaken := (sense[e.jump] == "true") == r
				got[ord] = !jumpTaken
				if got[ord] != mean[ord] {
					okAll = false
				}
			}
			c.Verdict(okAll, "C01-R3", t+" via "+fn, pos(c, cgA.Decl), fmt.Sprintf("`%s`: cmp %d (%s), %s -> %v", sp, e.arg, op, e.jump, got), fmt.Sprintf("`a %s b` compiles to cmp %d (a %s b) followed by %s; on (a<b, a=b, a>b) that yields %v but the operator means %v", sp, e.arg, op, e.jump, got, mean))
		}
	}
}

func c01builtins(c *core.Check, vm *vmTable, cgA *core.Func) {
	sigs := builtinSignatures(c)
	_, byName, _ := mapLiteralOpcodes(c, "internal/runtime/compiler/codegen", "builtin")
	// lexer list
	var lex []string
	if pkg := c.Prog.Pkgs["internal/runtime/compiler/parser"]; pkg != nil {
		for _, file := range pkg.Syntax {
			ast.Inspect(file, func(n ast.Node) bool {
				vs, ok := n.(*ast.ValueSpec)
				if ok && len(vs.Names) == 1 && vs.Names[0].Name == "builtins" && len(vs.Values) == 1 {
					if cl, ok := vs.Values[0].(*ast.CompositeLit); ok {
						for _, el := range cl.Elts {
							lex = append(lex, strings.Trim(exprStr(el), `"`))
						}
					}
				}
				return true
			})
		}
	}
	sorted := sort.StringsAreSorted(lex)
	c.Verdict(sorted && len(lex) > 0, "C01-R4", "lexer builtins sorted", "-", "sorted (the lexer uses binary search)", "the lexer's builtin list is not sorted: sort.SearchStrings misses entries and the name lexes as an identifier")
	explicit := map[string]bool{}
	if cgA != nil {
		ast.Inspect(cgA.Body, func(n ast.Node) bool {
			if sw, ok := n.(*ast.SwitchStmt); ok && sw.Tag != nil && strings.HasSuffix(exprStr(sw.Tag), ".Name") {
				for _, cl := range sw.Body.List {
					for _, e := range cl.(*ast.CaseClause).List {
						explicit[strings.Trim(exprStr(e), `"`)] = true
					}
				}
			}
			return true
		})
	}
	names := map[string]bool{}
	for _, n := range lex {
		names[n] = true
	}
	for n := range sigs {
		names[n] = true
	}
	for n := range byName {
		names[n] = true
	}
	var all []string
	for n := range names {
		all = append(all, n)
	}
	sort.Strings(all)
	for _, n := range all {
		inLex, inTypes := has(lex, n), len(sigs[n]) > 0
		_, inMap := byName[n]
		inGen := inMap || explicit[n]
		if !(inLex && inTypes && inGen) {
			c.Fail("C01-R4", "builtin "+n, "-", fmt.Sprintf("builtin %s: lexer=%v, types.Builtins=%v, code generator=%v — the stages disagree about its existence", n, inLex, inTypes, inGen))
			continue
		}
		if inMap {
			op := byName[n][0]
			vc := vm.Cases[op]
			if vc == nil {
				c.Fail("C01-R4", "builtin "+n, "-", "builtin "+n+" maps to opcode "+op+" which the VM does not handle")
				continue
			}
			nparams := len(sigs[n]) - 1
			// pops on the longest path: count pops in the case (operand-gated pops included)
			npop := len(vc.Pops)
			okAr := npop >= nparams && !(nparams == 0 && npop > 0)
			if n == "strptime" {
				okAr = npop >= 2
			}
			c.Verdict(okAr, "C01-R4", "builtin "+n, pos(c, vm.F.Decl), fmt.Sprintf("%s -> %s, %d parameters, %d pops", n, op, nparams, npop), fmt.Sprintf("builtin %s takes %d arguments but its VM case %s pops %d values: the stack is corrupted", n, nparams, op, npop))
		} else {
			c.Ok("C01-R4", "builtin "+n, "-", "handled explicitly by the code generator")
		}
	}
}

func c01nodes(c *core.Check) {
	pkg := c.Prog.Pkgs["internal/runtime/compiler/ast"]
	wf := c.MustFn("C01-R6", "internal/runtime/compiler/ast.Walk")
	if pkg == nil || wf == nil {
		return
	}
	nodeIface, _ := pkg.Types.Scope().Lookup("Node").Type().Underlying().(*types.Interface)
	if nodeIface == nil {
		c.Undecided("C01-R6", "ast.Node", "-", "interface not found")
		return
	}
	// clauses of Walk
	walked := map[string]map[string]bool{} // type -> fields walked
	ast.Inspect(wf.Body, func(n ast.Node) bool {
		cc, ok := n.(*ast.CaseClause)
		if !ok {
			return true
		}
		for _, e := range cc.List {
			tn := strings.TrimPrefix(exprStr(e), "*")
			if walked[tn] == nil {
				walked[tn] = map[string]bool{}
			}
			ast.Inspect(cc, func(m ast.Node) bool {
				if call, ok := m.(*ast.CallExpr); ok {
					id := wf.CalleeID(call)
					if strings.HasSuffix(id, "ast.Walk") || strings.HasSuffix(id, "ast.walknodelist") {
						if sel, ok := core.Unparen(call.Args[1]).(*ast.SelectorExpr); ok {
							walked[tn][sel.Sel.Name] = true
						}
					}
				}
				return true
			})
		}
		return true
	})
	explicitWalk := func(fkey, typ, field string) bool {
		f := c.Prog.Fn(fkey)
		if f == nil {
			return false
		}
		found := false
		ast.Inspect(f.Body, func(n ast.Node) bool {
			cc, ok := n.(*ast.CaseClause)
			if !ok {
				return true
			}
			for _, e := range cc.List {
				if exprStr(e) == "*ast."+typ {
					ast.Inspect(cc, func(m ast.Node) bool {
						if call, ok := m.(*ast.CallExpr); ok && strings.HasSuffix(f.CalleeID(call), "ast.Walk") {
							if sel, ok := core.Unparen(call.Args[1]).(*ast.SelectorExpr); ok && sel.Sel.Name == field {
								found = true
							}
						}
						return true
					})
				}
			}
			return true
		})
		return found
	}
	sc := pkg.Types.Scope()
	for _, name := range sc.Names() {
		tn, ok := sc.Lookup(name).(*types.TypeName)
		if !ok {
			continue
		}
		st, ok := tn.Type().Underlying().(*types.Struct)
		if !ok || !types.Implements(types.NewPointer(tn.Type()), nodeIface) {
			continue
		}
		fields, listed := walked[name]
		if !listed && name == "Error" {
			// reasoned exception, itself checked: ast.Error is built only for the INVALID token, and the
			// parser driver records an error whenever it returns INVALID, so Parse fails and the tree is never walked
			okExc := false
			if lx := c.Prog.Fn("internal/runtime/compiler/parser.(*parser).Lex"); lx != nil {
				c.Analysed(lx)
				lg := lx.Graph()
				var rets []core.Point
				for _, e := range normalExits(lg) {
					if e.Kind == "return" && len(e.Ret.Results) == 1 && exprStr(e.Ret.Results[0]) == "INVALID" {
						rets = append(rets, e.P)
					}
				}
				errs := lg.Calls(func(id string, _ *ast.CallExpr) bool { return strings.HasSuffix(id, "(*parser).Error") })
				_, found := pathAvoiding(lg, nil, rets, core.HitPoints(errs))
				okExc = len(rets) > 0 && !found
			}
			nlit := 0
			for _, sf := range shipped(c) {
				ast.Inspect(sf.Body, func(n ast.Node) bool {
					if cl, ok := n.(*ast.CompositeLit); ok && strings.HasSuffix(typeStr(sf.Info().TypeOf(cl)), "ast.Error") {
						nlit++
						if !strings.HasSuffix(sf.Key, "mtailParserImpl).Parse") {
							okExc = false
						}
					}
					return true
				})
			}
			c.Verdict(okExc && nlit == 1, "C01-R6", "node Error", "-", "never walked: built only by the grammar for INVALID, and every INVALID the driver returns is preceded by a recorded parse error", "ast.Walk has no case for *ast.Error and it can reach a walk: built outside the INVALID production, or the driver can return INVALID without recording an error")
			continue
		}
		if !listed {
			c.Fail("C01-R6", "node "+name, "-", "ast.Walk has no case for *ast."+name+": walking a program containing it panics")
			continue
		}
		var missing []string
		for i := 0; i < st.NumFields(); i++ {
			fl := st.Field(i)
			ts := fl.Type().String()
			if name == "PatternFragment" && fl.Name() == "ID" {
				// the name being defined, not a use: the checker reads it in its own clause instead of walking it
				if refersTo(c, checkerBefore, "PatternFragment", "ID") {
					continue
				}
			}
			if strings.HasSuffix(ts, "ast.Node") && !fields[fl.Name()] {
				if explicitWalk(checkerBefore, name, fl.Name()) || explicitWalk(checkerAfter, name, fl.Name()) {
					if explicitWalk(codegenBefore, name, fl.Name()) || explicitWalk(codegenAfter, name, fl.Name()) {
						continue
					}
				}
				missing = append(missing, fl.Name())
			}
		}
		c.Verdict(len(missing) == 0, "C01-R6", "node "+name, "-", "every child field is walked", "child field(s) "+strings.Join(missing, ", ")+" of *ast."+name+" are not walked (neither by ast.Walk nor explicitly by checker and code generator): that sub-tree is never checked or compiled")
	}
}

func c01cond(c *core.Check, cgB *core.Func) {
	var clause *ast.CaseClause
	ast.Inspect(cgB.Body, func(n ast.Node) bool {
		if cc, ok := n.(*ast.CaseClause); ok && len(cc.List) == 1 && exprStr(cc.List[0]) == "*ast.CondStmt" {
			clause = cc
		}
		return true
	})
	if clause == nil {
		c.Undecided("C01-R8", "CondStmt clause", "-", "not found")
		return
	}
	g := cgB.Graph()
	inCl := func(hs []core.Hit) []core.Hit { return inside(hs, clause) }
	walks := inCl(g.Calls(func(id string, call *ast.CallExpr) bool { return strings.HasSuffix(id, "ast.Walk") }))
	setFalse := inCl(g.Calls(func(id string, call *ast.CallExpr) bool {
		return strings.HasSuffix(id, ".emit") && len(call.Args) == 3 && nospace(exprStr(call.Args[1])) == "code.Setmatched" && exprStr(call.Args[2]) == "false"
	}))
	setTrue := inCl(g.Calls(func(id string, call *ast.CallExpr) bool {
		return strings.HasSuffix(id, ".emit") && len(call.Args) == 3 && nospace(exprStr(call.Args[1])) == "code.Setmatched" && exprStr(call.Args[2]) == "true"
	}))
	jumps := inCl(g.Calls(func(id string, call *ast.CallExpr) bool {
		return strings.HasSuffix(id, ".emit") && len(call.Args) == 3 && (nospace(exprStr(call.Args[1])) == "code.Jmp" || nospace(exprStr(call.Args[1])) == "code.Jnm")
	}))
	labels := inCl(g.Calls(func(id string, call *ast.CallExpr) bool { return strings.HasSuffix(id, ".setLabel") }))
	for _, w := range walks {
		call := w.N.(*ast.CallExpr)
		child := exprStr(call.Args[1])
		if child != "n.Truth" && child != "n.Else" {
			continue
		}
		// every path from the clause start to this walk must pass a Setmatched false after the last preceding walk/label
		var barriers []core.Point
		for _, o := range walks {
			if o.N != w.N {
				barriers = append(barriers, o.P)
			}
		}
		barriers = append(barriers, core.HitPoints(labels)...)
		bad := false
		var tr []string
		for _, b := range barriers {
			from := b
			if t, found := pathAvoiding(g, &from, []core.Point{w.P}, append(core.HitPoints(setFalse), without(barriers, b)...)); found {
				bad, tr = true, t
			}
		}
		if _, found := pathAvoiding(g, nil, []core.Point{w.P}, append(core.HitPoints(setFalse), barriers...)); found && len(barriers) == 0 {
			bad = true
		}
		c.Verdict(!bad, "C01-R8", "CondStmt block "+child+" starts unmatched", pos(c, call), "Setmatched false precedes the block", "the "+strings.TrimPrefix(child, "n.")+" block of a conditional is entered without clearing the matched flag: an `otherwise` inside it sees matches made in the enclosing scope (or in the condition's own scope) and does not fire", tr...)
	}
	// Setmatched true only after Truth
	for _, st := range setTrue {
		okPos := false
		for _, w := range walks {
			if exprStr(w.N.(*ast.CallExpr).Args[1]) == "n.Truth" && w.N.Pos() < st.N.Pos() {
				okPos = true
			}
		}
		for _, w := range walks {
			if exprStr(w.N.(*ast.CallExpr).Args[1]) == "n.Else" && w.N.Pos() < st.N.Pos() {
				okPos = false
			}
		}
		c.Verdict(okPos, "C01-R8", "CondStmt Setmatched true", pos(c, st.N), "after the truth block, before the else block", "the matched flag is set true at the wrong place")
	}
	c.Verdict(len(jumps) >= 2 && len(setTrue) == 1, "C01-R8", "CondStmt shape", pos(c, clause), "jnm to else, jmp over else, one Setmatched true", "the conditional no longer has the shape [cond; jnm else; truth; setmatched true; jmp end; else:; …; end:]")
}

func without(ps []core.Point, p core.Point) []core.Point {
	var out []core.Point
	for _, x := range ps {
		if x != p {
			out = append(out, x)
		}
	}
	return out
}

// refersTo reports whether the clause for *ast.<typ> in function fkey mentions n.<field>.
func refersTo(c *core.Check, fkey, typ, field string) bool {
	f := c.Prog.Fn(fkey)
	if f == nil {
		return false
	}
	found := false
	ast.Inspect(f.Body, func(n ast.Node) bool {
		cc, ok := n.(*ast.CaseClause)
		if !ok {
			return true
		}
		for _, e := range cc.List {
			if exprStr(e) == "*ast."+typ {
				ast.Inspect(cc, func(m ast.Node) bool {
					if sel, ok := m.(*ast.SelectorExpr); ok && sel.Sel.Name == field {
						found = true
					}
					return true
				})
			}
		}
		return true
	})
	return found
}
