package props

import (
	"fmt"
	"go/ast"
	"go/token"
	"go/types"

	"verif/sa/core"
)

// C03-R8 SHIFT-COUNT: Go panics at run time on a shift whose count is a
// negative signed integer.  In the functions that can run under Compile every
// shift with a signed, non-constant count must be reached only over an edge
// that establishes count >= 0.
func init() { register("C03", c03Shifts) }

func c03Shifts(c *core.Check) {
	const rule = "C03-R8"
	c.Rule(rule, "SHIFT-COUNT: in the functions that can run under (*Compiler).Compile, every shift `x << n`, `x >> n` (also `<<=`, `>>=`) whose count n has a signed integer type and is not a constant is dominated by a comparison that establishes n >= 0 (n >= 0, n > k, 0 <= n, the false edge of n < 0, …); a negative count is a run-time panic of the Go program, i.e. of the compiler")
	root := c.MustFn(rule, c03Compile)
	if root == nil {
		return
	}
	sc := c03Reach(c, root)
	n := 0
	for _, f := range sc.order {
		if f.Body == nil {
			continue
		}
		info := f.Info()
		type site struct {
			node  ast.Node
			count ast.Expr
		}
		var sites []site
		core.InspectNoLit(f.Body, func(x ast.Node) bool {
			switch v := x.(type) {
			case *ast.BinaryExpr:
				if v.Op == token.SHL || v.Op == token.SHR {
					sites = append(sites, site{v, v.Y})
				}
			case *ast.AssignStmt:
				if (v.Tok == token.SHL_ASSIGN || v.Tok == token.SHR_ASSIGN) && len(v.Rhs) == 1 {
					sites = append(sites, site{v, v.Rhs[0]})
				}
			}
			return true
		})
		ord := 0
		for _, st := range sites {
			tv, ok := info.Types[st.count]
			if !ok || tv.Value != nil {
				continue // constant count: checked by the compiler
			}
			bt, isB := tv.Type.Underlying().(*types.Basic)
			if !isB || bt.Info()&types.IsUnsigned != 0 || bt.Info()&types.IsInteger == 0 {
				continue
			}
			ord++
			n++
			key := fmt.Sprintf("%s|shift#%d", f.Key, ord)
			g := f.Graph()
			p, okp := g.PointOf(st.node)
			if !okp {
				c.Undecided(rule, key, pos(c, st.node), "shift not found in the control-flow graph")
				continue
			}
			want := canonExpr(f, st.count)
			ef := graphFacts(g, func(e ast.Expr) (condFact, bool) {
				be, ok := core.Unparen(e).(*ast.BinaryExpr)
				if !ok {
					return condFact{}, false
				}
				// n OP k  or  k OP n
				x, y, op := be.X, be.Y, be.Op
				if canonExpr(f, y) == want {
					x, y = y, x
					switch op {
					case token.LSS:
						op = token.GTR
					case token.LEQ:
						op = token.GEQ
					case token.GTR:
						op = token.LSS
					case token.GEQ:
						op = token.LEQ
					}
				} else if canonExpr(f, x) != want {
					return condFact{}, false
				}
				k, isC := constInt(info, y)
				if !isC {
					return condFact{}, false
				}
				switch {
				case op == token.GEQ && k >= 0, op == token.GTR && k >= -1, op == token.EQL && k >= 0:
					return condFact{id: "nonneg", val: "true", eq: true}, true // true edge: n >= 0
				case op == token.LSS && k <= 0, op == token.LEQ && k <= -1:
					return condFact{id: "nonneg", val: "false", eq: true}, true // false edge: n >= 0
				}
				return condFact{}, false
			})
			ok1 := ef.avoid(func(cf condFact) bool { return cf.id == "nonneg" && cf.val == "true" && cf.eq })
			if tr, found := g.Search(core.Query{Goal: core.At(p), AvoidEdge: ok1}); found {
				c.Fail(rule, key, pos(c, st.node), "the shift count "+exprStr(st.count)+" is a signed integer that nothing on this path shows to be non-negative: a negative count (for instance a negative literal written in the program) makes the Go runtime panic with `negative shift amount` inside Compile", g.Trail(tr)...)
			} else {
				c.Ok(rule, key, pos(c, st.node), "count shown non-negative on every path")
			}
		}
	}
	if n == 0 {
		c.Ok(rule, "scope|no signed shift counts", "-", fmt.Sprintf("no shift with a signed non-constant count in the %d functions under Compile", len(sc.order)))
	}
	c.Floor(rule, 1)
}
