package props

import (
	"go/ast"
	"go/types"
	"strings"

	"verif/sa/core"
)

// C23-R6 PATTERN-OPERAND.  The checker wraps whatever it accepts as a pattern in
// an *ast.PatternExpr, and the formatter's operand helper lets such a wrapper
// through without consulting the precedence tables (inside a pattern a
// concatenation needs no brackets).  The grammar, however, reads only a
// concatenation of pattern LITERALS and constants after a match operator; any
// other expression (`$x =~ ("a" + "b")`) stands there as a bracketed primary.
// If the helper has that shortcut, the clause that prints a PatternExpr must be
// able to put the brackets back.
func init() { register("C23", c23PatternOperand) }

func c23PatternOperand(c *core.Check) {
	const rule = "C23-R6"
	c.Rule(rule, "PATTERN-OPERAND: if the operand helper of the formatter prints an *ast.PatternExpr operand without comparing precedences, then the clause that prints a PatternExpr emits an opening bracket on some path (for an inner expression that is not a concatenation of pattern literals/constants and not primary): otherwise `$x =~ (\"a\" + \"b\")` is formatted as `$x =~ \"a\" + \"b\"`, which does not parse")
	var vb, helper *core.Func
	for _, sf := range shipped(c) {
		if core.Rel(sf.Pkg.PkgPath) != "internal/runtime/compiler/parser" || sf.Obj == nil || sf.Lit != nil {
			continue
		}
		sig, _ := sf.Obj.Type().(*types.Signature)
		if sig == nil || sig.Recv() == nil || !strings.HasSuffix(sig.Recv().Type().String(), "parser.Unparser") {
			continue
		}
		if sf.Obj.Name() == "VisitBefore" {
			vb = sf
		}
	}
	if vb == nil {
		c.Undecided(rule, "Unparser.VisitBefore", "-", "not found")
		return
	}
	c.Analysed(vb)
	isPatternExprType := func(info *types.Info, e ast.Expr) bool {
		t := info.TypeOf(e)
		return t != nil && strings.HasSuffix(t.String(), "ast.PatternExpr")
	}
	// the shortcut: a method of the Unparser, called from VisitBefore, that asserts its node parameter to *ast.PatternExpr
	shortcut := false
	for _, cf := range vb.Callees() {
		if cf.Body == nil || cf.Pkg != vb.Pkg {
			continue
		}
		ast.Inspect(cf.Body, func(n ast.Node) bool {
			if ta, ok := n.(*ast.TypeAssertExpr); ok && ta.Type != nil && isPatternExprType(cf.Info(), ta.Type) {
				shortcut = true
				helper = cf
			}
			return true
		})
	}
	if !shortcut {
		c.Ok(rule, vb.Key+"|no shortcut", pos(c, vb.Decl), "no operand helper treats a PatternExpr specially: brackets follow the precedence tables")
		c.Floor(rule, 1)
		return
	}
	c.Analysed(helper)
	// the PatternExpr clause of VisitBefore
	var clause *ast.CaseClause
	info := vb.Info()
	ast.Inspect(vb.Body, func(n ast.Node) bool {
		ts, ok := n.(*ast.TypeSwitchStmt)
		if !ok || clause != nil {
			return clause == nil
		}
		for _, cl := range ts.Body.List {
			cc := cl.(*ast.CaseClause)
			for _, e := range cc.List {
				if isPatternExprType(info, e) {
					clause = cc
				}
			}
		}
		return true
	})
	if clause == nil {
		c.Undecided(rule, vb.Key+"|PatternExpr clause", pos(c, vb.Decl), "the clause that prints a PatternExpr was not found")
		return
	}
	opens := false
	for _, st := range clause.Body {
		ast.Inspect(st, func(n ast.Node) bool {
			if call, ok := n.(*ast.CallExpr); ok && len(call.Args) == 1 {
				if s, ok := constStrVal(info, call.Args[0]); ok && strings.Contains(s, "(") {
					opens = true
				}
			}
			return true
		})
	}
	c.Verdict(opens, rule, vb.Key+"|PatternExpr clause", pos(c, clause), "the clause can put the brackets back",
		"the operand helper "+helper.Key+" prints a PatternExpr operand without comparing precedences and the clause that prints a PatternExpr never emits a bracket: an expression that the checker accepted as a pattern but the grammar reads as an ordinary expression — `$x =~ (\"a\" + \"b\")` — is formatted as `$x =~ \"a\" + \"b\"`, which does not parse (the formatted program is rejected)")
	c.Floor(rule, 1)
}
