package props

import (
	"fmt"
	"go/ast"
	"go/constant"
	"go/token"
	"go/types"
	"regexp"
	"sort"
	"strings"

	"verif/sa/core"
)

func init() { register("C23", c23) }

const (
	unparserKey = "internal/runtime/compiler/parser.(*Unparser).VisitBefore"
	parserPkg   = "internal/runtime/compiler/parser"
)

// c23Kind is a kind of expression node as the grammar builds it.
type c23Kind struct {
	Type string // ast type name: BinaryExpr, UnaryExpr, IntLit, ...
	Op   string // operator token for Binary/Unary, "" otherwise
	Head string // nonterminal whose production builds it
}

func (k c23Kind) String() string {
	if k.Op != "" {
		return k.Type + "(" + k.Op + ")"
	}
	return k.Type
}

// c23Slot is an operand position of an operator production.
type c23Slot struct {
	Head  string // nonterminal of the production
	Op    string // operator token
	Left  string // nonterminal accepted on the left ("" for prefix operators)
	Right string // nonterminal accepted on the right ("" for postfix operators)
	Node  string // BinaryExpr or UnaryExpr
}

var c23ActionType = regexp.MustCompile(`&ast\.(\w+)\{`)

// c23GrammarFacts derives operator productions and node kinds from the grammar.
func c23GrammarFacts(g *yGrammar) (slots []c23Slot, kinds []c23Kind, why string) {
	isNT := func(s string) bool { _, ok := g.Rules[s]; return ok }
	for _, head := range g.Order {
		for _, alt := range g.Rules[head] {
			var syms []string
			for _, s := range alt.Syms {
				if s != "opt_nl" && s != "mark_pos" && s != "in_regex" {
					syms = append(syms, s)
				}
			}
			types := c23ActionType.FindAllStringSubmatch(alt.Action, -1)
			if len(types) == 0 {
				continue
			}
			outer := types[0][1]
			switch outer {
			case "BinaryExpr":
				if len(syms) != 3 {
					return nil, nil, fmt.Sprintf("production of %s builds a BinaryExpr from %d symbols", head, len(syms))
				}
				ops := g.opTokens(syms[1])
				if len(ops) == 0 {
					return nil, nil, "operator symbol " + syms[1] + " of " + head + " names no token"
				}
				for _, op := range ops {
					slots = append(slots, c23Slot{Head: head, Op: op, Left: syms[0], Right: syms[2], Node: "BinaryExpr"})
					kinds = append(kinds, c23Kind{"BinaryExpr", op, head})
				}
				if len(types) > 1 && types[1][1] == "UnaryExpr" && strings.Contains(alt.Action, "Op: MATCH") {
					// the condition `pattern op expr`: its left operand is the pattern itself
					kinds = append(kinds, c23Kind{"UnaryExpr", "MATCH", head})
				}
			case "UnaryExpr":
				switch {
				case strings.Contains(alt.Action, "Op: MATCH") && len(syms) == 1:
					slots = append(slots, c23Slot{Head: head, Op: "MATCH", Right: syms[0], Node: "UnaryExpr"})
					kinds = append(kinds, c23Kind{"UnaryExpr", "MATCH", head})
				case len(syms) == 2 && len(g.opTokens(syms[0])) > 0 && isNT(syms[1]):
					for _, op := range g.opTokens(syms[0]) {
						slots = append(slots, c23Slot{Head: head, Op: op, Right: syms[1], Node: "UnaryExpr"})
						kinds = append(kinds, c23Kind{"UnaryExpr", op, head})
					}
				case len(syms) == 2 && len(g.opTokens(syms[1])) > 0 && isNT(syms[0]):
					for _, op := range g.opTokens(syms[1]) {
						slots = append(slots, c23Slot{Head: head, Op: op, Left: syms[0], Node: "UnaryExpr"})
						kinds = append(kinds, c23Kind{"UnaryExpr", op, head})
					}
				default:
					return nil, nil, "unrecognised UnaryExpr production in " + head
				}
			default:
				kinds = append(kinds, c23Kind{outer, "", head})
			}
		}
	}
	return slots, kinds, ""
}

// c23Val is an abstract argument of the precedence functions.
type c23Val struct {
	isNode bool
	typ    string // node type name
	op     int64  // operator constant (for nodes: v.Op; for ints: the value)
	hasOp  bool
	b      bool
	isBool bool
}

// c23Eval partially evaluates a "table function" — a function whose body is
// made of (type) switches over its parameters, ifs on boolean parameters and
// returns of integer constants — on abstract arguments.  It returns the
// integer result; ok=false when the body leaves that family.
type c23Eval struct {
	f     *core.Func
	depth int
}

func (ev *c23Eval) call(args map[types.Object]c23Val) (int64, bool, string) {
	if ev.depth > 4 {
		return 0, false, "recursion too deep"
	}
	return ev.block(ev.f.Body.List, args)
}

func (ev *c23Eval) constInt(e ast.Expr) (int64, bool) {
	tv, ok := ev.f.Info().Types[e]
	if !ok || tv.Value == nil || tv.Value.Kind() != constant.Int {
		return 0, false
	}
	v, exact := constant.Int64Val(tv.Value)
	return v, exact
}

// block returns (value, returned, why)
func (ev *c23Eval) block(stmts []ast.Stmt, env map[types.Object]c23Val) (int64, bool, string) {
	info := ev.f.Info()
	for _, st := range stmts {
		switch s := st.(type) {
		case *ast.ReturnStmt:
			if len(s.Results) != 1 {
				return 0, false, "return of several values"
			}
			if v, ok := ev.constInt(s.Results[0]); ok {
				return v, true, ""
			}
			// delegation to another table function: return g(v.Op) / return g(op, right)
			if call, ok := core.Unparen(s.Results[0]).(*ast.CallExpr); ok {
				if cf := ev.f.CalleeFunc(call); cf != nil && cf.Lit == nil {
					ps := c23Params(cf)
					if len(ps) == len(call.Args) {
						args := map[types.Object]c23Val{}
						okArgs := true
						for i, a := range call.Args {
							a = core.Unparen(a)
							if bv, ok := constBool(info, a); ok {
								args[ps[i]] = c23Val{isBool: true, b: bv}
							} else if iv, ok := ev.constInt(a); ok {
								args[ps[i]] = c23Val{op: iv}
							} else if v, known := env[identObj(info, a)]; known {
								args[ps[i]] = v
							} else if sel, ok := a.(*ast.SelectorExpr); ok && sel.Sel.Name == "Op" {
								if v, known := env[identObj(info, sel.X)]; known && v.isNode && v.hasOp {
									args[ps[i]] = c23Val{op: v.op}
								} else {
									okArgs = false
								}
							} else {
								okArgs = false
							}
						}
						if okArgs {
							sub := &c23Eval{f: cf, depth: ev.depth + 1}
							r, ret, why := sub.call(args)
							if !ret && why == "" {
								why = "no return reached in " + cf.Key
							}
							return r, ret, why
						}
					}
				}
			}
			return 0, false, "return of a non-constant: " + exprStr(s.Results[0])
		case *ast.IfStmt:
			if s.Init != nil {
				return 0, false, "if with init"
			}
			o := identObj(info, s.Cond)
			neg := false
			if u, ok := core.Unparen(s.Cond).(*ast.UnaryExpr); ok && u.Op == token.NOT {
				o = identObj(info, u.X)
				neg = true
			}
			v, known := env[o]
			if o == nil || !known || !v.isBool {
				return 0, false, "if on something other than a boolean parameter: " + exprStr(s.Cond)
			}
			taken := v.b != neg
			if taken {
				if r, ret, why := ev.block(s.Body.List, env); ret || why != "" {
					return r, ret, why
				}
			} else if s.Else != nil {
				var body []ast.Stmt
				switch e := s.Else.(type) {
				case *ast.BlockStmt:
					body = e.List
				default:
					body = []ast.Stmt{e}
				}
				if r, ret, why := ev.block(body, env); ret || why != "" {
					return r, ret, why
				}
			}
		case *ast.TypeSwitchStmt:
			var tag ast.Expr
			var bound *ast.Ident
			switch a := s.Assign.(type) {
			case *ast.AssignStmt:
				if ta, ok := a.Rhs[0].(*ast.TypeAssertExpr); ok {
					tag = ta.X
				}
				bound, _ = a.Lhs[0].(*ast.Ident)
			case *ast.ExprStmt:
				if ta, ok := a.X.(*ast.TypeAssertExpr); ok {
					tag = ta.X
				}
			}
			v, known := env[identObj(info, tag)]
			if !known || !v.isNode {
				return 0, false, "type switch on something other than the node parameter"
			}
			var chosen, deflt *ast.CaseClause
			for _, cl := range s.Body.List {
				cc := cl.(*ast.CaseClause)
				if cc.List == nil {
					deflt = cc
				}
				for _, e := range cc.List {
					if c23AstType(info, e) == v.typ {
						chosen = cc
					}
				}
			}
			if chosen == nil {
				chosen = deflt
			}
			if chosen != nil {
				env2 := map[types.Object]c23Val{}
				for k, x := range env {
					env2[k] = x
				}
				if bound != nil {
					if o := info.Implicits[chosen]; o != nil {
						env2[o] = v
					}
				}
				if r, ret, why := ev.block(chosen.Body, env2); ret || why != "" {
					return r, ret, why
				}
			}
		case *ast.SwitchStmt:
			if s.Init != nil || s.Tag == nil {
				return 0, false, "switch without tag"
			}
			var val int64
			found := false
			if sel, ok := core.Unparen(s.Tag).(*ast.SelectorExpr); ok && sel.Sel.Name == "Op" {
				if v, known := env[identObj(info, sel.X)]; known && v.isNode && v.hasOp {
					val, found = v.op, true
				}
			} else if v, known := env[identObj(info, s.Tag)]; known && !v.isNode && !v.isBool {
				val, found = v.op, true
			}
			if !found {
				return 0, false, "switch on something other than the operator: " + exprStr(s.Tag)
			}
			var chosen, deflt *ast.CaseClause
			for _, cl := range s.Body.List {
				cc := cl.(*ast.CaseClause)
				if cc.List == nil {
					deflt = cc
				}
				for _, e := range cc.List {
					if c, ok := ev.constInt(e); ok && c == val {
						chosen = cc
					}
				}
			}
			if chosen == nil {
				chosen = deflt
			}
			if chosen != nil {
				if r, ret, why := ev.block(chosen.Body, env); ret || why != "" {
					return r, ret, why
				}
			}
		default:
			return 0, false, fmt.Sprintf("statement outside the table-function family: %T", st)
		}
	}
	return 0, false, ""
}

// c23Clause is the printer's code for one node type: the case clause of
// VisitBefore's type switch together with the bodies of the helpers that the
// clause hands the node to (`case *ast.VarDecl: u.unparseVarDecl(v)`), so that a
// clause extracted into a method is read exactly like an inline one.
type c23Clause struct {
	cc     *ast.CaseClause
	typ    string
	vars   map[types.Object]bool        // the clause variable and every helper parameter bound to it
	opVars map[types.Object]bool        // helper parameters bound to <node>.Op
	stmts  []ast.Stmt                   // clause body, then the bodies of the helpers
	calls  map[*ast.CallExpr]*core.Func // calls that hand the node to a helper
}

// c23Ctx carries what the rules share.
type c23Ctx struct {
	c       *core.Check
	up      *core.Func
	info    *types.Info
	defs    map[types.Object][]ast.Expr // definitions of locals in the parser package (nil entry = not a plain expression)
	clauses map[string]*c23Clause
}

// c23AstType names the ast node type a case expression `*ast.T` (under any import name) denotes.
func c23AstType(info *types.Info, e ast.Expr) string {
	t := info.TypeOf(e)
	if t == nil {
		return ""
	}
	if p, ok := t.(*types.Pointer); ok {
		t = p.Elem()
	}
	n, ok := t.(*types.Named)
	if !ok || n.Obj().Pkg() == nil || !strings.HasSuffix(n.Obj().Pkg().Path(), "/compiler/ast") {
		return ""
	}
	return n.Obj().Name()
}

// c23ConstName names the constant a case expression denotes (LT, parser.LT, (LT)).
func c23ConstName(info *types.Info, e ast.Expr) string {
	switch x := core.Unparen(e).(type) {
	case *ast.Ident:
		if k, ok := info.Uses[x].(*types.Const); ok {
			return k.Name()
		}
	case *ast.SelectorExpr:
		if k, ok := info.Uses[x.Sel].(*types.Const); ok {
			return k.Name()
		}
	}
	return exprStr(e)
}

// c23Defs indexes, for every local variable of the functions given, the
// expressions it is assigned from.
func c23Defs(fs []*core.Func) map[types.Object][]ast.Expr {
	defs := map[types.Object][]ast.Expr{}
	for _, f := range fs {
		info := f.Info()
		ast.Inspect(f.Body, func(n ast.Node) bool {
			switch x := n.(type) {
			case *ast.AssignStmt:
				for i, l := range x.Lhs {
					o := identObj(info, l)
					if o == nil {
						continue
					}
					if len(x.Lhs) == len(x.Rhs) && (x.Tok == token.DEFINE || x.Tok == token.ASSIGN) {
						defs[o] = append(defs[o], x.Rhs[i])
					} else {
						defs[o] = append(defs[o], nil)
					}
				}
			case *ast.ValueSpec:
				for i, nm := range x.Names {
					if o := info.Defs[nm]; o != nil && len(x.Values) == len(x.Names) {
						defs[o] = append(defs[o], x.Values[i])
					} else if o != nil && len(x.Values) > 0 {
						defs[o] = append(defs[o], nil)
					}
				}
			case *ast.IncDecStmt:
				if o := identObj(info, x.X); o != nil {
					defs[o] = append(defs[o], nil)
				}
			case *ast.RangeStmt:
				for _, l := range []ast.Expr{x.Key, x.Value} {
					if l != nil {
						if o := identObj(info, l); o != nil {
							defs[o] = append(defs[o], nil)
						}
					}
				}
			case *ast.UnaryExpr:
				if x.Op == token.AND {
					if o := identObj(info, x.X); o != nil {
						defs[o] = append(defs[o], nil)
					}
				}
			}
			return true
		})
	}
	return defs
}

// deref replaces a local variable that is assigned exactly once, from a plain
// expression, by that expression (`op := v.Op; switch op` reads like `switch v.Op`).
func (x *c23Ctx) deref(e ast.Expr) ast.Expr {
	for i := 0; i < 4; i++ {
		id, ok := core.Unparen(e).(*ast.Ident)
		if !ok {
			break
		}
		v, ok := x.info.Uses[id].(*types.Var)
		if !ok || v.IsField() {
			break
		}
		d := x.defs[v]
		if len(d) != 1 || d[0] == nil {
			break
		}
		e = d[0]
	}
	return core.Unparen(e)
}

// nodeField reports whether e (after deref) is <node>.<name> for a node variable of the clause.
func (x *c23Ctx) nodeField(cl *c23Clause, e ast.Expr, name string) bool {
	sel, ok := x.deref(e).(*ast.SelectorExpr)
	if !ok || sel.Sel.Name != name {
		return false
	}
	if s := x.info.Selections[sel]; s == nil || s.Kind() != types.FieldVal {
		return false
	}
	return cl.vars[identObj(x.info, x.deref(sel.X))]
}

// isOp reports whether e denotes the operator of the clause's node: <node>.Op, a local copy of it, or a helper parameter bound to it.
func (x *c23Ctx) isOp(cl *c23Clause, e ast.Expr) bool {
	if x.nodeField(cl, e, "Op") {
		return true
	}
	return cl.opVars[identObj(x.info, x.deref(e))]
}

// constStr evaluates e as a string constant.
func (x *c23Ctx) constStr(e ast.Expr) (string, bool) {
	tv, ok := x.info.Types[e]
	if !ok || tv.Value == nil || tv.Value.Kind() != constant.String {
		return "", false
	}
	return constant.StringVal(tv.Value), true
}

// opSwitch describes a switch over the node's operator whose cases spell operators: per case the token names and the string constants emitted or returned.
type c23OpCase struct {
	cc   *ast.CaseClause
	toks []string
	lits []string
}

// opSwitches finds, in the clause, the switches over the operator.  textOnly keeps those in which some case emits or returns a string constant.
func (x *c23Ctx) opSwitches(cl *c23Clause, textOnly bool) [][]c23OpCase {
	var out [][]c23OpCase
	for _, st := range cl.stmts {
		ast.Inspect(st, func(n ast.Node) bool {
			sw, ok := n.(*ast.SwitchStmt)
			if !ok || sw.Tag == nil || !x.isOp(cl, sw.Tag) {
				return true
			}
			var cases []c23OpCase
			any := false
			for _, cc0 := range sw.Body.List {
				cc := cc0.(*ast.CaseClause)
				oc := c23OpCase{cc: cc}
				for _, e := range cc.List {
					oc.toks = append(oc.toks, c23ConstName(x.info, e))
				}
				for _, bst := range cc.Body {
					ast.Inspect(bst, func(m ast.Node) bool {
						switch y := m.(type) {
						case *ast.CallExpr:
							if strings.HasSuffix(x.up.CalleeID(y), "(*Unparser).emit") && len(y.Args) == 1 {
								if sv, ok := x.constStr(y.Args[0]); ok {
									oc.lits = append(oc.lits, strings.TrimSpace(sv))
								}
							}
						case *ast.ReturnStmt:
							if len(y.Results) == 1 {
								if sv, ok := x.constStr(y.Results[0]); ok {
									oc.lits = append(oc.lits, strings.TrimSpace(sv))
								}
							}
						}
						return true
					})
				}
				if len(oc.lits) > 0 && len(oc.toks) > 0 {
					any = true
				}
				cases = append(cases, oc)
			}
			if any || !textOnly {
				out = append(out, cases)
			}
			return false
		})
	}
	return out
}

// buildClause collects the clause body and the helpers it hands the node (or the node's operator) to.
func (x *c23Ctx) buildClause(cc *ast.CaseClause, typ string) *c23Clause {
	cl := &c23Clause{cc: cc, typ: typ, vars: map[types.Object]bool{}, opVars: map[types.Object]bool{}, calls: map[*ast.CallExpr]*core.Func{}}
	if v := x.info.Implicits[cc]; v != nil {
		cl.vars[v] = true
	}
	cl.stmts = append(cl.stmts, cc.Body...)
	seen := map[*core.Func]bool{x.up: true}
	for i, depth := 0, 0; i < len(cl.stmts) && depth < 64; i++ {
		ast.Inspect(cl.stmts[i], func(n ast.Node) bool {
			call, ok := n.(*ast.CallExpr)
			if !ok {
				return true
			}
			hf := x.up.CalleeFunc(call)
			if hf == nil || hf.Lit != nil || core.Rel(hf.Pkg.PkgPath) != parserPkg {
				return true
			}
			ps := c23Params(hf)
			if len(ps) != len(call.Args) {
				return true
			}
			hands, handsOp := false, false
			for j, a := range call.Args {
				switch {
				case cl.vars[identObj(x.info, x.deref(a))]:
					cl.vars[ps[j]] = true
					hands = true
				case x.isOp(cl, a):
					cl.opVars[ps[j]] = true
					handsOp = true
				}
			}
			if hands {
				cl.calls[call] = hf
			}
			if seen[hf] {
				return true
			}
			if hands {
				seen[hf] = true
				cl.stmts = append(cl.stmts, hf.Body.List...)
				x.c.Analysed(hf)
			} else if handsOp {
				// an operator-spelling table function: a switch over the parameter whose cases return string constants
				probe := &c23Clause{vars: map[types.Object]bool{}, opVars: cl.opVars, stmts: hf.Body.List}
				if len(x.opSwitches(probe, true)) > 0 {
					seen[hf] = true
					cl.stmts = append(cl.stmts, hf.Body.List...)
					x.c.Analysed(hf)
				}
			}
			depth++
			return true
		})
	}
	return cl
}

func c23Params(f *core.Func) []types.Object {
	var out []types.Object
	for _, fl := range f.Type.Params.List {
		for _, n := range fl.Names {
			out = append(out, f.Info().Defs[n])
		}
	}
	return out
}

func c23(c *core.Check) {
	c.Explain = "The formatter is an AST printer; brackets, quotes and escapes are absent from the AST, so it has to re-create them.  Decided from /repo's current source: (R1) every field that a grammar action fills from a non-constant value is read by the printer's clause for that node type (nothing the parser can express is dropped: hidden, `as` name, keys, limit, buckets, else-branch, expiry, …) and every node type the parser builds has a clause; (R2) exhaustively over all (operator, side, kind of operand) triples the grammar admits: wherever the printer's bracket decision — obtained by partially evaluating its precedence tables — omits brackets, the grammar derives that operand in that position without brackets, so the text reparses to the same tree; pattern concatenations, which admit no brackets, are recognised by the pattern context only; (R3) the text of every string/regex literal token is printed through the inverse of the lexer's delimiter unescaping, and names/keys that may be either identifier or string go through a function that quotes what does not lex as one identifier; (R4) every float is printed with a shortest-round-trip format and, where the grammar needs a float token, with a decimal point or exponent; integers in base 10; (R5) for every operator the spelling printed lexes back to that operator.  Not decided: whitespace/newline placement, comments (dropped by design), idempotence as a dynamic fact, programs the checker rewrites."
	c.Assume = append(c.Assume, "parser.go is what goyacc generates from parser.y (decided under C01-R1)", "strconv.FormatFloat(x, fmt, -1, 64) round-trips", "go/cfg is not needed here: the rules are about tables and expressions")
	up := c.MustFn("C23-R1", unparserKey)
	lex := c.MustFn("C23-R5", lexProgKey)
	g, gerr := readGrammar(c)
	if gerr != "" {
		c.Undecided("C23-R1", "grammar", "internal/runtime/compiler/parser/parser.y", "cannot read the grammar: "+gerr)
		return
	}
	if up == nil || lex == nil {
		return
	}
	info := up.Info()
	astPkg := c.Prog.Pkgs["internal/runtime/compiler/ast"]
	if astPkg == nil {
		c.Undecided("C23-R1", "ast package", "-", "not loaded")
		return
	}
	// printer clauses: node type name -> clause (with the helpers the clause hands the node to)
	var parserFuncs []*core.Func
	for _, f := range shipped(c) {
		if core.Rel(f.Pkg.PkgPath) == parserPkg {
			parserFuncs = append(parserFuncs, f)
		}
	}
	x := &c23Ctx{c: c, up: up, info: info, defs: c23Defs(parserFuncs), clauses: map[string]*c23Clause{}}
	clauses := x.clauses
	var mainSwitch *ast.TypeSwitchStmt
	core.InspectNoLit(up.Body, func(n ast.Node) bool {
		ts, ok := n.(*ast.TypeSwitchStmt)
		if !ok || mainSwitch != nil {
			return true
		}
		mainSwitch = ts
		for _, cl := range ts.Body.List {
			cc := cl.(*ast.CaseClause)
			for _, e := range cc.List {
				if typ := c23AstType(info, e); typ != "" {
					clauses[typ] = x.buildClause(cc, typ)
				}
			}
		}
		return false
	})
	if mainSwitch == nil {
		c.Undecided("C23-R1", unparserKey, pos(c, up.Decl), "no type switch over the node found")
		return
	}

	// ---------------------------------------------------------------- R1
	c.Rule("C23-R1", "FIELD-COVERAGE: for each (node type, field) that some grammar action sets from a non-constant value (token text, flag, sub-tree; positions excluded), the printer's clause for that type (its case body and the helpers it hands the node to) reads the field, passes the value of a non-flag field on (to a call, range, switch tag or local — a mere test such as `v.Limit > 0` or `len(v.Keys) > 0` prints nothing of it), and does not print it only under a condition on another field; each node type built by the grammar has a clause")
	type setField struct{ typ, field, from string }
	var sets []setField
	structOf := func(name string) *types.Struct {
		o := astPkg.Types.Scope().Lookup(name)
		if o == nil {
			return nil
		}
		st, _ := o.Type().Underlying().(*types.Struct)
		return st
	}
	splitArgs := func(s string) []string {
		var out []string
		depth, start := 0, 0
		for i, ch := range s {
			switch ch {
			case '(', '{', '[':
				depth++
			case ')', '}', ']':
				depth--
			case ',':
				if depth == 0 {
					out = append(out, strings.TrimSpace(s[start:i]))
					start = i + 1
				}
			}
		}
		if t := strings.TrimSpace(s[start:]); t != "" {
			out = append(out, t)
		}
		return out
	}
	isConstExpr := func(e string) bool {
		switch e {
		case "nil", "true", "false", "":
			return true
		}
		return regexp.MustCompile(`^[A-Z_]+$`).MatchString(e) // a token constant such as MATCH, PLUS
	}
	reAssign := regexp.MustCompile(`\(\*ast\.(\w+)\)\.(\w+)\s*=\s*([^\n]+)`)
	reVarAssign := regexp.MustCompile(`(?m)^\s*(\w+)\.(\w+)\s*=\s*([^\n]+)`)
	reVarDecl := regexp.MustCompile(`(\w+)\s*:=\s*\$\$\.\(\*ast\.(\w+)\)`)
	builtTypes := map[string]string{}
	for _, head := range g.Order {
		for _, alt := range g.Rules[head] {
			act := alt.Action
			// composite literals
			for _, loc := range c23ActionType.FindAllStringSubmatchIndex(act, -1) {
				typ := act[loc[2]:loc[3]]
				// find matching brace
				depth, end := 0, -1
				for i := loc[1] - 1; i < len(act); i++ {
					if act[i] == '{' {
						depth++
					}
					if act[i] == '}' {
						depth--
						if depth == 0 {
							end = i
							break
						}
					}
				}
				if end < 0 {
					continue
				}
				if _, seen := builtTypes[typ]; !seen {
					builtTypes[typ] = fmt.Sprintf("%s:%d (%s)", g.Path, alt.Line, head)
				}
				st := structOf(typ)
				if st == nil {
					c.Undecided("C23-R1", "type "+typ, g.Path, "grammar builds an ast type that is not a struct of package ast")
					continue
				}
				for i, a := range splitArgs(act[loc[1]:end]) {
					field, val := "", a
					if m := regexp.MustCompile(`^(\w+):\s*(.*)$`).FindStringSubmatch(a); m != nil {
						field, val = m[1], strings.TrimSpace(m[2])
					} else if i < st.NumFields() {
						field = st.Field(i).Name()
					}
					if field == "" || isConstExpr(val) {
						continue
					}
					sets = append(sets, setField{typ, field, head})
				}
			}
			for _, m := range reAssign.FindAllStringSubmatch(act, -1) {
				if strings.Contains(m[3], "append(") && strings.Contains(m[3], "."+m[2]) || !isConstExpr(strings.TrimSpace(m[3])) {
					sets = append(sets, setField{m[1], m[2], head})
				}
			}
			if vm := reVarDecl.FindStringSubmatch(act); vm != nil {
				for _, m := range reVarAssign.FindAllStringSubmatch(act, -1) {
					if m[1] == vm[1] && !isConstExpr(strings.TrimSpace(m[3])) {
						sets = append(sets, setField{vm[2], m[2], head})
					}
				}
			}
		}
	}
	seenSet := map[string]bool{}
	n1 := 0
	for _, sf := range sets {
		k := sf.typ + "." + sf.field
		if seenSet[k] {
			continue
		}
		seenSet[k] = true
		st := structOf(sf.typ)
		var fv *types.Var
		for i := 0; st != nil && i < st.NumFields(); i++ {
			if st.Field(i).Name() == sf.field {
				fv = st.Field(i)
			}
		}
		if fv == nil {
			c.Undecided("C23-R1", k, g.Path, "field set by the grammar not found in the ast struct")
			continue
		}
		if strings.HasSuffix(fv.Type().String(), "position.Position") {
			continue
		}
		n1++
		cl := clauses[sf.typ]
		if cl == nil {
			c.Fail("C23-R1", k, pos(c, mainSwitch), "the formatter has no clause for "+sf.typ+", which the grammar builds (production of "+sf.from+"): formatting such a program panics")
			continue
		}
		read := false
		for _, st := range cl.stmts {
			ast.Inspect(st, func(n ast.Node) bool {
				if sel, ok := n.(*ast.SelectorExpr); ok {
					if s := info.Selections[sel]; s != nil && s.Obj() == fv {
						read = true
					}
				}
				return !read
			})
		}
		// a field that carries a value (anything but a flag) must flow somewhere: into a call (emit, Walk, a formatter,
		// a helper), a range, a switch tag or a local — a mere test of it (`if v.Limit > 0`, `len(v.Keys) > 0`) prints nothing of it
		if _, isFlag := fv.Type().Underlying().(*types.Basic); read && !(isFlag && fv.Type().Underlying().(*types.Basic).Kind() == types.Bool) {
			flows := false
			isFv := func(e ast.Expr) bool {
				sel, ok := core.Unparen(e).(*ast.SelectorExpr)
				if !ok {
					return false
				}
				s := info.Selections[sel]
				return s != nil && s.Obj() == fv
			}
			has := func(n ast.Node) bool {
				hit := false
				if n == nil {
					return false
				}
				ast.Inspect(n, func(m ast.Node) bool {
					if call, ok := m.(*ast.CallExpr); ok {
						if id := up.CalleeID(call); id == "builtin.len" || id == "builtin.cap" {
							return false // the size of the value is not the value
						}
					}
					if e, ok := m.(ast.Expr); ok && isFv(e) {
						hit = true
					}
					return !hit
				})
				return hit
			}
			for _, st := range cl.stmts {
				ast.Inspect(st, func(n ast.Node) bool {
					switch y := n.(type) {
					case *ast.CallExpr:
						if id := up.CalleeID(y); id == "builtin.len" || id == "builtin.cap" {
							return false
						}
						for _, a := range y.Args {
							if has(a) {
								flows = true
							}
						}
					case *ast.RangeStmt:
						if has(y.X) {
							flows = true
						}
					case *ast.SwitchStmt:
						if y.Tag != nil && has(y.Tag) {
							flows = true
						}
					case *ast.AssignStmt:
						for _, r := range y.Rhs {
							if has(r) {
								flows = true
							}
						}
					case *ast.ValueSpec:
						for _, r := range y.Values {
							if has(r) {
								flows = true
							}
						}
					case *ast.TypeAssertExpr:
						if has(y.X) {
							flows = true
						}
					}
					return !flows
				})
			}
			if !flows {
				c.Fail("C23-R1", k, pos(c, cl.cc), fmt.Sprintf("the formatter's clause for %s only tests %s and never passes its value on to be printed: the value the grammar read from the source (production of %s) is missing from the formatted program", sf.typ, sf.field, sf.from))
				continue
			}
		}
		if read {
			// the field's emission must not hinge on a condition over ANOTHER field of the node
			var offending string
			var visit func(n ast.Node, conds []ast.Expr, depth int)
			isNode := func(e ast.Expr) bool { return cl.vars[identObj(info, x.deref(e))] }
			usesOther := func(cond ast.Expr) string {
				other := ""
				ast.Inspect(cond, func(m ast.Node) bool {
					if sel, ok := m.(*ast.SelectorExpr); ok && isNode(sel.X) {
						if s := info.Selections[sel]; s != nil && s.Kind() == types.FieldVal && s.Obj() != fv {
							other = sel.Sel.Name
						}
					}
					return true
				})
				return other
			}
			mentions := func(n ast.Node) bool {
				hit := false
				ast.Inspect(n, func(m ast.Node) bool {
					if sel, ok := m.(*ast.SelectorExpr); ok {
						if s := info.Selections[sel]; s != nil && s.Obj() == fv && isNode(sel.X) {
							hit = true
						}
					}
					return !hit
				})
				return hit
			}
			with := func(conds []ast.Expr, c ast.Expr) []ast.Expr {
				return append(append([]ast.Expr{}, conds...), c)
			}
			visit = func(n ast.Node, conds []ast.Expr, depth int) {
				switch y := n.(type) {
				case *ast.IfStmt:
					visit(y.Body, with(conds, y.Cond), depth)
					if y.Else != nil {
						visit(y.Else, with(conds, y.Cond), depth)
					}
				case *ast.BlockStmt:
					for _, st := range y.List {
						visit(st, conds, depth)
					}
				case *ast.ExprStmt, *ast.AssignStmt:
					// the clause hands the node to a helper: the helper's body is printed under the same conditions
					handed := false
					ast.Inspect(y, func(m ast.Node) bool {
						if call, ok := m.(*ast.CallExpr); ok {
							if hf := cl.calls[call]; hf != nil && depth < 3 {
								handed = true
								visit(hf.Body, conds, depth+1)
							}
						}
						return true
					})
					if !handed && mentions(y) {
						for _, cd := range conds {
							if o := usesOther(cd); o != "" && !mentions(cd) {
								offending = o
							}
						}
					}
				case *ast.ForStmt:
					visit(y.Body, conds, depth)
				case *ast.RangeStmt:
					visit(y.Body, conds, depth)
				case *ast.SwitchStmt:
					visit(y.Body, conds, depth)
				case *ast.CaseClause:
					for _, st := range y.Body {
						visit(st, conds, depth)
					}
				}
			}
			for _, st := range cl.cc.Body {
				visit(st, nil, 0)
			}
			if offending != "" {
				c.Fail("C23-R1", k, pos(c, cl.cc), fmt.Sprintf("the formatter prints %s.%s only under a condition on another field (%s): a declaration that has %s but not %s is formatted without it", sf.typ, sf.field, offending, sf.field, offending))
				continue
			}
		}
		c.Verdict(read, "C23-R1", k, pos(c, cl.cc), "read by the clause", fmt.Sprintf("the formatter's clause for %s never reads %s, which the grammar fills from the source (production of %s): formatting silently drops it, so the formatted program declares or does something else", sf.typ, sf.field, sf.from))
	}
	for typ, where := range builtTypes {
		if clauses[typ] == nil {
			c.Fail("C23-R1", "clause "+typ, pos(c, mainSwitch), "no clause for "+typ+" built at "+where)
		}
	}
	c.Extra["fields_set_by_grammar"] = sortedKeys(seenSet)
	c.Floor("C23-R1", 30)

	// ---------------------------------------------------------------- R2
	c.Rule("C23-R2", "BRACKETS: for every operator production of the grammar, each operand side and each kind of operand node that can occur there: if the printer's decision for that triple is to print the operand without brackets, the operand's own production is derivable from the operand position by unit productions (so no brackets are needed); brackets are emitted only around operands that `( logical_expr )` can hold")
	slots, kinds, why := c23GrammarFacts(g)
	if why != "" {
		c.Undecided("C23-R2", "grammar", g.Path, why)
	} else {
		c23Brackets(x, g, slots, kinds)
	}
	c.Floor("C23-R2", 40)

	// ---------------------------------------------------------------- R3
	c23Literals(x)
	// ---------------------------------------------------------------- R4
	c23Numbers(x)

	// ---------------------------------------------------------------- R5
	c.Rule("C23-R5", "SPELLING: for every operator case of the printer's BinaryExpr and UnaryExpr clauses, the string printed (spaces trimmed) is a spelling for which the lexer emits exactly that token")
	trie := lexerTrie(lex)
	n5 := 0
	spelled := map[string]map[string]bool{} // node type -> operators that have a spelling case
	for _, typ := range []string{"BinaryExpr", "UnaryExpr"} {
		cl := clauses[typ]
		if cl == nil {
			continue
		}
		spelled[typ] = map[string]bool{}
		for _, cases := range x.opSwitches(cl, true) {
			for _, oc := range cases {
				for _, tokName := range oc.toks {
					spelled[typ][tokName] = true
					if typ == "UnaryExpr" && tokName == "MATCH" {
						continue // the bare pattern condition prints no operator
					}
					n5++
					key := typ + " " + tokName
					if len(oc.lits) != 1 {
						c.Undecided("C23-R5", key, pos(c, oc.cc), fmt.Sprintf("%d constant spellings emitted in this case", len(oc.lits)))
						continue
					}
					got := trie[oc.lits[0]]
					okSp := len(got) == 1 && got[0] == tokName
					// an operator never produced by the grammar for this node type cannot be misprinted
					c.Verdict(okSp, "C23-R5", key, pos(c, oc.cc), fmt.Sprintf("%q lexes to %v", oc.lits[0], got), fmt.Sprintf("the formatter prints operator %s as %q, which the lexer reads as %v: the formatted program computes something else (or does not parse)", tokName, oc.lits[0], got))
				}
			}
		}
	}
	// every operator the grammar can put in a BinaryExpr/UnaryExpr has a case
	for _, sl := range slots {
		cl := clauses[sl.Node]
		if cl == nil {
			continue
		}
		if len(spelled[sl.Node]) == 0 {
			continue // no operator switch recognised at all: the floor reports it
		}
		if !spelled[sl.Node][sl.Op] {
			c.Fail("C23-R5", sl.Node+" "+sl.Op+" missing", pos(c, cl.cc), "the grammar builds "+sl.Node+" with operator "+sl.Op+" but the formatter has no case for it: it prints `Unexpected op`")
		}
	}
	c.Floor("C23-R5", 25)
}

// c23Brackets decides rule R2.
func c23Brackets(x *c23Ctx, g *yGrammar, slots []c23Slot, kinds []c23Kind) {
	c, up, clauses := x.c, x.up, x.clauses
	info := up.Info()
	pkg := c.Prog.Pkgs[parserPkg]
	tokVal := func(name string) (int64, bool) {
		o, _ := pkg.Types.Scope().Lookup(name).(*types.Const)
		if o == nil {
			return 0, false
		}
		return constant.Int64Val(o.Val())
	}
	inParens := g.unitClosure("logical_expr")
	// kinds that can stand in a slot: without brackets (unit closure) or with brackets (primary_expr reachable and kind fits logical_expr)
	type decision struct {
		omit   bool
		detail string
	}
	// locate, in the Binary/Unary clauses, how each operand is printed
	type operandSite struct {
		node   string // BinaryExpr / UnaryExpr
		field  string // LHS, RHS, Expr
		ops    []string
		call   *ast.CallExpr
		right  *bool // literal side argument when printed through a helper
		helper *core.Func
		argIdx int // position of the operand among the call's arguments
	}
	var sites []operandSite
	for _, node := range []string{"BinaryExpr", "UnaryExpr"} {
		cl := clauses[node]
		if cl == nil {
			c.Fail("C23-R2", node+" clause", pos(c, up.Decl), "the formatter has no clause for "+node)
			continue
		}
		var visit func(n ast.Node, ops []string)
		visit = func(n ast.Node, ops []string) {
			ast.Inspect(n, func(m ast.Node) bool {
				if sw, ok := m.(*ast.SwitchStmt); ok && sw.Tag != nil && x.isOp(cl, sw.Tag) {
					for _, cc0 := range sw.Body.List {
						cc := cc0.(*ast.CaseClause)
						var toks []string
						for _, e := range cc.List {
							toks = append(toks, c23ConstName(info, e))
						}
						for _, st := range cc.Body {
							visit(st, toks)
						}
					}
					return false
				}
				call, ok := m.(*ast.CallExpr)
				if !ok {
					return true
				}
				// which operand field of the node does this call print?
				for i, a := range call.Args {
					fld := ""
					for _, f := range []string{"LHS", "RHS", "Expr"} {
						if x.nodeField(cl, a, f) {
							fld = f
						}
					}
					if fld == "" {
						continue
					}
					id := up.CalleeID(call)
					site := operandSite{node: node, field: fld, ops: ops, call: call}
					if strings.HasSuffix(id, "ast.Walk") {
						sites = append(sites, site)
					} else if hf := up.CalleeFunc(call); hf != nil {
						site.helper = hf
						site.argIdx = i
						for j, b := range call.Args {
							if j != i {
								if bv, ok := constBool(info, b); ok {
									bb := bv
									site.right = &bb
								}
							}
						}
						sites = append(sites, site)
					}
				}
				return true
			})
		}
		for _, st := range cl.stmts {
			visit(st, nil)
		}
	}
	if len(sites) < 4 {
		c.Undecided("C23-R2", "operand sites", pos(c, up.Decl), fmt.Sprintf("only %d operand print sites recognised in the BinaryExpr/UnaryExpr clauses", len(sites)))
		return
	}
	// analyse a helper: returns a function deciding omit-brackets for (op token, right, child kind)
	type extraTerm struct {
		positive bool       // the term holds when the operand is (inside) a pattern
		fld      *types.Var // the pattern-depth counter field, for a counter test; nil for a `is a PatternExpr` flag
		text     string
	}
	type helperModel struct {
		precFn, slotFn *core.Func
		cmp            token.Token // precedence(child) CMP slot(op, right)  => omit brackets
		nodeParam      int         // index of the helper parameter whose precedence is taken
		opParam        int         // index of the helper parameter handed to the operand-precedence table as operator
		sideParam      int         // index of the helper parameter handed to it as side, or -1
		fixedSide      *bool       // the side is a constant inside the helper
		extra          []extraTerm
		unknown        []string
		inverted       string
		why            string
	}
	var parserFuncs []*core.Func
	for _, f := range shipped(c) {
		if core.Rel(f.Pkg.PkgPath) == parserPkg {
			parserFuncs = append(parserFuncs, f)
		}
	}
	flip := map[token.Token]token.Token{token.LSS: token.GEQ, token.GEQ: token.LSS, token.LEQ: token.GTR, token.GTR: token.LEQ, token.EQL: token.NEQ, token.NEQ: token.EQL}
	mirror := map[token.Token]token.Token{token.LSS: token.GTR, token.GTR: token.LSS, token.LEQ: token.GEQ, token.GEQ: token.LEQ, token.EQL: token.EQL, token.NEQ: token.NEQ}
	models := map[*core.Func]*helperModel{}
	analyse := func(hf *core.Func) *helperModel {
		if m, ok := models[hf]; ok {
			return m
		}
		m := &helperModel{}
		models[hf] = m
		c.Analysed(hf)
		hinfo := hf.Info()
		// find the statement that emits "(" ... ")" and the condition under which it is skipped
		emitsParen := func(n ast.Node, s string) bool {
			found := false
			ast.Inspect(n, func(y ast.Node) bool {
				if call, ok := y.(*ast.CallExpr); ok && strings.HasSuffix(hf.CalleeID(call), "(*Unparser).emit") && len(call.Args) == 1 {
					if sv, ok := x.constStr(x.deref(call.Args[0])); ok && sv == s {
						found = true
					}
				}
				return !found
			})
			return found
		}
		if !emitsParen(hf.Body, "(") || !emitsParen(hf.Body, ")") {
			m.why = "the helper emits no brackets"
			return m
		}
		var cond ast.Expr
		condOmits := false
		for _, st := range hf.Body.List {
			is, ok := st.(*ast.IfStmt)
			if !ok {
				continue
			}
			thenParen := emitsParen(is.Body, "(")
			elseParen := is.Else != nil && emitsParen(is.Else, "(")
			switch {
			case !thenParen && is.Else == nil:
				// if cond { walk; return }  brackets after
				cond, condOmits = is.Cond, true
			case !thenParen && elseParen:
				// if cond { walk } else { ( walk ) }
				cond, condOmits = is.Cond, true
			case thenParen && !elseParen:
				// if cond { ( walk ) } [else { walk }]
				cond, condOmits = is.Cond, false
			}
		}
		if cond == nil {
			m.why = "no condition around the bracket emission recognised"
			return m
		}
		// split a disjunction (omit form) or conjunction (bracket form)
		var terms []ast.Expr
		var split func(e ast.Expr, op token.Token)
		split = func(e ast.Expr, op token.Token) {
			e = x.deref(e)
			if be, ok := e.(*ast.BinaryExpr); ok && be.Op == op {
				split(be.X, op)
				split(be.Y, op)
				return
			}
			terms = append(terms, e)
		}
		if condOmits {
			split(cond, token.LOR)
		} else {
			split(cond, token.LAND)
		}
		isPatternFlag := func(o types.Object) bool {
			hit := false
			ast.Inspect(hf.Body, func(n ast.Node) bool {
				if as, ok := n.(*ast.AssignStmt); ok && len(as.Lhs) == 2 && len(as.Rhs) == 1 {
					if ta, ok := core.Unparen(as.Rhs[0]).(*ast.TypeAssertExpr); ok && ta.Type != nil && c23AstType(hinfo, ta.Type) == "PatternExpr" && o != nil && identObj(hinfo, as.Lhs[1]) == o {
						hit = true
					}
				}
				return true
			})
			return hit
		}
		for _, t0 := range terms {
			t, neg := t0, false
			for {
				u, ok := core.Unparen(t).(*ast.UnaryExpr)
				if !ok || u.Op != token.NOT {
					break
				}
				neg = !neg
				t = x.deref(u.X)
			}
			t = core.Unparen(t)
			if be, ok := t.(*ast.BinaryExpr); ok {
				l, r := x.deref(be.X), x.deref(be.Y)
				lc, lok := l.(*ast.CallExpr)
				rc, rok := r.(*ast.CallExpr)
				if lok && rok && hf.CalleeFunc(lc) != nil && hf.CalleeFunc(rc) != nil {
					lf, rf := hf.CalleeFunc(lc), hf.CalleeFunc(rc)
					op := be.Op
					if len(lc.Args) == 2 && len(rc.Args) == 1 { // slot CMP prec: mirror
						lf, rf = rf, lf
						op = mirror[op]
					}
					if neg {
						op = flip[op]
					}
					if !condOmits { // brackets when cond: omit is the negation
						op = flip[op]
					}
					if op == token.GEQ || op == token.GTR {
						m.precFn, m.slotFn, m.cmp = lf, rf, op
						// the tables must be asked about THIS operand, operator and side
						precCall, slotCall := lc, rc
						if len(lc.Args) == 2 && len(rc.Args) == 1 {
							precCall, slotCall = rc, lc
						}
						hps := c23Params(hf)
						paramIdx := func(e ast.Expr) int {
							o := identObj(hinfo, x.deref(e))
							for i, p := range hps {
								if o != nil && p == o {
									return i
								}
							}
							return -1
						}
						m.nodeParam, m.opParam, m.sideParam = -1, -1, -1
						if len(precCall.Args) == 1 {
							m.nodeParam = paramIdx(precCall.Args[0])
						}
						if len(slotCall.Args) == 2 {
							m.opParam = paramIdx(slotCall.Args[0])
							if bv, ok := constBool(hinfo, slotCall.Args[1]); ok {
								m.fixedSide = &bv
							} else {
								m.sideParam = paramIdx(slotCall.Args[1])
							}
						}
						continue
					}
					m.unknown = append(m.unknown, exprStr(t0))
					continue
				}
				// pattern-depth counter compared with a constant
				fldOf := func(e ast.Expr) *types.Var {
					if sel, ok := e.(*ast.SelectorExpr); ok {
						if sl := hinfo.Selections[sel]; sl != nil && sl.Kind() == types.FieldVal {
							if fv, ok := sl.Obj().(*types.Var); ok {
								return fv
							}
						}
					}
					return nil
				}
				op := be.Op
				fv := fldOf(l)
				kv, kok := constInt(hinfo, be.Y)
				if fv == nil {
					fv = fldOf(r)
					kv, kok = constInt(hinfo, be.X)
					op = mirror[op]
				}
				if fv != nil && kok {
					sense := 0 // +1: counter is positive, -1: counter is zero
					switch {
					case op == token.GTR && kv == 0, op == token.NEQ && kv == 0, op == token.GEQ && kv == 1:
						sense = 1
					case op == token.EQL && kv == 0, op == token.LEQ && kv == 0, op == token.LSS && kv == 1:
						sense = -1
					}
					if sense != 0 {
						m.extra = append(m.extra, extraTerm{positive: (sense > 0) != neg, fld: fv, text: exprStr(t0)})
						continue
					}
				}
				m.unknown = append(m.unknown, exprStr(t0))
				continue
			}
			if o := identObj(hinfo, t); o != nil && isPatternFlag(o) {
				m.extra = append(m.extra, extraTerm{positive: !neg, text: exprStr(t0)})
				continue
			}
			m.unknown = append(m.unknown, exprStr(t0))
		}
		if m.precFn == nil {
			m.why = "no comparison `precedence(operand) >= needed(op, side)` recognised in " + exprStr(cond)
			return m
		}
		if m.nodeParam < 0 || m.opParam < 0 || (m.sideParam < 0 && m.fixedSide == nil) {
			m.why = "the comparison in " + exprStr(cond) + " is not between the precedence of the helper's operand parameter and the precedence needed by its operator and side parameters"
			return m
		}
		// in the omit form every pattern term must hold INSIDE a pattern; in the bracket form, OUTSIDE
		for _, t := range m.extra {
			if t.positive != condOmits {
				m.inverted = t.text
			}
		}
		return m
	}
	// the extra no-bracket conditions must be the pattern context
	patternClause := func(p token.Pos) string {
		for typ, cl := range clauses {
			if (typ == "PatternExpr" || typ == "PatternFragment") && cl.cc.Pos() <= p && p < cl.cc.End() {
				return typ
			}
		}
		return ""
	}
	justifyExtra := func(hf *core.Func, m *helperModel) (ok bool, detail string) {
		if len(m.unknown) > 0 {
			return false, "unrecognised no-bracket condition `" + strings.Join(m.unknown, "`, `") + "`"
		}
		if m.inverted != "" {
			return false, "INVERTED: the test `" + m.inverted + "` has the opposite sense"
		}
		var texts []string
		for _, t := range m.extra {
			texts = append(texts, t.text)
			if t.fld == nil {
				continue
			}
			// every change of the counter: +1 / -1 only, paired in its block, and made while printing a pattern
			type change struct {
				f     *core.Func
				at    ast.Stmt
				delta int
			}
			var changes []change
			bad := ""
			isFld := func(f *core.Func, e ast.Expr) bool {
				sel, ok := core.Unparen(e).(*ast.SelectorExpr)
				if !ok {
					return false
				}
				sl := f.Info().Selections[sel]
				return sl != nil && sl.Obj() == t.fld
			}
			for _, f := range parserFuncs {
				if f.Lit != nil {
					continue // literal bodies are walked with their declaration
				}
				ast.Inspect(f.Body, func(n ast.Node) bool {
					switch y := n.(type) {
					case *ast.IncDecStmt:
						if isFld(f, y.X) {
							d := 1
							if y.Tok == token.DEC {
								d = -1
							}
							changes = append(changes, change{f, y, d})
						}
					case *ast.AssignStmt:
						for i, l := range y.Lhs {
							if !isFld(f, l) {
								continue
							}
							k, kok := int64(0), false
							if len(y.Rhs) == len(y.Lhs) {
								k, kok = constInt(f.Info(), y.Rhs[i])
							}
							switch {
							case y.Tok == token.ADD_ASSIGN && kok && k == 1:
								changes = append(changes, change{f, y, 1})
							case y.Tok == token.SUB_ASSIGN && kok && k == 1:
								changes = append(changes, change{f, y, -1})
							default:
								bad = c.Prog.Position(y.Pos())
							}
						}
					case *ast.UnaryExpr:
						if y.Op == token.AND && isFld(f, y.X) {
							bad = c.Prog.Position(y.Pos())
						}
					}
					return true
				})
			}
			if bad != "" {
				return false, t.fld.Name() + " is changed other than by one up / one down at " + bad
			}
			if len(changes) == 0 {
				return false, t.fld.Name() + " is never changed: the pattern context is never entered"
			}
			// pairing inside each statement list
			lists := map[*core.Func][][]ast.Stmt{}
			for _, ch := range changes {
				if _, done := lists[ch.f]; done {
					continue
				}
				var ls [][]ast.Stmt
				ast.Inspect(ch.f.Body, func(n ast.Node) bool {
					switch y := n.(type) {
					case *ast.BlockStmt:
						ls = append(ls, y.List)
					case *ast.CaseClause:
						ls = append(ls, y.Body)
					case *ast.CommClause:
						ls = append(ls, y.Body)
					}
					return true
				})
				lists[ch.f] = ls
			}
			delta := map[ast.Stmt]int{}
			for _, ch := range changes {
				delta[ch.at] = ch.delta
			}
			for f, ls := range lists {
				for _, l := range ls {
					inc, dec, okOrder := 0, 0, true
					var first ast.Stmt
					for _, st := range l {
						switch delta[st] {
						case 1:
							inc++
							if first == nil {
								first = st
							}
						case -1:
							dec++
							if first == nil {
								first = st
							}
							if dec > inc {
								okOrder = false
							}
						}
					}
					if inc != dec || !okOrder {
						where := patternClause(first.Pos())
						if where == "" {
							where = f.Key
						} else {
							where += " clause"
						}
						return false, "PAIRING: the pattern context is entered " + fmt.Sprint(inc) + " times and left " + fmt.Sprint(dec) + " times in the " + where
					}
				}
			}
			// made while printing a pattern: inside a pattern clause, or inside a helper called only from there
			var patternOnly func(f *core.Func, depth int) bool
			patternOnly = func(f *core.Func, depth int) bool {
				if f == up || depth > 2 || f.Lit != nil {
					return false
				}
				n := 0
				okAll := true
				for _, g := range parserFuncs {
					ast.Inspect(g.Body, func(y ast.Node) bool {
						if lit, isLit := y.(*ast.FuncLit); isLit && g.Lit != lit {
							return false // visited as its own function
						}
						call, isCall := y.(*ast.CallExpr)
						if !isCall || g.CalleeFunc(call) != f {
							return true
						}
						n++
						root := g
						for root.Parent != nil {
							root = root.Parent
						}
						switch {
						case root == up && patternClause(call.Pos()) != "":
						case root != up && root != f && patternOnly(root, depth+1):
						default:
							okAll = false
						}
						return true
					})
				}
				return n > 0 && okAll
			}
			for _, ch := range changes {
				root := ch.f
				for root.Parent != nil {
					root = root.Parent
				}
				if root == up && patternClause(ch.at.Pos()) != "" {
					continue
				}
				if root != up && patternOnly(root, 0) {
					c.Analysed(root)
					continue
				}
				return false, t.fld.Name() + " is changed outside the printing of a pattern at " + c.Prog.Position(ch.at.Pos())
			}
		}
		return true, strings.Join(texts, " || ")
	}
	evalPrec := func(fn *core.Func, k c23Kind) (int64, bool, string) {
		ps := c23Params(fn)
		if len(ps) != 1 {
			return 0, false, "precedence function does not take one node"
		}
		v := c23Val{isNode: true, typ: k.Type}
		if k.Op != "" {
			tv, ok := tokVal(k.Op)
			if !ok {
				return 0, false, "unknown token " + k.Op
			}
			v.op, v.hasOp = tv, true
		}
		ev := &c23Eval{f: fn}
		r, ret, why := ev.call(map[types.Object]c23Val{ps[0]: v})
		if !ret && why == "" {
			why = "no return reached"
		}
		return r, ret, why
	}
	evalSlot := func(fn *core.Func, op string, right bool) (int64, bool, string) {
		ps := c23Params(fn)
		if len(ps) != 2 {
			return 0, false, "operand-precedence function does not take (op, side)"
		}
		tv, ok := tokVal(op)
		if !ok {
			return 0, false, "unknown token " + op
		}
		ev := &c23Eval{f: fn}
		r, ret, why := ev.call(map[types.Object]c23Val{ps[0]: {op: tv}, ps[1]: {isBool: true, b: right}})
		if !ret && why == "" {
			why = "no return reached"
		}
		return r, ret, why
	}
	example := func(sl c23Slot, side string, k c23Kind) string {
		child := "x ? y"
		if k.Op != "" {
			child = "x " + k.Op + " y"
			if k.Type == "UnaryExpr" {
				child = k.Op + " x"
			}
		}
		switch {
		case sl.Node == "BinaryExpr" && side == "left":
			return fmt.Sprintf("`(%s) %s z`", child, sl.Op)
		case sl.Node == "BinaryExpr":
			return fmt.Sprintf("`z %s (%s)`", sl.Op, child)
		default:
			return fmt.Sprintf("`%s (%s)`", sl.Op, child)
		}
	}
	// transparency of ConvExpr in the precedence function (the checker wraps operands in ConvExpr before mfmt prints)
	nChecked := 0
	// an operator token can be built by several productions (AND: `logical_expr && bitwise_expr`, `logical_expr && match_expr`,
	// `pattern && logical_expr`); the printed text reparses if SOME production derives the operand, so the operand
	// positions of one (node, operator, side) are merged
	type slotKey struct{ node, op, side string }
	merged := map[slotKey]map[string]bool{}
	mergedNT := map[slotKey][]string{}
	var order []slotKey
	var firstSlot = map[slotKey]c23Slot{}
	for _, sl := range slots {
		if sl.Head == "concat_expr" {
			continue
		}
		for _, side := range []string{"left", "right"} {
			nt := sl.Left
			if side == "right" {
				nt = sl.Right
			}
			if nt == "" {
				continue
			}
			k := slotKey{sl.Node, sl.Op, side}
			if merged[k] == nil {
				merged[k] = map[string]bool{}
				order = append(order, k)
				firstSlot[k] = sl
			}
			for x := range g.unitClosure(nt) {
				merged[k][x] = true
			}
			mergedNT[k] = append(mergedNT[k], nt)
		}
	}
	for _, sk := range order {
		{
			sl := firstSlot[sk]
			side := sk.side
			field := "LHS"
			if side == "right" {
				field = "RHS"
			}
			if sl.Node == "UnaryExpr" {
				field = "Expr"
			}
			accepts := merged[sk]
			slotNT := strings.Join(uniq(mergedNT[sk]), " | ")
			// find the print site for this operand
			var site *operandSite
			for i := range sites {
				s := &sites[i]
				if s.node != sl.Node || s.field != field {
					continue
				}
				if len(s.ops) > 0 {
					hit := false
					for _, o := range s.ops {
						if o == sl.Op {
							hit = true
						}
					}
					if !hit {
						continue
					}
				}
				site = s
			}
			keyBase := fmt.Sprintf("%s %s %s operand", sl.Node, sl.Op, side)
			if site == nil {
				if sl.Node == "UnaryExpr" && sl.Op == "MATCH" {
					continue
				}
				c.Undecided("C23-R2", keyBase, pos(c, up.Decl), "no print site found for this operand")
				continue
			}
			var model *helperModel
			if site.helper != nil {
				model = analyse(site.helper)
				if model.why != "" {
					c.Undecided("C23-R2", keyBase, pos(c, site.call), "bracket helper "+site.helper.Key+": "+model.why)
					continue
				}
				if ok, det := justifyExtra(site.helper, model); !ok {
					if strings.HasPrefix(det, "PAIRING") {
						c.Fail("C23-R2", keyBase, pos(c, site.call), "brackets are suppressed while the printer believes it is inside a pattern concatenation, and that belief is not reset: "+det+" — after the first pattern every later operand is printed without the brackets it needs")
					} else if strings.HasPrefix(det, "INVERTED") {
						c.Fail("C23-R2", keyBase, pos(c, site.call), "the pattern-context exception of the bracket decision is inverted ("+det+"): outside patterns every operand is printed without brackets whatever its precedence, and inside a pattern concatenation, where the grammar admits none, brackets are printed")
					} else {
						c.Undecided("C23-R2", keyBase, pos(c, site.call), det)
					}
					continue
				}
			}
			for _, k := range kinds {
				if k.Type == "PatternLit" || k.Type == "PatternExpr" || k.Head == "concat_expr" || sl.Head == "concat_expr" {
					continue // pattern concatenations admit no brackets; printed under the pattern context
				}
				if k.Type != "BinaryExpr" && k.Type != "UnaryExpr" {
					if !accepts[k.Head] && !accepts["primary_expr"] {
						continue
					}
				}
				if k.Type == "UnaryExpr" && k.Op == "MATCH" {
					continue // a bare pattern condition is never an operand of an expression operator
				}
				possibleBare := accepts[k.Head]
				possibleBracketed := accepts["primary_expr"] && inParens[k.Head]
				if !possibleBare && !possibleBracketed {
					continue
				}
				nChecked++
				key := fmt.Sprintf("%s|%s", keyBase, k)
				omit := true
				detail := "printed by a plain ast.Walk: never bracketed"
				if model != nil {
					// the side the helper asks its table about: a constant of its own, or the constant the clause passes
					right := side == "right"
					switch {
					case site.argIdx != model.nodeParam || model.opParam >= len(site.call.Args) || !x.isOp(clauses[sl.Node], site.call.Args[model.opParam]):
						c.Undecided("C23-R2", key, pos(c, site.call), "the bracket helper "+site.helper.Key+" does not take the precedence of the operand it is handed, or is not handed the node's operator")
						continue
					case model.fixedSide != nil:
						right = *model.fixedSide
					default:
						bv, ok := constBool(info, site.call.Args[model.sideParam])
						if !ok {
							c.Undecided("C23-R2", key, pos(c, site.call), "the side handed to "+site.helper.Key+" is not a constant")
							continue
						}
						right = bv
					}
					pv, ok1, w1 := evalPrec(model.precFn, k)
					sv, ok2, w2 := evalSlot(model.slotFn, sl.Op, right)
					if !ok1 || !ok2 {
						c.Undecided("C23-R2", key, pos(c, site.call), "cannot evaluate the precedence tables: "+w1+" "+w2)
						continue
					}
					if model.cmp == token.GEQ {
						omit = pv >= sv
					} else {
						omit = pv > sv
					}
					detail = fmt.Sprintf("precedence(%s)=%d, needed(%s,%s)=%d", k, pv, sl.Op, side, sv)
				}
				switch {
				case omit && !possibleBare:
					c.Fail("C23-R2", key, pos(c, site.call), fmt.Sprintf("the formatter prints a %s as the %s operand of %s without brackets (%s), but the grammar only accepts %s there, which does not derive %s: %s is formatted without its brackets and parses back to a different expression", k, side, sl.Op, detail, slotNT, k.Head, example(sl, side, k)))
				case !omit && !possibleBracketed:
					c.Fail("C23-R2", key, pos(c, site.call), fmt.Sprintf("the formatter brackets a %s as the %s operand of %s, but `( … )` cannot hold a %s: the output does not parse", k, side, sl.Op, k.Head))
				default:
					c.Ok("C23-R2", key, pos(c, site.call), fmt.Sprintf("%s; brackets omitted=%v, grammar needs none=%v", detail, omit, possibleBare))
				}
			}
		}
	}
	c.Extra["bracket_triples_checked"] = nChecked
	// ConvExpr / transparent wrappers: the precedence function must look through what the printer prints transparently
	for _, m := range models {
		if m.precFn == nil {
			continue
		}
		c.Analysed(m.precFn, m.slotFn)
		for typ, cl := range clauses {
			if typ != "ConvExpr" {
				continue
			}
			// the clause only walks one child: transparent
			through := false
			ast.Inspect(m.precFn.Body, func(n ast.Node) bool {
				cc, ok := n.(*ast.CaseClause)
				if !ok {
					return true
				}
				for _, e := range cc.List {
					if c23AstType(m.precFn.Info(), e) == typ {
						ast.Inspect(cc, func(y ast.Node) bool {
							if call, ok := y.(*ast.CallExpr); ok && m.precFn.CalleeFunc(call) == m.precFn {
								through = true
							}
							return true
						})
					}
				}
				return true
			})
			c.Verdict(through, "C23-R2", "transparent "+typ, pos(c, cl.cc), "precedence looks through "+typ, "the formatter prints "+typ+" (inserted by the type checker around operands) transparently but the precedence table treats it as a primary: a converted operand such as `(a + b) * 2.0` loses its brackets when mfmt prints the checked program")
		}
	}
}

// c23ReturnExprs lists the result expressions of f's return statements.
func c23ReturnExprs(f *core.Func) []ast.Expr {
	var out []ast.Expr
	core.InspectNoLit(f.Body, func(n ast.Node) bool {
		if r, ok := n.(*ast.ReturnStmt); ok && len(r.Results) == 1 {
			out = append(out, r.Results[0])
		}
		return true
	})
	return out
}

// flatten splits a + concatenation, looking through single-assignment locals.
func (x *c23Ctx) flatten(e ast.Expr) []ast.Expr {
	e = x.deref(e)
	if be, ok := e.(*ast.BinaryExpr); ok && be.Op == token.ADD {
		return append(x.flatten(be.X), x.flatten(be.Y)...)
	}
	return []ast.Expr{e}
}

// mentions reports whether e, read through single-assignment locals, contains an expression satisfying pred.
func (x *c23Ctx) mentions(e ast.Expr, pred func(ast.Expr) bool, depth int) bool {
	hit := false
	ast.Inspect(e, func(n ast.Node) bool {
		y, ok := n.(ast.Expr)
		if !ok || hit {
			return !hit
		}
		if pred(y) {
			hit = true
			return false
		}
		if id, ok := y.(*ast.Ident); ok && depth < 4 {
			if d := x.deref(id); d != ast.Expr(id) && x.mentions(d, pred, depth+1) {
				hit = true
			}
		}
		return !hit
	})
	return hit
}

type c23Quote int

const (
	c23QuoteOK      c23Quote = iota // delimiter + inverse of the lexer's unescaping + delimiter
	c23QuoteWrong                   // that shape, with the wrong delimiters, set or order of escapes — or no escaping at all
	c23QuoteUnknown                 // another way of building the text: not decided
)

// quoteShape reads e as `D + R(inner) + D` where R is a (possibly empty) nest of
// strings.ReplaceAll calls, each putting a backslash in front of one character.
// It is OK when D is the delimiter and R escapes exactly the characters in esc
// (the backslash itself, if it is among them, first).
func (x *c23Ctx) quoteShape(e ast.Expr, delim string, esc []string) (inner ast.Expr, st c23Quote, why string) {
	parts := x.flatten(e)
	if len(parts) != 3 {
		return nil, c23QuoteUnknown, ""
	}
	a, ok1 := x.constStr(parts[0])
	b, ok2 := x.constStr(parts[2])
	if !ok1 || !ok2 {
		return nil, c23QuoteUnknown, ""
	}
	// unnest ReplaceAll(ReplaceAll(x, o1, n1), o2, n2): application order o1, o2
	var olds []string
	cur := x.deref(parts[1])
	bad := ""
	for {
		call, ok := cur.(*ast.CallExpr)
		if !ok || x.up.CalleeID(call) != "strings.ReplaceAll" || len(call.Args) != 3 {
			break
		}
		o, okO := x.constStr(call.Args[1])
		n, okN := x.constStr(call.Args[2])
		if !okO || !okN {
			return nil, c23QuoteUnknown, ""
		}
		if n != "\\"+o {
			bad = fmt.Sprintf("replaces %q by %q instead of a backslash and the character", o, n)
		}
		olds = append([]string{o}, olds...)
		cur = x.deref(call.Args[0])
	}
	switch {
	case a != delim || b != delim:
		return cur, c23QuoteWrong, fmt.Sprintf("delimiters %q … %q", a, b)
	case bad != "":
		return cur, c23QuoteWrong, bad
	case len(olds) == 0:
		return cur, c23QuoteWrong, "the text is put between the delimiters as it is"
	case len(olds) != len(esc):
		return cur, c23QuoteWrong, fmt.Sprintf("escapes %q where the lexer unescapes %q", olds, esc)
	}
	want := map[string]bool{}
	for _, d := range esc {
		want[d] = true
	}
	for i, o := range olds {
		if !want[o] {
			return cur, c23QuoteWrong, fmt.Sprintf("escapes %q where the lexer unescapes %q", olds, esc)
		}
		delete(want, o)
		if o == "\\" && i != 0 {
			return cur, c23QuoteWrong, "escapes the backslash after another escape, doubling that escape's backslash"
		}
	}
	return cur, c23QuoteOK, ""
}

// c23Literals decides rule R3.
func c23Literals(x *c23Ctx) {
	c, up, clauses := x.c, x.up, x.clauses
	c.Rule("C23-R3", "ESCAPING: the lexer strips the backslash from an escaped delimiter inside a quoted string (\") and a regex (/) and keeps other escapes; the printer emits StringLit.Text, VarDecl.ExportedName and PatternLit.Pattern as delimiter + ReplaceAll(text, delimiter, backslash+delimiter) + delimiter (directly, through a local, or through a helper of that shape); VarDecl.Name and the elements of VarDecl.Keys, which the grammar takes from an identifier or a string, go through a function that returns its argument bare only if it is spelled like an identifier that is neither keyword nor builtin, and quoted by the same helper otherwise")
	info := x.info
	// delimiter unescaped by the lexer
	lexDelim := func(key string) ([]string, bool) {
		lf := c.Prog.Fn(key)
		if lf == nil {
			return nil, false
		}
		c.Analysed(lf)
		linfo := lf.Info()
		runeConst := func(e ast.Expr) (string, bool) {
			tv, ok := linfo.Types[e]
			if !ok || tv.Value == nil || tv.Value.Kind() != constant.Int {
				return "", false
			}
			r, exact := constant.Int64Val(tv.Value)
			if !exact || r < 0 {
				return "", false
			}
			return string(rune(r)), true
		}
		var ds []string
		ast.Inspect(lf.Body, func(n ast.Node) bool {
			is, ok := n.(*ast.IfStmt)
			if !ok {
				return true
			}
			// condition: r != 'a' && r != 'b' ... (either operand order, literal or named constant)
			var chars []string
			okCond := true
			var walk func(e ast.Expr)
			walk = func(e ast.Expr) {
				be, ok := core.Unparen(e).(*ast.BinaryExpr)
				if !ok {
					okCond = false
					return
				}
				if be.Op == token.LAND {
					walk(be.X)
					walk(be.Y)
					return
				}
				if be.Op != token.NEQ {
					okCond = false
					return
				}
				cx, isX := runeConst(be.X)
				cy, isY := runeConst(be.Y)
				switch {
				case isY && !isX:
					chars = append(chars, cy)
				case isX && !isY:
					chars = append(chars, cx)
				default:
					okCond = false
				}
			}
			walk(is.Cond)
			if !okCond || len(chars) == 0 {
				return true
			}
			// the body itself (not a nested statement) writes the backslash
			writes := false
			for _, st := range is.Body.List {
				es, ok := st.(*ast.ExprStmt)
				if !ok {
					continue
				}
				if call, ok := es.X.(*ast.CallExpr); ok && strings.HasSuffix(lf.CalleeID(call), "WriteRune") && len(call.Args) == 1 {
					if r, ok := runeConst(call.Args[0]); ok && r == "\\" {
						writes = true
					}
				}
			}
			if writes {
				ds = chars
			}
			return true
		})
		return ds, len(ds) > 0
	}
	strEsc, ok1 := lexDelim(parserPkg + ".lexQuotedString")
	reEsc, ok2 := lexDelim(parserPkg + ".lexRegex")
	if !ok1 || !ok2 {
		c.Undecided("C23-R3", "lexer", "-", "delimiter unescape rule of lexQuotedString/lexRegex not recognised")
		return
	}
	strDelim, reDelim := "\"", "/"
	has := func(xs []string, y string) bool {
		for _, z := range xs {
			if z == y {
				return true
			}
		}
		return false
	}
	if !has(strEsc, strDelim) || !has(reEsc, reDelim) {
		c.Undecided("C23-R3", "lexer", "-", "the lexer does not unescape the literal's own delimiter")
		return
	}
	escOf := map[string][]string{strDelim: strEsc, reDelim: reEsc}
	c.Extra["lexer_unescapes"] = map[string][]string{"string": strEsc, "regex": reEsc}
	// how does expression e print the text selected by isField?
	var quoted func(e ast.Expr, delim string, isField func(ast.Expr) bool, depth int) (c23Quote, string)
	quoted = func(e ast.Expr, delim string, isField func(ast.Expr) bool, depth int) (c23Quote, string) {
		if inner, st, why := x.quoteShape(e, delim, escOf[delim]); st != c23QuoteUnknown && inner != nil && isField(inner) {
			return st, why
		}
		// through a helper: f2(field) whose every return has the shape on its parameter
		if call, ok := x.deref(e).(*ast.CallExpr); ok && depth < 3 {
			if hf := up.CalleeFunc(call); hf != nil && len(call.Args) == 1 && isField(call.Args[0]) {
				ps := c23Params(hf)
				rets := c23ReturnExprs(hf)
				if len(ps) != 1 || len(rets) == 0 {
					return c23QuoteUnknown, ""
				}
				isParam := func(y ast.Expr) bool { return identObj(info, x.deref(y)) == ps[0] }
				worst, wwhy := c23QuoteOK, ""
				for _, r := range rets {
					st, why := quoted(r, delim, isParam, depth+1)
					if st == c23QuoteWrong {
						return st, hf.Key + ": " + why
					}
					if st == c23QuoteUnknown {
						worst, wwhy = st, why
					}
				}
				c.Analysed(hf)
				return worst, wwhy
			}
		}
		// the text itself, possibly between constant strings
		var rest []ast.Expr
		for _, p := range x.flatten(e) {
			if _, isConst := x.constStr(p); !isConst {
				rest = append(rest, p)
			}
		}
		if len(rest) == 1 && isField(rest[0]) {
			return c23QuoteWrong, "the text is printed as it is"
		}
		return c23QuoteUnknown, ""
	}
	emitsIn := func(cl *c23Clause) []*ast.CallExpr {
		var out []*ast.CallExpr
		for _, st := range cl.stmts {
			ast.Inspect(st, func(n ast.Node) bool {
				if call, ok := n.(*ast.CallExpr); ok && strings.HasSuffix(up.CalleeID(call), "(*Unparser).emit") && len(call.Args) == 1 {
					out = append(out, call)
				}
				return true
			})
		}
		return out
	}
	check := func(typ, field, delim string) {
		cl := clauses[typ]
		key := typ + "." + field
		if cl == nil {
			c.Undecided("C23-R3", key, "-", "no clause")
			return
		}
		isF := func(e ast.Expr) bool { return x.nodeField(cl, e, field) }
		best, bestWhy, found := c23QuoteUnknown, "", false
		for _, call := range emitsIn(cl) {
			if !x.mentions(call.Args[0], isF, 0) {
				continue
			}
			found = true
			arg := call.Args[0]
			// allow a constant prefix: " as " + quote(x)
			if parts := x.flatten(arg); len(parts) == 2 {
				if _, isConst := x.constStr(parts[0]); isConst {
					arg = parts[1]
				}
			}
			st, why := quoted(arg, delim, isF, 0)
			switch {
			case st == c23QuoteOK:
				best = st
			case st == c23QuoteWrong && best != c23QuoteOK:
				best, bestWhy = st, why
			}
		}
		if !found {
			return // R1 reports a field that is not printed at all; the floor reports a print site that was not recognised
		}
		switch best {
		case c23QuoteOK:
			c.Ok("C23-R3", key, pos(c, cl.cc), "delimiter "+delim+" re-escaped")
		case c23QuoteWrong:
			c.Fail("C23-R3", key, pos(c, cl.cc), fmt.Sprintf("the formatter prints %s without putting back (in the right order) the backslash the lexer removes in front of %q (%s): a literal containing such a character is formatted into text that ends the literal early or changes its contents (it no longer parses, or parses to other literals)", key, escOf[delim], bestWhy))
		default:
			c.Undecided("C23-R3", key, pos(c, cl.cc), "the way "+key+" is turned into a quoted literal was not recognised (expected delimiter + strings.ReplaceAll nest + delimiter, directly or through a helper)")
		}
	}
	check("StringLit", "Text", strDelim)
	check("VarDecl", "ExportedName", strDelim)
	check("PatternLit", "Pattern", reDelim)
	// id-or-string positions
	if cl := clauses["VarDecl"]; cl != nil {
		for _, field := range []string{"Name", "Keys"} {
			key := "VarDecl." + field + " id-or-string"
			var helper *core.Func
			var where ast.Node
			// loop variables ranging over the node's Keys
			keyVar := map[types.Object]bool{}
			for _, st := range cl.stmts {
				ast.Inspect(st, func(m ast.Node) bool {
					if rs, ok := m.(*ast.RangeStmt); ok && x.nodeField(cl, rs.X, "Keys") && rs.Value != nil {
						if o := identObj(info, rs.Value); o != nil {
							keyVar[o] = true
						}
					}
					return true
				})
			}
			isElem := func(e ast.Expr) bool {
				e = core.Unparen(e)
				if id, ok := e.(*ast.Ident); ok && keyVar[identObj(info, id)] {
					return true
				}
				e = x.deref(e)
				if ix, ok := e.(*ast.IndexExpr); ok && x.nodeField(cl, ix.X, "Keys") {
					return true
				}
				return false
			}
			for _, st := range cl.stmts {
				ast.Inspect(st, func(n ast.Node) bool {
					call, ok := n.(*ast.CallExpr)
					if !ok || len(call.Args) != 1 {
						return true
					}
					hf := up.CalleeFunc(call)
					if hf == nil || cl.calls[call] != nil {
						return true
					}
					if field == "Name" && x.nodeField(cl, call.Args[0], "Name") {
						helper, where = hf, call
					}
					if field == "Keys" && isElem(call.Args[0]) {
						helper, where = hf, call
					}
					return true
				})
			}
			if helper == nil {
				// printed raw?
				raw := false
				for _, call := range emitsIn(cl) {
					if x.mentions(call.Args[0], func(e ast.Expr) bool { return x.nodeField(cl, e, field) }, 0) {
						raw = true
					}
				}
				if raw {
					c.Fail("C23-R3", key, pos(c, cl.cc), "VarDecl."+field+" is printed as it is; the grammar also takes it from a quoted string (`counter \"a-b\"`, `by \"x y\"`), whose text does not lex as an identifier: the formatted declaration does not parse or declares another name")
				} else {
					c.Undecided("C23-R3", key, pos(c, cl.cc), "how VarDecl."+field+" is printed was not recognised")
				}
				continue
			}
			c.Analysed(helper)
			// helper: every return is the parameter itself or the quote shape of it; the bare return is guarded by character, keyword and builtin tests
			ps := c23Params(helper)
			okShape := len(ps) == 1
			unknownRet := false
			bare, quotedRet := 0, 0
			for _, r := range c23ReturnExprs(helper) {
				if !okShape {
					break
				}
				isParam := func(y ast.Expr) bool { return identObj(info, x.deref(y)) == ps[0] }
				if isParam(r) {
					bare++
					continue
				}
				switch st, _ := quoted(r, strDelim, isParam, 0); st {
				case c23QuoteOK:
					quotedRet++
				case c23QuoteWrong:
					okShape = false
				default:
					unknownRet = true
				}
			}
			// the lexer tables consulted by the helper or by the functions it calls
			used := map[string]bool{}
			var scan func(f *core.Func, depth int)
			seenF := map[*core.Func]bool{}
			scan = func(f *core.Func, depth int) {
				if seenF[f] || depth > 3 {
					return
				}
				seenF[f] = true
				ast.Inspect(f.Body, func(n ast.Node) bool {
					switch y := n.(type) {
					case *ast.Ident:
						if o := f.Info().Uses[y]; o != nil && o.Pkg() != nil && o.Parent() == o.Pkg().Scope() {
							used[o.Name()] = true
						}
					case *ast.CallExpr:
						if cf := f.CalleeFunc(y); cf != nil && cf.Lit == nil && core.Rel(cf.Pkg.PkgPath) == parserPkg {
							scan(cf, depth+1)
						}
					}
					return true
				})
			}
			scan(helper, 0)
			guards := used["keywords"] && used["builtins"] && (used["isAlpha"] || used["isAlnum"])
			if okShape && unknownRet {
				c.Undecided("C23-R3", key, pos(c, where), helper.Key+" has a return that is neither its argument nor a recognised quoting of it")
				continue
			}
			c.Verdict(okShape && bare == 1 && quotedRet >= 1 && guards, "C23-R3", key, pos(c, where), "bare only when it lexes as one ID (character classes, keywords and builtins consulted), quoted otherwise", fmt.Sprintf("%s does not quote every spelling that fails to lex as a single identifier (returns: %d bare, %d quoted; consults lexer tables: %v)", helper.Key, bare, quotedRet, guards))
		}
	}
	c.Floor("C23-R3", 5)
}

// c23Numbers decides rule R4.
func c23Numbers(x *c23Ctx) {
	c, up, clauses := x.c, x.up, x.clauses
	c.Rule("C23-R4", "NUMBERS: every float64 the printer emits (FloatLit.F, elements of VarDecl.Buckets) is formatted by strconv.FormatFloat(x, 'g'|'e'|'f', -1, 64) — the shortest text that parses back to x — and never by a fmt verb; the text of a FloatLit additionally gets a decimal point or exponent when it has neither (the lexer reads bare digits as an integer literal); IntLit.I is printed in base 10")
	info := x.info
	isFloat := func(e ast.Expr) bool {
		t := info.TypeOf(e)
		if t == nil {
			return false
		}
		b, ok := t.Underlying().(*types.Basic)
		return ok && b.Kind() == types.Float64
	}
	// classify a formatting function: shortest (FormatFloat prec -1) and forcing a float spelling
	type fmtInfo struct {
		shortest, forced bool
		bad              string // positively wrong
		und              string // shape not recognised
	}
	var classify func(e ast.Expr, depth int) fmtInfo
	classify = func(e ast.Expr, depth int) fmtInfo {
		call, ok := x.deref(e).(*ast.CallExpr)
		if !ok {
			return fmtInfo{und: "not a call: " + exprStr(e)}
		}
		id := up.CalleeID(call)
		switch {
		case id == "strconv.FormatFloat" && len(call.Args) == 4:
			verb, okv := constInt(info, call.Args[1])
			prec, okp := constInt(info, call.Args[2])
			bits, okb := constInt(info, call.Args[3])
			if !okv || !okp || !okb {
				return fmtInfo{und: "FormatFloat with non-constant format arguments"}
			}
			if prec != -1 || bits != 64 {
				return fmtInfo{bad: "FormatFloat with a fixed precision"}
			}
			if verb != 'g' && verb != 'e' && verb != 'f' {
				return fmtInfo{bad: fmt.Sprintf("FormatFloat with format %q, which the lexer does not read as a decimal float", rune(verb))}
			}
			return fmtInfo{shortest: true}
		case strings.HasPrefix(id, "fmt."):
			return fmtInfo{bad: id + " with a float verb prints a rounded value (%f keeps 6 decimals: 0.0000001 becomes 0.000000)"}
		case (id == "strconv.FormatInt" || id == "strconv.FormatUint" || id == "strconv.Itoa") && len(call.Args) >= 1:
			// the float printed through a conversion to an integer type
			if cv, ok := core.Unparen(call.Args[0]).(*ast.CallExpr); ok && len(cv.Args) == 1 {
				if tv, isT := info.Types[cv.Fun]; isT && tv.IsType() && isFloat(cv.Args[0]) {
					return fmtInfo{bad: id + " of the float converted to an integer type: the conversion is exact only below 2^63 in magnitude (1e19 comes back as -9223372036854775808) and drops the sign of -0"}
				}
			}
		}
		hf := up.CalleeFunc(call)
		if hf == nil || depth >= 3 || len(call.Args) != 1 {
			return fmtInfo{und: "unrecognised formatter " + id}
		}
		c.Analysed(hf)
		// helper family: s := FormatFloat(...) and then either
		//   if !strings.ContainsAny(s, ".eE") { s += ".0" }; return s
		//   if !strings.ContainsAny(s, ".eE") { return s + ".0" }; return s
		//   if strings.ContainsAny(s, ".eE") { return s }; return s + ".0"
		res := fmtInfo{}
		var sObj types.Object
		ast.Inspect(hf.Body, func(n ast.Node) bool {
			switch y := n.(type) {
			case *ast.AssignStmt:
				if len(y.Rhs) == 1 && len(y.Lhs) == 1 && y.Tok == token.DEFINE {
					if ci := classify(y.Rhs[0], depth+1); ci.shortest {
						res.shortest = true
						sObj = identObj(info, y.Lhs[0])
					} else if ci.bad != "" {
						res.bad = ci.bad
					}
				}
			case *ast.ValueSpec:
				if len(y.Names) == 1 && len(y.Values) == 1 {
					if ci := classify(y.Values[0], depth+1); ci.shortest {
						res.shortest = true
						sObj = info.Defs[y.Names[0]]
					} else if ci.bad != "" {
						res.bad = ci.bad
					}
				}
			}
			return true
		})
		rets := c23ReturnExprs(hf)
		if !res.shortest {
			// a plain wrapper: every return is itself a recognised formatting
			all := len(rets) > 0
			for _, r := range rets {
				ci := classify(r, depth+1)
				switch {
				case ci.shortest:
					res.forced = res.forced || ci.forced
				case ci.bad != "":
					res.bad = ci.bad
					all = false
				default:
					res.und = ci.und
					all = false
				}
			}
			// the helper formats exactly only if EVERY way out of it does
			res.shortest = all
			if len(rets) == 0 {
				res.und = "helper returns nothing recognisable"
			}
			return res
		}
		isS := func(e ast.Expr) bool { return sObj != nil && identObj(info, core.Unparen(e)) == sObj }
		dotLit := func(e ast.Expr) bool {
			sv, ok := x.constStr(e)
			return ok && strings.HasPrefix(sv, ".") && len(sv) > 1 && strings.Trim(sv[1:], "0123456789") == ""
		}
		plusDot := func(e ast.Expr) bool {
			be, ok := core.Unparen(e).(*ast.BinaryExpr)
			return ok && be.Op == token.ADD && isS(be.X) && dotLit(be.Y)
		}
		// the test `has the text a point or an exponent?`
		pointTest := func(e ast.Expr) (is, negated bool) {
			e = x.deref(e)
			for {
				u, ok := e.(*ast.UnaryExpr)
				if !ok || u.Op != token.NOT {
					break
				}
				negated = !negated
				e = x.deref(u.X)
			}
			cc, ok := e.(*ast.CallExpr)
			if !ok || up.CalleeID(cc) != "strings.ContainsAny" || len(cc.Args) != 2 || !isS(cc.Args[0]) {
				return false, false
			}
			chars, ok := x.constStr(cc.Args[1])
			if !ok || !(strings.Contains(chars, ".") && strings.Contains(chars, "e")) {
				return false, false
			}
			return true, negated
		}
		appended, sawTest := false, false
		inTest := map[ast.Expr]string{} // return expression -> "bare-branch" (text has a point) / "digits-branch"
		ast.Inspect(hf.Body, func(n ast.Node) bool {
			is, ok := n.(*ast.IfStmt)
			if !ok {
				return true
			}
			isTest, neg := pointTest(is.Cond)
			if !isTest {
				return true
			}
			sawTest = true
			mark := func(b ast.Node, branch string) {
				if b == nil {
					return
				}
				ast.Inspect(b, func(m ast.Node) bool {
					switch y := m.(type) {
					case *ast.ReturnStmt:
						if len(y.Results) == 1 {
							inTest[y.Results[0]] = branch
						}
					case *ast.AssignStmt:
						if branch == "digits" && len(y.Lhs) == 1 && len(y.Rhs) == 1 && isS(y.Lhs[0]) {
							if y.Tok == token.ADD_ASSIGN && dotLit(y.Rhs[0]) || y.Tok == token.ASSIGN && plusDot(y.Rhs[0]) {
								appended = true
							}
						}
					}
					return true
				})
			}
			thenBranch, elseBranch := "pointed", "digits"
			if neg {
				thenBranch, elseBranch = "digits", "pointed"
			}
			mark(is.Body, thenBranch)
			if is.Else != nil {
				mark(is.Else, elseBranch)
			}
			return true
		})
		// every return: s (allowed where the text is known to have a point, or anywhere once the point was appended) or s + ".0"
		okRets, bareUnguarded := len(rets) > 0, false
		for _, r := range rets {
			switch {
			case plusDot(r):
			case isS(r):
				switch {
				case inTest[r] == "pointed":
				case appended && inTest[r] == "":
				case !appended && inTest[r] == "" && sawTest:
					// the fall-through return after `if digits-only { return s + ".0" }` — fine if that branch returns
					guarded := false
					for rr, br := range inTest {
						if br == "digits" && plusDot(rr) {
							guarded = true
						}
					}
					if !guarded {
						bareUnguarded = true
					}
				default:
					bareUnguarded = true
				}
			default:
				okRets = false
			}
		}
		anyPlusDot := false
		for _, r := range rets {
			if plusDot(r) {
				anyPlusDot = true
			}
		}
		switch {
		case !okRets:
			res.und = "the helper returns something other than the formatted text (with a decimal point appended)"
		case !bareUnguarded:
			res.forced = true
		case !anyPlusDot && !appended:
			// nothing is ever appended: positively no forced float spelling
		case sawTest:
			res.und = "the decimal-point logic of " + hf.Key + " was not recognised"
		}
		return res
	}
	floatUses := func(cl *c23Clause) []*ast.CallExpr {
		var out []*ast.CallExpr
		for _, st := range cl.stmts {
			ast.Inspect(st, func(n ast.Node) bool {
				call, ok := n.(*ast.CallExpr)
				if !ok || cl.calls[call] != nil {
					return true
				}
				for _, a := range call.Args {
					if isFloat(a) {
						out = append(out, call)
						return false
					}
				}
				return true
			})
		}
		return out
	}
	for _, spec := range []struct {
		typ       string
		needFloat bool
		what      string
	}{{"FloatLit", true, "a float literal"}, {"VarDecl", false, "a bucket boundary"}} {
		cl := clauses[spec.typ]
		if cl == nil {
			continue
		}
		calls := floatUses(cl)
		if len(calls) == 0 {
			c.Undecided("C23-R4", spec.typ+" float", pos(c, cl.cc), "no call taking a float64 found in the clause")
			continue
		}
		for i, call := range calls {
			key := fmt.Sprintf("%s float#%d", spec.typ, i+1)
			ci := classify(call, 0)
			switch {
			case ci.bad != "":
				c.Fail("C23-R4", key, pos(c, call), "the formatter prints "+spec.what+" with "+ci.bad+": the formatted program has a different number")
			case !ci.shortest:
				c.Undecided("C23-R4", key, pos(c, call), "float formatting not recognised: "+ci.und)
			case spec.needFloat && !ci.forced && ci.und != "":
				c.Undecided("C23-R4", key, pos(c, call), ci.und)
			case spec.needFloat && !ci.forced:
				c.Fail("C23-R4", key, pos(c, call), "the shortest text of an integral float (1.0) is `1`, which the lexer reads back as an integer literal: the literal changes type when the program is formatted")
			default:
				c.Ok("C23-R4", key, pos(c, call), "shortest round-trip format"+map[bool]string{true: ", float spelling forced", false: ""}[ci.forced])
			}
		}
	}
	if cl := clauses["IntLit"]; cl != nil {
		// decimal: strconv.FormatInt(x, 10), strconv.Itoa, fmt.Sprint*, or a fmt verb %d / %v on the value
		okInt, wrong, seen := false, "", false
		isI := func(e ast.Expr) bool { return x.nodeField(cl, e, "I") }
		for _, st := range cl.stmts {
			ast.Inspect(st, func(n ast.Node) bool {
				call, ok := n.(*ast.CallExpr)
				if !ok {
					return true
				}
				uses := false
				for _, a := range call.Args {
					if x.mentions(a, isI, 0) {
						uses = true
					}
				}
				if !uses {
					return true
				}
				switch id := up.CalleeID(call); {
				case id == "strconv.FormatInt" && len(call.Args) == 2:
					seen = true
					if b, ok := constInt(info, call.Args[1]); ok && b == 10 {
						okInt = true
					} else if ok {
						wrong = fmt.Sprintf("strconv.FormatInt in base %d", b)
					}
				case id == "strconv.Itoa", id == "fmt.Sprint", id == "fmt.Sprintln":
					seen = true
					okInt = true
				case (id == "fmt.Sprintf" || id == "fmt.Fprintf") && len(call.Args) >= 2:
					fa := call.Args[0]
					if id == "fmt.Fprintf" {
						fa = call.Args[1]
					}
					if f, ok := x.constStr(fa); ok {
						seen = true
						verbs := regexp.MustCompile(`%[-+# 0-9.]*([a-zA-Z])`).FindAllStringSubmatch(f, -1)
						if len(verbs) == 1 && (verbs[0][1] == "d" || verbs[0][1] == "v") {
							okInt = true
						} else if len(verbs) == 1 && strings.Contains("xXobBcqUeEfFgG", verbs[0][1]) {
							wrong = "the fmt verb %" + verbs[0][1]
						}
					}
				}
				return true
			})
		}
		switch {
		case wrong != "":
			c.Fail("C23-R4", "IntLit base", pos(c, cl.cc), "integer literals are printed with "+wrong+", not in base 10, the only base the lexer reads")
		case okInt:
			c.Ok("C23-R4", "IntLit base", pos(c, cl.cc), "base 10")
		case seen:
			c.Undecided("C23-R4", "IntLit base", pos(c, cl.cc), "the formatting of IntLit.I was found but its base was not recognised")
		default:
			c.Undecided("C23-R4", "IntLit base", pos(c, cl.cc), "no recognised formatting of IntLit.I in the clause (strconv.FormatInt/Itoa or a fmt verb expected)")
		}
	}
	c.Floor("C23-R4", 3)
	_ = sort.Strings
}
