package props

import (
	"fmt"
	"go/ast"
	"go/constant"
	"go/token"
	"go/types"
	"regexp"
	"sort"
	"strings"

	"verif/sa/core"
)

func init() { register("C23", c23) }

const (
	unparserKey = "internal/runtime/compiler/parser.(*Unparser).VisitBefore"
	parserPkg   = "internal/runtime/compiler/parser"
)

// c23Kind is a kind of expression node as the grammar builds it.
type c23Kind struct {
	Type string // ast type name: BinaryExpr, UnaryExpr, IntLit, ...
	Op   string // operator token for Binary/Unary, "" otherwise
	Head string // nonterminal whose production builds it
}

func (k c23Kind) String() string {
	if k.Op != "" {
		return k.Type + "(" + k.Op + ")"
	}
	return k.Type
}

// c23Slot is an operand position of an operator production.
type c23Slot struct {
	Head  string // nonterminal of the production
	Op    string // operator token
	Left  string // nonterminal accepted on the left ("" for prefix operators)
	Right string // nonterminal accepted on the right ("" for postfix operators)
	Node  string // BinaryExpr or UnaryExpr
}

var c23ActionType = regexp.MustCompile(`&ast\.(\w+)\{`)

// c23GrammarFacts derives operator productions and node kinds from the grammar.
func c23GrammarFacts(g *yGrammar) (slots []c23Slot, kinds []c23Kind, why string) {
	isNT := func(s string) bool { _, ok := g.Rules[s]; return ok }
	for _, head := range g.Order {
		for _, alt := range g.Rules[head] {
			var syms []string
			for _, s := range alt.Syms {
				if s != "opt_nl" && s != "mark_pos" && s != "in_regex" {
					syms = append(syms, s)
				}
			}
			types := c23ActionType.FindAllStringSubmatch(alt.Action, -1)
			if len(types) == 0 {
				continue
			}
			outer := types[0][1]
			switch outer {
			case "BinaryExpr":
				if len(syms) != 3 {
					return nil, nil, fmt.Sprintf("production of %s builds a BinaryExpr from %d symbols", head, len(syms))
				}
				ops := g.opTokens(syms[1])
				if len(ops) == 0 {
					return nil, nil, "operator symbol " + syms[1] + " of " + head + " names no token"
				}
				for _, op := range ops {
					slots = append(slots, c23Slot{Head: head, Op: op, Left: syms[0], Right: syms[2], Node: "BinaryExpr"})
					kinds = append(kinds, c23Kind{"BinaryExpr", op, head})
				}
				if len(types) > 1 && types[1][1] == "UnaryExpr" && strings.Contains(alt.Action, "Op: MATCH") {
					// the condition `pattern op expr`: its left operand is the pattern itself
					kinds = append(kinds, c23Kind{"UnaryExpr", "MATCH", head})
				}
			case "UnaryExpr":
				switch {
				case strings.Contains(alt.Action, "Op: MATCH") && len(syms) == 1:
					slots = append(slots, c23Slot{Head: head, Op: "MATCH", Right: syms[0], Node: "UnaryExpr"})
					kinds = append(kinds, c23Kind{"UnaryExpr", "MATCH", head})
				case len(syms) == 2 && len(g.opTokens(syms[0])) > 0 && isNT(syms[1]):
					for _, op := range g.opTokens(syms[0]) {
						slots = append(slots, c23Slot{Head: head, Op: op, Right: syms[1], Node: "UnaryExpr"})
						kinds = append(kinds, c23Kind{"UnaryExpr", op, head})
					}
				case len(syms) == 2 && len(g.opTokens(syms[1])) > 0 && isNT(syms[0]):
					for _, op := range g.opTokens(syms[1]) {
						slots = append(slots, c23Slot{Head: head, Op: op, Left: syms[0], Node: "UnaryExpr"})
						kinds = append(kinds, c23Kind{"UnaryExpr", op, head})
					}
				default:
					return nil, nil, "unrecognised UnaryExpr production in " + head
				}
			default:
				kinds = append(kinds, c23Kind{outer, "", head})
			}
		}
	}
	return slots, kinds, ""
}

// c23Val is an abstract argument of the precedence functions.
type c23Val struct {
	isNode bool
	typ    string // node type name
	op     int64  // operator constant (for nodes: v.Op; for ints: the value)
	hasOp  bool
	b      bool
	isBool bool
}

// c23Eval partially evaluates a "table function" — a function whose body is
// made of (type) switches over its parameters, ifs on boolean parameters and
// returns of integer constants — on abstract arguments.  It returns the
// integer result; ok=false when the body leaves that family.
type c23Eval struct {
	f     *core.Func
	depth int
}

func (ev *c23Eval) call(args map[types.Object]c23Val) (int64, bool, string) {
	if ev.depth > 4 {
		return 0, false, "recursion too deep"
	}
	return ev.block(ev.f.Body.List, args)
}

func (ev *c23Eval) constInt(e ast.Expr) (int64, bool) {
	tv, ok := ev.f.Info().Types[e]
	if !ok || tv.Value == nil || tv.Value.Kind() != constant.Int {
		return 0, false
	}
	v, exact := constant.Int64Val(tv.Value)
	return v, exact
}

// block returns (value, returned, why)
func (ev *c23Eval) block(stmts []ast.Stmt, env map[types.Object]c23Val) (int64, bool, string) {
	info := ev.f.Info()
	for _, st := range stmts {
		switch s := st.(type) {
		case *ast.ReturnStmt:
			if len(s.Results) != 1 {
				return 0, false, "return of several values"
			}
			if v, ok := ev.constInt(s.Results[0]); ok {
				return v, true, ""
			}
			// transparent delegation: return f(v.Field) — cannot be followed on abstract values
			return 0, false, "return of a non-constant: " + exprStr(s.Results[0])
		case *ast.IfStmt:
			if s.Init != nil {
				return 0, false, "if with init"
			}
			o := identObj(info, s.Cond)
			neg := false
			if u, ok := core.Unparen(s.Cond).(*ast.UnaryExpr); ok && u.Op == token.NOT {
				o = identObj(info, u.X)
				neg = true
			}
			v, known := env[o]
			if o == nil || !known || !v.isBool {
				return 0, false, "if on something other than a boolean parameter: " + exprStr(s.Cond)
			}
			taken := v.b != neg
			if taken {
				if r, ret, why := ev.block(s.Body.List, env); ret || why != "" {
					return r, ret, why
				}
			} else if s.Else != nil {
				var body []ast.Stmt
				switch e := s.Else.(type) {
				case *ast.BlockStmt:
					body = e.List
				default:
					body = []ast.Stmt{e}
				}
				if r, ret, why := ev.block(body, env); ret || why != "" {
					return r, ret, why
				}
			}
		case *ast.TypeSwitchStmt:
			var tag ast.Expr
			var bound *ast.Ident
			switch a := s.Assign.(type) {
			case *ast.AssignStmt:
				if ta, ok := a.Rhs[0].(*ast.TypeAssertExpr); ok {
					tag = ta.X
				}
				bound, _ = a.Lhs[0].(*ast.Ident)
			case *ast.ExprStmt:
				if ta, ok := a.X.(*ast.TypeAssertExpr); ok {
					tag = ta.X
				}
			}
			v, known := env[identObj(info, tag)]
			if !known || !v.isNode {
				return 0, false, "type switch on something other than the node parameter"
			}
			var chosen, deflt *ast.CaseClause
			for _, cl := range s.Body.List {
				cc := cl.(*ast.CaseClause)
				if cc.List == nil {
					deflt = cc
				}
				for _, e := range cc.List {
					t := exprStr(e)
					if t == "*ast."+v.typ {
						chosen = cc
					}
				}
			}
			if chosen == nil {
				chosen = deflt
			}
			if chosen != nil {
				env2 := map[types.Object]c23Val{}
				for k, x := range env {
					env2[k] = x
				}
				if bound != nil {
					if o := info.Implicits[chosen]; o != nil {
						env2[o] = v
					}
				}
				if r, ret, why := ev.block(chosen.Body, env2); ret || why != "" {
					return r, ret, why
				}
			}
		case *ast.SwitchStmt:
			if s.Init != nil || s.Tag == nil {
				return 0, false, "switch without tag"
			}
			var val int64
			found := false
			if sel, ok := core.Unparen(s.Tag).(*ast.SelectorExpr); ok && sel.Sel.Name == "Op" {
				if v, known := env[identObj(info, sel.X)]; known && v.isNode && v.hasOp {
					val, found = v.op, true
				}
			} else if v, known := env[identObj(info, s.Tag)]; known && !v.isNode && !v.isBool {
				val, found = v.op, true
			}
			if !found {
				return 0, false, "switch on something other than the operator: " + exprStr(s.Tag)
			}
			var chosen, deflt *ast.CaseClause
			for _, cl := range s.Body.List {
				cc := cl.(*ast.CaseClause)
				if cc.List == nil {
					deflt = cc
				}
				for _, e := range cc.List {
					if c, ok := ev.constInt(e); ok && c == val {
						chosen = cc
					}
				}
			}
			if chosen == nil {
				chosen = deflt
			}
			if chosen != nil {
				if r, ret, why := ev.block(chosen.Body, env); ret || why != "" {
					return r, ret, why
				}
			}
		default:
			return 0, false, fmt.Sprintf("statement outside the table-function family: %T", st)
		}
	}
	return 0, false, ""
}

func c23Params(f *core.Func) []types.Object {
	var out []types.Object
	for _, fl := range f.Type.Params.List {
		for _, n := range fl.Names {
			out = append(out, f.Info().Defs[n])
		}
	}
	return out
}

func c23(c *core.Check) {
	c.Explain = "The formatter is an AST printer; brackets, quotes and escapes are absent from the AST, so it has to re-create them.  Decided from /repo's current source: (R1) every field that a grammar action fills from a non-constant value is read by the printer's clause for that node type (nothing the parser can express is dropped: hidden, `as` name, keys, limit, buckets, else-branch, expiry, …) and every node type the parser builds has a clause; (R2) exhaustively over all (operator, side, kind of operand) triples the grammar admits: wherever the printer's bracket decision — obtained by partially evaluating its precedence tables — omits brackets, the grammar derives that operand in that position without brackets, so the text reparses to the same tree; pattern concatenations, which admit no brackets, are recognised by the pattern context only; (R3) the text of every string/regex literal token is printed through the inverse of the lexer's delimiter unescaping, and names/keys that may be either identifier or string go through a function that quotes what does not lex as one identifier; (R4) every float is printed with a shortest-round-trip format and, where the grammar needs a float token, with a decimal point or exponent; integers in base 10; (R5) for every operator the spelling printed lexes back to that operator.  Not decided: whitespace/newline placement, comments (dropped by design), idempotence as a dynamic fact, programs the checker rewrites."
	c.Assume = append(c.Assume, "parser.go is what goyacc generates from parser.y (decided under C01-R1)", "strconv.FormatFloat(x, fmt, -1, 64) round-trips", "go/cfg is not needed here: the rules are about tables and expressions")
	up := c.MustFn("C23-R1", unparserKey)
	lex := c.MustFn("C23-R5", lexProgKey)
	g, gerr := readGrammar(c)
	if gerr != "" {
		c.Undecided("C23-R1", "grammar", "internal/runtime/compiler/parser/parser.y", "cannot read the grammar: "+gerr)
		return
	}
	if up == nil || lex == nil {
		return
	}
	info := up.Info()
	astPkg := c.Prog.Pkgs["internal/runtime/compiler/ast"]
	if astPkg == nil {
		c.Undecided("C23-R1", "ast package", "-", "not loaded")
		return
	}
	// printer clauses: type name -> case clause
	clauses := map[string]*ast.CaseClause{}
	var clauseVar = map[*ast.CaseClause]types.Object{}
	var mainSwitch *ast.TypeSwitchStmt
	core.InspectNoLit(up.Body, func(n ast.Node) bool {
		ts, ok := n.(*ast.TypeSwitchStmt)
		if !ok || mainSwitch != nil {
			return true
		}
		mainSwitch = ts
		for _, cl := range ts.Body.List {
			cc := cl.(*ast.CaseClause)
			for _, e := range cc.List {
				clauses[strings.TrimPrefix(exprStr(e), "*ast.")] = cc
			}
			clauseVar[cc] = info.Implicits[cc]
		}
		return false
	})
	if mainSwitch == nil {
		c.Undecided("C23-R1", unparserKey, pos(c, up.Decl), "no type switch over the node found")
		return
	}

	// ---------------------------------------------------------------- R1
	c.Rule("C23-R1", "FIELD-COVERAGE: for each (node type, field) that some grammar action sets from a non-constant value (token text, flag, sub-tree; positions excluded), the printer's clause for that type reads the field; each node type built by the grammar has a clause")
	type setField struct{ typ, field, from string }
	var sets []setField
	structOf := func(name string) *types.Struct {
		o := astPkg.Types.Scope().Lookup(name)
		if o == nil {
			return nil
		}
		st, _ := o.Type().Underlying().(*types.Struct)
		return st
	}
	splitArgs := func(s string) []string {
		var out []string
		depth, start := 0, 0
		for i, ch := range s {
			switch ch {
			case '(', '{', '[':
				depth++
			case ')', '}', ']':
				depth--
			case ',':
				if depth == 0 {
					out = append(out, strings.TrimSpace(s[start:i]))
					start = i + 1
				}
			}
		}
		if t := strings.TrimSpace(s[start:]); t != "" {
			out = append(out, t)
		}
		return out
	}
	isConstExpr := func(e string) bool {
		switch e {
		case "nil", "true", "false", "":
			return true
		}
		return regexp.MustCompile(`^[A-Z_]+$`).MatchString(e) // a token constant such as MATCH, PLUS
	}
	reAssign := regexp.MustCompile(`\(\*ast\.(\w+)\)\.(\w+)\s*=\s*([^\n]+)`)
	reVarAssign := regexp.MustCompile(`(?m)^\s*(\w+)\.(\w+)\s*=\s*([^\n]+)`)
	reVarDecl := regexp.MustCompile(`(\w+)\s*:=\s*\$\$\.\(\*ast\.(\w+)\)`)
	builtTypes := map[string]string{}
	for _, head := range g.Order {
		for _, alt := range g.Rules[head] {
			act := alt.Action
			// composite literals
			for _, loc := range c23ActionType.FindAllStringSubmatchIndex(act, -1) {
				typ := act[loc[2]:loc[3]]
				// find matching brace
				depth, end := 0, -1
				for i := loc[1] - 1; i < len(act); i++ {
					if act[i] == '{' {
						depth++
					}
					if act[i] == '}' {
						depth--
						if depth == 0 {
							end = i
							break
						}
					}
				}
				if end < 0 {
					continue
				}
				if _, seen := builtTypes[typ]; !seen {
					builtTypes[typ] = fmt.Sprintf("%s:%d (%s)", g.Path, alt.Line, head)
				}
				st := structOf(typ)
				if st == nil {
					c.Undecided("C23-R1", "type "+typ, g.Path, "grammar builds an ast type that is not a struct of package ast")
					continue
				}
				for i, a := range splitArgs(act[loc[1]:end]) {
					field, val := "", a
					if m := regexp.MustCompile(`^(\w+):\s*(.*)$`).FindStringSubmatch(a); m != nil {
						field, val = m[1], strings.TrimSpace(m[2])
					} else if i < st.NumFields() {
						field = st.Field(i).Name()
					}
					if field == "" || isConstExpr(val) {
						continue
					}
					sets = append(sets, setField{typ, field, head})
				}
			}
			for _, m := range reAssign.FindAllStringSubmatch(act, -1) {
				if strings.Contains(m[3], "append(") && strings.Contains(m[3], "."+m[2]) || !isConstExpr(strings.TrimSpace(m[3])) {
					sets = append(sets, setField{m[1], m[2], head})
				}
			}
			if vm := reVarDecl.FindStringSubmatch(act); vm != nil {
				for _, m := range reVarAssign.FindAllStringSubmatch(act, -1) {
					if m[1] == vm[1] && !isConstExpr(strings.TrimSpace(m[3])) {
						sets = append(sets, setField{vm[2], m[2], head})
					}
				}
			}
		}
	}
	seenSet := map[string]bool{}
	n1 := 0
	for _, sf := range sets {
		k := sf.typ + "." + sf.field
		if seenSet[k] {
			continue
		}
		seenSet[k] = true
		st := structOf(sf.typ)
		var fv *types.Var
		for i := 0; st != nil && i < st.NumFields(); i++ {
			if st.Field(i).Name() == sf.field {
				fv = st.Field(i)
			}
		}
		if fv == nil {
			c.Undecided("C23-R1", k, g.Path, "field set by the grammar not found in the ast struct")
			continue
		}
		if strings.HasSuffix(fv.Type().String(), "position.Position") {
			continue
		}
		n1++
		cl := clauses[sf.typ]
		if cl == nil {
			c.Fail("C23-R1", k, pos(c, mainSwitch), "the formatter has no clause for "+sf.typ+", which the grammar builds (production of "+sf.from+"): formatting such a program panics")
			continue
		}
		read := false
		for _, st := range cl.Body {
			ast.Inspect(st, func(n ast.Node) bool {
				if sel, ok := n.(*ast.SelectorExpr); ok {
					if s := info.Selections[sel]; s != nil && s.Obj() == fv {
						read = true
					}
				}
				return !read
			})
		}
		if read {
			// the field's emission must not hinge on a condition over ANOTHER field of the node
			v := clauseVar[cl]
			var offending string
			var visit func(n ast.Node, conds []ast.Expr)
			usesOther := func(cond ast.Expr) string {
				other := ""
				ast.Inspect(cond, func(m ast.Node) bool {
					if sel, ok := m.(*ast.SelectorExpr); ok && identObj(info, sel.X) == v {
						if s := info.Selections[sel]; s != nil && s.Kind() == types.FieldVal && s.Obj() != fv {
							other = sel.Sel.Name
						}
					}
					return true
				})
				return other
			}
			mentions := func(n ast.Node) bool {
				hit := false
				ast.Inspect(n, func(m ast.Node) bool {
					if sel, ok := m.(*ast.SelectorExpr); ok {
						if s := info.Selections[sel]; s != nil && s.Obj() == fv && identObj(info, sel.X) == v {
							hit = true
						}
					}
					return !hit
				})
				return hit
			}
			visit = func(n ast.Node, conds []ast.Expr) {
				switch x := n.(type) {
				case *ast.IfStmt:
					if mentions(x.Cond) {
						// a test of the field itself is not an emission
					}
					visit(x.Body, append(append([]ast.Expr{}, conds...), x.Cond))
					if x.Else != nil {
						visit(x.Else, append(append([]ast.Expr{}, conds...), x.Cond))
					}
					return
				case *ast.BlockStmt:
					for _, st := range x.List {
						visit(st, conds)
					}
					return
				case *ast.ExprStmt, *ast.AssignStmt:
					if mentions(x) {
						for _, cd := range conds {
							if o := usesOther(cd); o != "" && !mentions(cd) {
								offending = o
							}
						}
					}
					return
				case *ast.ForStmt:
					visit(x.Body, conds)
					return
				case *ast.RangeStmt:
					visit(x.Body, conds)
					return
				}
			}
			for _, st := range cl.Body {
				visit(st, nil)
			}
			if offending != "" {
				c.Fail("C23-R1", k, pos(c, cl), fmt.Sprintf("the formatter prints %s.%s only under a condition on another field (%s): a declaration that has %s but not %s is formatted without it", sf.typ, sf.field, offending, sf.field, offending))
				continue
			}
		}
		c.Verdict(read, "C23-R1", k, pos(c, cl), "read by the clause", fmt.Sprintf("the formatter's clause for %s never reads %s, which the grammar fills from the source (production of %s): formatting silently drops it, so the formatted program declares or does something else", sf.typ, sf.field, sf.from))
	}
	for typ, where := range builtTypes {
		if clauses[typ] == nil {
			c.Fail("C23-R1", "clause "+typ, pos(c, mainSwitch), "no clause for "+typ+" built at "+where)
		}
	}
	c.Extra["fields_set_by_grammar"] = sortedKeys(seenSet)
	c.Floor("C23-R1", 30)

	// ---------------------------------------------------------------- R2
	c.Rule("C23-R2", "BRACKETS: for every operator production of the grammar, each operand side and each kind of operand node that can occur there: if the printer's decision for that triple is to print the operand without brackets, the operand's own production is derivable from the operand position by unit productions (so no brackets are needed); brackets are emitted only around operands that `( logical_expr )` can hold")
	slots, kinds, why := c23GrammarFacts(g)
	if why != "" {
		c.Undecided("C23-R2", "grammar", g.Path, why)
	} else {
		c23Brackets(c, up, g, slots, kinds, clauses, clauseVar)
	}
	c.Floor("C23-R2", 40)

	// ---------------------------------------------------------------- R3
	c23Literals(c, up, clauses, clauseVar)
	// ---------------------------------------------------------------- R4
	c23Numbers(c, up, clauses, clauseVar)

	// ---------------------------------------------------------------- R5
	c.Rule("C23-R5", "SPELLING: for every operator case of the printer's BinaryExpr and UnaryExpr clauses, the string printed (spaces trimmed) is a spelling for which the lexer emits exactly that token")
	trie := lexerTrie(lex)
	n5 := 0
	for _, typ := range []string{"BinaryExpr", "UnaryExpr"} {
		cl := clauses[typ]
		if cl == nil {
			continue
		}
		for _, st := range cl.Body {
			ast.Inspect(st, func(n ast.Node) bool {
				sw, ok := n.(*ast.SwitchStmt)
				if !ok || sw.Tag == nil || !strings.HasSuffix(exprStr(sw.Tag), ".Op") {
					return true
				}
				for _, cc0 := range sw.Body.List {
					cc := cc0.(*ast.CaseClause)
					for _, e := range cc.List {
						tokName := exprStr(e)
						var lits []string
						for _, bst := range cc.Body {
							ast.Inspect(bst, func(m ast.Node) bool {
								if call, ok := m.(*ast.CallExpr); ok && strings.HasSuffix(up.CalleeID(call), "(*Unparser).emit") && len(call.Args) == 1 {
									if tv, ok := info.Types[call.Args[0]]; ok && tv.Value != nil && tv.Value.Kind() == constant.String {
										lits = append(lits, strings.TrimSpace(constant.StringVal(tv.Value)))
									}
								}
								return true
							})
						}
						if typ == "UnaryExpr" && tokName == "MATCH" {
							continue // the bare pattern condition prints no operator
						}
						n5++
						key := typ + " " + tokName
						if len(lits) != 1 {
							c.Undecided("C23-R5", key, pos(c, cc), fmt.Sprintf("%d constant spellings emitted in this case", len(lits)))
							continue
						}
						got := trie[lits[0]]
						okSp := len(got) == 1 && got[0] == tokName
						// an operator never produced by the grammar for this node type cannot be misprinted
						c.Verdict(okSp, "C23-R5", key, pos(c, cc), fmt.Sprintf("%q lexes to %v", lits[0], got), fmt.Sprintf("the formatter prints operator %s as %q, which the lexer reads as %v: the formatted program computes something else (or does not parse)", tokName, lits[0], got))
					}
				}
				return false
			})
		}
	}
	// every operator the grammar can put in a BinaryExpr/UnaryExpr has a case
	for _, sl := range slots {
		cl := clauses[sl.Node]
		if cl == nil {
			continue
		}
		has := false
		for _, st := range cl.Body {
			ast.Inspect(st, func(n ast.Node) bool {
				if cc, ok := n.(*ast.CaseClause); ok {
					for _, e := range cc.List {
						if exprStr(e) == sl.Op {
							has = true
						}
					}
				}
				return !has
			})
		}
		if !has {
			c.Fail("C23-R5", sl.Node+" "+sl.Op+" missing", pos(c, cl), "the grammar builds "+sl.Node+" with operator "+sl.Op+" but the formatter has no case for it: it prints `Unexpected op`")
		}
	}
	c.Floor("C23-R5", 25)
}

// c23Brackets decides rule R2.
func c23Brackets(c *core.Check, up *core.Func, g *yGrammar, slots []c23Slot, kinds []c23Kind, clauses map[string]*ast.CaseClause, clauseVar map[*ast.CaseClause]types.Object) {
	info := up.Info()
	pkg := c.Prog.Pkgs[parserPkg]
	tokVal := func(name string) (int64, bool) {
		o, _ := pkg.Types.Scope().Lookup(name).(*types.Const)
		if o == nil {
			return 0, false
		}
		return constant.Int64Val(o.Val())
	}
	inParens := g.unitClosure("logical_expr")
	// kinds that can stand in a slot: without brackets (unit closure) or with brackets (primary_expr reachable and kind fits logical_expr)
	type decision struct {
		omit   bool
		detail string
	}
	// locate, in the Binary/Unary clauses, how each operand is printed
	type operandSite struct {
		node  string // BinaryExpr / UnaryExpr
		field string // LHS, RHS, Expr
		ops   []string
		call  *ast.CallExpr
		right *bool // literal side argument when printed through a helper
		helper *core.Func
	}
	var sites []operandSite
	for _, node := range []string{"BinaryExpr", "UnaryExpr"} {
		cl := clauses[node]
		if cl == nil {
			c.Fail("C23-R2", node+" clause", pos(c, up.Decl), "the formatter has no clause for "+node)
			continue
		}
		v := clauseVar[cl]
		var visit func(n ast.Node, ops []string)
		visit = func(n ast.Node, ops []string) {
			ast.Inspect(n, func(m ast.Node) bool {
				if sw, ok := m.(*ast.SwitchStmt); ok && sw.Tag != nil && strings.HasSuffix(exprStr(sw.Tag), ".Op") {
					for _, cc0 := range sw.Body.List {
						cc := cc0.(*ast.CaseClause)
						var toks []string
						for _, e := range cc.List {
							toks = append(toks, exprStr(e))
						}
						for _, st := range cc.Body {
							visit(st, toks)
						}
					}
					return false
				}
				call, ok := m.(*ast.CallExpr)
				if !ok {
					return true
				}
				// which operand field of v does this call print?
				for i, a := range call.Args {
					sel, ok := core.Unparen(a).(*ast.SelectorExpr)
					if !ok || identObj(info, sel.X) != v {
						continue
					}
					fld := sel.Sel.Name
					if fld != "LHS" && fld != "RHS" && fld != "Expr" {
						continue
					}
					id := up.CalleeID(call)
					site := operandSite{node: node, field: fld, ops: ops, call: call}
					if strings.HasSuffix(id, "ast.Walk") {
						sites = append(sites, site)
					} else if hf := up.CalleeFunc(call); hf != nil {
						site.helper = hf
						for j, b := range call.Args {
							if j != i {
								if bv, ok := constBool(info, b); ok {
									bb := bv
									site.right = &bb
								}
							}
						}
						sites = append(sites, site)
					}
				}
				return true
			})
		}
		for _, st := range cl.Body {
			visit(st, nil)
		}
	}
	if len(sites) < 4 {
		c.Undecided("C23-R2", "operand sites", pos(c, up.Decl), fmt.Sprintf("only %d operand print sites recognised in the BinaryExpr/UnaryExpr clauses", len(sites)))
		return
	}
	// analyse a helper: returns a function deciding omit-brackets for (op token, right, child kind)
	type helperModel struct {
		precFn, slotFn *core.Func
		cmp            token.Token // precedence(child) CMP slot(op, right)  => omit brackets
		extra          []string
		bracketsAll    bool
		why            string
	}
	models := map[*core.Func]*helperModel{}
	analyse := func(hf *core.Func) *helperModel {
		if m, ok := models[hf]; ok {
			return m
		}
		m := &helperModel{}
		models[hf] = m
		c.Analysed(hf)
		hinfo := hf.Info()
		// find the statement that emits "(" ... ")" and the condition under which it is skipped
		emitsParen := func(n ast.Node, s string) bool {
			found := false
			ast.Inspect(n, func(x ast.Node) bool {
				if call, ok := x.(*ast.CallExpr); ok && strings.HasSuffix(hf.CalleeID(call), "(*Unparser).emit") && len(call.Args) == 1 {
					if tv, ok := hinfo.Types[call.Args[0]]; ok && tv.Value != nil && tv.Value.Kind() == constant.String && constant.StringVal(tv.Value) == s {
						found = true
					}
				}
				return !found
			})
			return found
		}
		if !emitsParen(hf.Body, "(") || !emitsParen(hf.Body, ")") {
			m.why = "the helper emits no brackets"
			return m
		}
		var cond ast.Expr
		condOmits := false
		for _, st := range hf.Body.List {
			is, ok := st.(*ast.IfStmt)
			if !ok {
				continue
			}
			thenParen := emitsParen(is.Body, "(")
			if !thenParen && is.Else == nil {
				// if cond { walk; return }  brackets after
				cond, condOmits = is.Cond, true
			} else if thenParen && is.Else != nil && !emitsParen(is.Else, "(") {
				cond, condOmits = is.Cond, false
			} else if thenParen && is.Else == nil {
				cond, condOmits = is.Cond, false
			}
		}
		if cond == nil {
			m.why = "no condition around the bracket emission recognised"
			return m
		}
		// split a disjunction (omit form) or conjunction (bracket form)
		var terms []ast.Expr
		var split func(e ast.Expr, op token.Token)
		split = func(e ast.Expr, op token.Token) {
			if be, ok := core.Unparen(e).(*ast.BinaryExpr); ok && be.Op == op {
				split(be.X, op)
				split(be.Y, op)
				return
			}
			terms = append(terms, core.Unparen(e))
		}
		if condOmits {
			split(cond, token.LOR)
		} else {
			split(cond, token.LAND)
		}
		for _, t := range terms {
			be, ok := t.(*ast.BinaryExpr)
			if ok {
				lc, lok := core.Unparen(be.X).(*ast.CallExpr)
				rc, rok := core.Unparen(be.Y).(*ast.CallExpr)
				if lok && rok && hf.CalleeFunc(lc) != nil && hf.CalleeFunc(rc) != nil {
					lf, rf := hf.CalleeFunc(lc), hf.CalleeFunc(rc)
					op := be.Op
					if len(lc.Args) == 2 && len(rc.Args) == 1 { // slot CMP prec: mirror
						lf, rf = rf, lf
						op = map[token.Token]token.Token{token.LSS: token.GTR, token.GTR: token.LSS, token.LEQ: token.GEQ, token.GEQ: token.LEQ}[op]
					}
					if !condOmits { // brackets when cond: omit is the negation
						op = map[token.Token]token.Token{token.LSS: token.GEQ, token.GEQ: token.LSS, token.LEQ: token.GTR, token.GTR: token.LEQ}[op]
					}
					if op == token.GEQ || op == token.GTR {
						m.precFn, m.slotFn, m.cmp = lf, rf, op
						continue
					}
				}
			}
			m.extra = append(m.extra, exprStr(t))
		}
		if m.precFn == nil {
			m.why = "no comparison `precedence(operand) >= needed(op, side)` recognised in " + exprStr(cond)
		}
		return m
	}
	// the extra no-bracket conditions must be the pattern context
	justifyExtra := func(hf *core.Func, m *helperModel) (ok bool, detail string) {
		for _, t := range m.extra {
			switch {
			case strings.Contains(t, "inPattern"):
				// inPattern is written only around the walks of PatternExpr.Expr / PatternFragment.Expr
				bad := ""
				for _, f := range shipped(c) {
					if core.Rel(f.Pkg.PkgPath) != parserPkg {
						continue
					}
					ast.Inspect(f.Body, func(n ast.Node) bool {
						if ids, ok := n.(*ast.IncDecStmt); ok && strings.HasSuffix(exprStr(ids.X), ".inPattern") {
							in := false
							for typ, cl := range clauses {
								if (typ == "PatternExpr" || typ == "PatternFragment") && cl.Pos() <= ids.Pos() && ids.End() <= cl.End() {
									in = true
								}
							}
							if !in {
								bad = c.Prog.Position(ids.Pos())
							}
						}
						if as, ok := n.(*ast.AssignStmt); ok {
							for _, l := range as.Lhs {
								if strings.HasSuffix(exprStr(l), ".inPattern") {
									bad = c.Prog.Position(as.Pos())
								}
							}
						}
						return true
					})
				}
				if bad != "" {
					return false, "inPattern is changed outside the pattern clauses at " + bad
				}
				// inside each pattern clause: ++ before the walk, -- after it, same number of each
				for typ, cl := range clauses {
					if typ != "PatternExpr" && typ != "PatternFragment" {
						continue
					}
					inc, dec := 0, 0
					okOrder := true
					for _, st := range cl.Body {
						if ids, ok := st.(*ast.IncDecStmt); ok && strings.HasSuffix(exprStr(ids.X), ".inPattern") {
							if ids.Tok == token.INC {
								inc++
							} else {
								dec++
								if dec > inc {
									okOrder = false
								}
							}
						}
					}
					if inc != dec || !okOrder {
						return false, "PAIRING: the pattern context is entered " + fmt.Sprint(inc) + " times and left " + fmt.Sprint(dec) + " times in the " + typ + " clause"
					}
				}
			default:
				// a boolean bound by a comma-ok assertion to *ast.PatternExpr
				okT := false
				if id, isId := core.Unparen(parseExprOrNil(hf, t)).(*ast.Ident); isId || true {
					_ = id
					ast.Inspect(hf.Body, func(n ast.Node) bool {
						if as, ok := n.(*ast.AssignStmt); ok && len(as.Lhs) == 2 && len(as.Rhs) == 1 {
							if ta, ok := as.Rhs[0].(*ast.TypeAssertExpr); ok && exprStr(ta.Type) == "*ast.PatternExpr" && exprStr(as.Lhs[1]) == t {
								okT = true
							}
						}
						return true
					})
				}
				if !okT {
					return false, "unrecognised no-bracket condition `" + t + "`"
				}
			}
		}
		return true, strings.Join(m.extra, " || ")
	}
	evalPrec := func(fn *core.Func, k c23Kind) (int64, bool, string) {
		ps := c23Params(fn)
		if len(ps) != 1 {
			return 0, false, "precedence function does not take one node"
		}
		v := c23Val{isNode: true, typ: k.Type}
		if k.Op != "" {
			tv, ok := tokVal(k.Op)
			if !ok {
				return 0, false, "unknown token " + k.Op
			}
			v.op, v.hasOp = tv, true
		}
		ev := &c23Eval{f: fn}
		r, ret, why := ev.call(map[types.Object]c23Val{ps[0]: v})
		if !ret && why == "" {
			why = "no return reached"
		}
		return r, ret, why
	}
	evalSlot := func(fn *core.Func, op string, right bool) (int64, bool, string) {
		ps := c23Params(fn)
		if len(ps) != 2 {
			return 0, false, "operand-precedence function does not take (op, side)"
		}
		tv, ok := tokVal(op)
		if !ok {
			return 0, false, "unknown token " + op
		}
		ev := &c23Eval{f: fn}
		r, ret, why := ev.call(map[types.Object]c23Val{ps[0]: {op: tv}, ps[1]: {isBool: true, b: right}})
		if !ret && why == "" {
			why = "no return reached"
		}
		return r, ret, why
	}
	example := func(sl c23Slot, side string, k c23Kind) string {
		child := "x ? y"
		if k.Op != "" {
			child = "x " + k.Op + " y"
			if k.Type == "UnaryExpr" {
				child = k.Op + " x"
			}
		}
		switch {
		case sl.Node == "BinaryExpr" && side == "left":
			return fmt.Sprintf("`(%s) %s z`", child, sl.Op)
		case sl.Node == "BinaryExpr":
			return fmt.Sprintf("`z %s (%s)`", sl.Op, child)
		default:
			return fmt.Sprintf("`%s (%s)`", sl.Op, child)
		}
	}
	// transparency of ConvExpr in the precedence function (the checker wraps operands in ConvExpr before mfmt prints)
	nChecked := 0
	// an operator token can be built by several productions (AND: `logical_expr && bitwise_expr`, `logical_expr && match_expr`,
	// `pattern && logical_expr`); the printed text reparses if SOME production derives the operand, so the operand
	// positions of one (node, operator, side) are merged
	type slotKey struct{ node, op, side string }
	merged := map[slotKey]map[string]bool{}
	mergedNT := map[slotKey][]string{}
	var order []slotKey
	var firstSlot = map[slotKey]c23Slot{}
	for _, sl := range slots {
		if sl.Head == "concat_expr" {
			continue
		}
		for _, side := range []string{"left", "right"} {
			nt := sl.Left
			if side == "right" {
				nt = sl.Right
			}
			if nt == "" {
				continue
			}
			k := slotKey{sl.Node, sl.Op, side}
			if merged[k] == nil {
				merged[k] = map[string]bool{}
				order = append(order, k)
				firstSlot[k] = sl
			}
			for x := range g.unitClosure(nt) {
				merged[k][x] = true
			}
			mergedNT[k] = append(mergedNT[k], nt)
		}
	}
	for _, sk := range order {
		{
			sl := firstSlot[sk]
			side := sk.side
			field := "LHS"
			if side == "right" {
				field = "RHS"
			}
			if sl.Node == "UnaryExpr" {
				field = "Expr"
			}
			accepts := merged[sk]
			slotNT := strings.Join(uniq(mergedNT[sk]), " | ")
			// find the print site for this operand
			var site *operandSite
			for i := range sites {
				s := &sites[i]
				if s.node != sl.Node || s.field != field {
					continue
				}
				if len(s.ops) > 0 {
					hit := false
					for _, o := range s.ops {
						if o == sl.Op {
							hit = true
						}
					}
					if !hit {
						continue
					}
				}
				site = s
			}
			keyBase := fmt.Sprintf("%s %s %s operand", sl.Node, sl.Op, side)
			if site == nil {
				if sl.Node == "UnaryExpr" && sl.Op == "MATCH" {
					continue
				}
				c.Undecided("C23-R2", keyBase, pos(c, up.Decl), "no print site found for this operand")
				continue
			}
			var model *helperModel
			if site.helper != nil {
				model = analyse(site.helper)
				if model.why != "" {
					c.Undecided("C23-R2", keyBase, pos(c, site.call), "bracket helper "+site.helper.Key+": "+model.why)
					continue
				}
				if ok, det := justifyExtra(site.helper, model); !ok {
					if strings.HasPrefix(det, "PAIRING") {
						c.Fail("C23-R2", keyBase, pos(c, site.call), "brackets are suppressed while the printer believes it is inside a pattern concatenation, and that belief is not reset: "+det+" — after the first pattern every later operand is printed without the brackets it needs")
					} else {
						c.Undecided("C23-R2", keyBase, pos(c, site.call), det)
					}
					continue
				}
			}
			for _, k := range kinds {
				if k.Type == "PatternLit" || k.Type == "PatternExpr" || k.Head == "concat_expr" || sl.Head == "concat_expr" {
					continue // pattern concatenations admit no brackets; printed under the pattern context
				}
				if k.Type != "BinaryExpr" && k.Type != "UnaryExpr" {
					if !accepts[k.Head] && !accepts["primary_expr"] {
						continue
					}
				}
				if k.Type == "UnaryExpr" && k.Op == "MATCH" {
					continue // a bare pattern condition is never an operand of an expression operator
				}
				possibleBare := accepts[k.Head]
				possibleBracketed := accepts["primary_expr"] && inParens[k.Head]
				if !possibleBare && !possibleBracketed {
					continue
				}
				nChecked++
				key := fmt.Sprintf("%s|%s", keyBase, k)
				omit := true
				detail := "printed by a plain ast.Walk: never bracketed"
				if model != nil {
					right := side == "right"
					if site.right != nil {
						right = *site.right
					}
					pv, ok1, w1 := evalPrec(model.precFn, k)
					sv, ok2, w2 := evalSlot(model.slotFn, sl.Op, right)
					if !ok1 || !ok2 {
						c.Undecided("C23-R2", key, pos(c, site.call), "cannot evaluate the precedence tables: "+w1+" "+w2)
						continue
					}
					if model.cmp == token.GEQ {
						omit = pv >= sv
					} else {
						omit = pv > sv
					}
					detail = fmt.Sprintf("precedence(%s)=%d, needed(%s,%s)=%d", k, pv, sl.Op, side, sv)
				}
				switch {
				case omit && !possibleBare:
					c.Fail("C23-R2", key, pos(c, site.call), fmt.Sprintf("the formatter prints a %s as the %s operand of %s without brackets (%s), but the grammar only accepts %s there, which does not derive %s: %s is formatted without its brackets and parses back to a different expression", k, side, sl.Op, detail, slotNT, k.Head, example(sl, side, k)))
				case !omit && !possibleBracketed:
					c.Fail("C23-R2", key, pos(c, site.call), fmt.Sprintf("the formatter brackets a %s as the %s operand of %s, but `( … )` cannot hold a %s: the output does not parse", k, side, sl.Op, k.Head))
				default:
					c.Ok("C23-R2", key, pos(c, site.call), fmt.Sprintf("%s; brackets omitted=%v, grammar needs none=%v", detail, omit, possibleBare))
				}
			}
		}
	}
	c.Extra["bracket_triples_checked"] = nChecked
	// ConvExpr / transparent wrappers: the precedence function must look through what the printer prints transparently
	for _, m := range models {
		if m.precFn == nil {
			continue
		}
		c.Analysed(m.precFn, m.slotFn)
		for typ, cl := range clauses {
			if typ != "ConvExpr" {
				continue
			}
			// the clause only walks one child: transparent
			through := false
			ast.Inspect(m.precFn.Body, func(n ast.Node) bool {
				cc, ok := n.(*ast.CaseClause)
				if !ok {
					return true
				}
				for _, e := range cc.List {
					if exprStr(e) == "*ast."+typ {
						ast.Inspect(cc, func(x ast.Node) bool {
							if call, ok := x.(*ast.CallExpr); ok && m.precFn.CalleeFunc(call) == m.precFn {
								through = true
							}
							return true
						})
					}
				}
				return true
			})
			c.Verdict(through, "C23-R2", "transparent "+typ, pos(c, cl), "precedence looks through "+typ, "the formatter prints "+typ+" (inserted by the type checker around operands) transparently but the precedence table treats it as a primary: a converted operand such as `(a + b) * 2.0` loses its brackets when mfmt prints the checked program")
		}
	}
}

// parseExprOrNil is a tiny helper: the term text is already an identifier name here.
func parseExprOrNil(f *core.Func, s string) ast.Expr { return &ast.Ident{Name: s} }

// c23ReturnExprs lists the result expressions of f's return statements.
func c23ReturnExprs(f *core.Func) []ast.Expr {
	var out []ast.Expr
	core.InspectNoLit(f.Body, func(n ast.Node) bool {
		if r, ok := n.(*ast.ReturnStmt); ok && len(r.Results) == 1 {
			out = append(out, r.Results[0])
		}
		return true
	})
	return out
}

// c23Flatten splits a + concatenation.
func c23Flatten(e ast.Expr) []ast.Expr {
	if be, ok := core.Unparen(e).(*ast.BinaryExpr); ok && be.Op == token.ADD {
		return append(c23Flatten(be.X), c23Flatten(be.Y)...)
	}
	return []ast.Expr{core.Unparen(e)}
}

// c23QuoteShape checks that e is `D + R(x) + D` where R is a nest of
// strings.ReplaceAll calls that puts a backslash in front of exactly the
// characters in esc (the backslash itself, if it is among them, first) and
// returns x.
func c23QuoteShape(f *core.Func, e ast.Expr, delim string, esc []string) (ast.Expr, bool) {
	parts := c23Flatten(e)
	if len(parts) != 3 {
		return nil, false
	}
	cs := func(x ast.Expr) (string, bool) {
		tv, ok := f.Info().Types[x]
		if !ok || tv.Value == nil || tv.Value.Kind() != constant.String {
			return "", false
		}
		return constant.StringVal(tv.Value), true
	}
	a, ok1 := cs(parts[0])
	b, ok2 := cs(parts[2])
	if !ok1 || !ok2 || a != delim || b != delim {
		return nil, false
	}
	// unnest ReplaceAll(ReplaceAll(x, o1, n1), o2, n2): application order o1, o2
	var olds []string
	cur := parts[1]
	for {
		call, ok := core.Unparen(cur).(*ast.CallExpr)
		if !ok || f.CalleeID(call) != "strings.ReplaceAll" || len(call.Args) != 3 {
			break
		}
		o, okO := cs(call.Args[1])
		n, okN := cs(call.Args[2])
		if !okO || !okN || n != "\\"+o {
			return nil, false
		}
		olds = append([]string{o}, olds...)
		cur = call.Args[0]
	}
	if len(olds) != len(esc) {
		return nil, false
	}
	want := map[string]bool{}
	for _, d := range esc {
		want[d] = true
	}
	for i, o := range olds {
		if !want[o] {
			return nil, false
		}
		delete(want, o)
		if o == "\\" && i != 0 {
			return nil, false // escaping the backslash after another escape doubles that escape's backslash
		}
	}
	return cur, len(want) == 0
}

// c23Literals decides rule R3.
func c23Literals(c *core.Check, up *core.Func, clauses map[string]*ast.CaseClause, clauseVar map[*ast.CaseClause]types.Object) {
	c.Rule("C23-R3", "ESCAPING: the lexer strips the backslash from an escaped delimiter inside a quoted string (\") and a regex (/) and keeps other escapes; the printer emits StringLit.Text, VarDecl.ExportedName and PatternLit.Pattern as delimiter + ReplaceAll(text, delimiter, backslash+delimiter) + delimiter (directly or through a helper of that shape); VarDecl.Name and the elements of VarDecl.Keys, which the grammar takes from an identifier or a string, go through a function that returns its argument bare only if it is spelled like an identifier that is neither keyword nor builtin, and quoted by the same helper otherwise")
	info := up.Info()
	// delimiter unescaped by the lexer
	lexDelim := func(key string) ([]string, bool) {
		lf := c.Prog.Fn(key)
		if lf == nil {
			return nil, false
		}
		c.Analysed(lf)
		var ds []string
		ast.Inspect(lf.Body, func(n ast.Node) bool {
			is, ok := n.(*ast.IfStmt)
			if !ok {
				return true
			}
			// condition: r != 'a' && r != 'b' ...
			var chars []string
			okCond := true
			var walk func(e ast.Expr)
			walk = func(e ast.Expr) {
				be, ok := core.Unparen(e).(*ast.BinaryExpr)
				if !ok {
					okCond = false
					return
				}
				if be.Op == token.LAND {
					walk(be.X)
					walk(be.Y)
					return
				}
				bl, isLit := core.Unparen(be.Y).(*ast.BasicLit)
				if be.Op != token.NEQ || !isLit || bl.Kind != token.CHAR {
					okCond = false
					return
				}
				if tv := lf.Info().Types[bl]; tv.Value != nil {
					if r, ok := constant.Int64Val(tv.Value); ok {
						chars = append(chars, string(rune(r)))
					}
				}
			}
			walk(is.Cond)
			if !okCond || len(chars) == 0 {
				return true
			}
			// body writes the backslash
			writes := false
			ast.Inspect(is.Body, func(m ast.Node) bool {
				if call, ok := m.(*ast.CallExpr); ok && strings.HasSuffix(lf.CalleeID(call), "WriteRune") && len(call.Args) == 1 && exprStr(call.Args[0]) == `'\\'` {
					writes = true
				}
				return true
			})
			if writes {
				ds = chars
			}
			return true
		})
		return ds, len(ds) > 0
	}
	strEsc, ok1 := lexDelim(parserPkg + ".lexQuotedString")
	reEsc, ok2 := lexDelim(parserPkg + ".lexRegex")
	if !ok1 || !ok2 {
		c.Undecided("C23-R3", "lexer", "-", "delimiter unescape rule of lexQuotedString/lexRegex not recognised")
		return
	}
	strDelim, reDelim := "\"", "/"
	has := func(xs []string, x string) bool {
		for _, y := range xs {
			if y == x {
				return true
			}
		}
		return false
	}
	if !has(strEsc, strDelim) || !has(reEsc, reDelim) {
		c.Undecided("C23-R3", "lexer", "-", "the lexer does not unescape the literal's own delimiter")
		return
	}
	escOf := map[string][]string{strDelim: strEsc, reDelim: reEsc}
	c.Extra["lexer_unescapes"] = map[string][]string{"string": strEsc, "regex": reEsc}
	// does expression e (inside function f) print field fv of v through the quote shape with delim?
	var quoted func(f *core.Func, e ast.Expr, delim string, isField func(ast.Expr) bool, depth int) bool
	quoted = func(f *core.Func, e ast.Expr, delim string, isField func(ast.Expr) bool, depth int) bool {
		if x, ok := c23QuoteShape(f, e, delim, escOf[delim]); ok {
			return isField(x)
		}
		// through a helper: f2(field) whose every return has the shape on its parameter
		if call, ok := core.Unparen(e).(*ast.CallExpr); ok && depth < 3 {
			if hf := f.CalleeFunc(call); hf != nil && len(call.Args) == 1 && isField(call.Args[0]) {
				ps := c23Params(hf)
				if len(ps) != 1 {
					return false
				}
				rets := c23ReturnExprs(hf)
				if len(rets) == 0 {
					return false
				}
				for _, r := range rets {
					if !quoted(hf, r, delim, func(x ast.Expr) bool { return identObj(hf.Info(), x) == ps[0] }, depth+1) {
						return false
					}
				}
				c.Analysed(hf)
				return true
			}
		}
		return false
	}
	fieldIs := func(v types.Object, name string) func(ast.Expr) bool {
		return func(x ast.Expr) bool {
			sel, ok := core.Unparen(x).(*ast.SelectorExpr)
			return ok && sel.Sel.Name == name && identObj(info, sel.X) == v
		}
	}
	emitsIn := func(cl *ast.CaseClause) []*ast.CallExpr {
		var out []*ast.CallExpr
		for _, st := range cl.Body {
			ast.Inspect(st, func(n ast.Node) bool {
				if call, ok := n.(*ast.CallExpr); ok && strings.HasSuffix(up.CalleeID(call), "(*Unparser).emit") && len(call.Args) == 1 {
					out = append(out, call)
				}
				return true
			})
		}
		return out
	}
	check := func(typ, field, delim string) {
		cl := clauses[typ]
		key := typ + "." + field
		if cl == nil {
			c.Undecided("C23-R3", key, "-", "no clause")
			return
		}
		v := clauseVar[cl]
		isF := fieldIs(v, field)
		okQ, found := false, false
		for _, call := range emitsIn(cl) {
			uses := false
			ast.Inspect(call.Args[0], func(n ast.Node) bool {
				if e, ok := n.(ast.Expr); ok && isF(e) {
					uses = true
				}
				return true
			})
			if !uses {
				continue
			}
			found = true
			arg := call.Args[0]
			// allow a constant prefix: " as " + quote(x)
			parts := c23Flatten(arg)
			if len(parts) == 2 {
				if tv, ok := info.Types[parts[0]]; ok && tv.Value != nil {
					arg = parts[1]
				}
			}
			if quoted(up, arg, delim, isF, 0) {
				okQ = true
			}
		}
		if !found {
			return // R1 reports a field that is not printed at all
		}
		c.Verdict(okQ, "C23-R3", key, pos(c, cl), "delimiter "+delim+" re-escaped", fmt.Sprintf("the formatter prints %s without putting back (in the right order) the backslash the lexer removes in front of %q: a literal containing such a character is formatted into text that ends the literal early or changes its contents (it no longer parses, or parses to other literals)", key, escOf[delim]))
	}
	check("StringLit", "Text", strDelim)
	check("VarDecl", "ExportedName", strDelim)
	check("PatternLit", "Pattern", reDelim)
	// id-or-string positions
	if cl := clauses["VarDecl"]; cl != nil {
		v := clauseVar[cl]
		for _, field := range []string{"Name", "Keys"} {
			key := "VarDecl." + field + " id-or-string"
			var helper *core.Func
			var where ast.Node
			for _, st := range cl.Body {
				ast.Inspect(st, func(n ast.Node) bool {
					call, ok := n.(*ast.CallExpr)
					if !ok || len(call.Args) != 1 {
						return true
					}
					hf := up.CalleeFunc(call)
					if hf == nil {
						return true
					}
					arg := core.Unparen(call.Args[0])
					if field == "Name" && fieldIs(v, "Name")(arg) {
						helper, where = hf, call
					}
					if field == "Keys" {
						// element of a range over v.Keys
						if id, ok := arg.(*ast.Ident); ok {
							for _, st2 := range cl.Body {
								ast.Inspect(st2, func(m ast.Node) bool {
									if rs, ok := m.(*ast.RangeStmt); ok && fieldIs(v, "Keys")(rs.X) && rs.Value != nil && identObj(info, rs.Value) == identObj(info, id) {
										helper, where = hf, call
									}
									return true
								})
							}
						}
					}
					return true
				})
			}
			if helper == nil {
				// printed raw?
				raw := false
				for _, call := range emitsIn(cl) {
					ast.Inspect(call.Args[0], func(n ast.Node) bool {
						if e, ok := n.(ast.Expr); ok && fieldIs(v, field)(e) {
							raw = true
						}
						return true
					})
				}
				if raw {
					c.Fail("C23-R3", key, pos(c, cl), "VarDecl."+field+" is printed as it is; the grammar also takes it from a quoted string (`counter \"a-b\"`, `by \"x y\"`), whose text does not lex as an identifier: the formatted declaration does not parse or declares another name")
				} else {
					c.Undecided("C23-R3", key, pos(c, cl), "how VarDecl."+field+" is printed was not recognised")
				}
				continue
			}
			c.Analysed(helper)
			// helper: every return is the parameter itself or the quote shape of it; the bare return is guarded by character, keyword and builtin tests
			ps := c23Params(helper)
			okShape := len(ps) == 1
			bare, quotedRet := 0, 0
			for _, r := range c23ReturnExprs(helper) {
				if okShape && identObj(helper.Info(), r) == ps[0] {
					bare++
				} else if okShape && quoted(helper, r, strDelim, func(x ast.Expr) bool { return identObj(helper.Info(), x) == ps[0] }, 0) {
					quotedRet++
				} else {
					okShape = false
				}
			}
			usesTable := func(name string) bool {
				hit := false
				ast.Inspect(helper.Body, func(n ast.Node) bool {
					if id, ok := n.(*ast.Ident); ok && id.Name == name {
						if o := helper.Info().Uses[id]; o != nil && o.Pkg() != nil && o.Parent() == o.Pkg().Scope() {
							hit = true
						}
					}
					return !hit
				})
				return hit
			}
			guards := usesTable("keywords") && usesTable("builtins") && (usesTable("isAlpha") || usesTable("isAlnum"))
			c.Verdict(okShape && bare == 1 && quotedRet >= 1 && guards, "C23-R3", key, pos(c, where), "bare only when it lexes as one ID (character classes, keywords and builtins consulted), quoted otherwise", fmt.Sprintf("%s does not quote every spelling that fails to lex as a single identifier (returns: %d bare, %d quoted; consults lexer tables: %v)", helper.Key, bare, quotedRet, guards))
		}
	}
	c.Floor("C23-R3", 5)
}

// c23Numbers decides rule R4.
func c23Numbers(c *core.Check, up *core.Func, clauses map[string]*ast.CaseClause, clauseVar map[*ast.CaseClause]types.Object) {
	c.Rule("C23-R4", "NUMBERS: every float64 the printer emits (FloatLit.F, elements of VarDecl.Buckets) is formatted by strconv.FormatFloat(x, 'g'|'e'|'f', -1, 64) — the shortest text that parses back to x — and never by a fmt verb; the text of a FloatLit additionally gets a decimal point or exponent when it has neither (the lexer reads bare digits as an integer literal); IntLit.I is printed in base 10")
	info := up.Info()
	isFloat := func(f *core.Func, e ast.Expr) bool {
		t := f.Info().TypeOf(e)
		if t == nil {
			return false
		}
		b, ok := t.Underlying().(*types.Basic)
		return ok && b.Kind() == types.Float64
	}
	// classify a formatting function: shortest (FormatFloat prec -1) and forcing a float spelling
	type fmtInfo struct {
		shortest, forced bool
		bad              string
	}
	var classify func(f *core.Func, e ast.Expr, depth int) fmtInfo
	classify = func(f *core.Func, e ast.Expr, depth int) fmtInfo {
		call, ok := core.Unparen(e).(*ast.CallExpr)
		if !ok {
			return fmtInfo{bad: "not a call: " + exprStr(e)}
		}
		id := f.CalleeID(call)
		switch {
		case id == "strconv.FormatFloat" && len(call.Args) == 4:
			prec, okp := constInt(f.Info(), call.Args[2])
			bits, okb := constInt(f.Info(), call.Args[3])
			if okp && okb && prec == -1 && bits == 64 {
				return fmtInfo{shortest: true}
			}
			return fmtInfo{bad: "FormatFloat with a fixed precision"}
		case strings.HasPrefix(id, "fmt."):
			return fmtInfo{bad: id + " with a float verb prints a rounded value (%f keeps 6 decimals)"}
		}
		if hf := f.CalleeFunc(call); hf != nil && depth < 3 && len(call.Args) == 1 {
			c.Analysed(hf)
			// helper: s := FormatFloat(...); if !strings.ContainsAny(s, ".eE") { s += ".0" }; return s
			res := fmtInfo{}
			var sObj types.Object
			ast.Inspect(hf.Body, func(n ast.Node) bool {
				if as, ok := n.(*ast.AssignStmt); ok && len(as.Rhs) == 1 && len(as.Lhs) == 1 && as.Tok == token.DEFINE {
					ci := classify(hf, as.Rhs[0], depth+1)
					if ci.shortest {
						res.shortest = true
						sObj = identObj(hf.Info(), as.Lhs[0])
					}
				}
				return true
			})
			if !res.shortest {
				for _, r := range c23ReturnExprs(hf) {
					if ci := classify(hf, r, depth+1); ci.shortest {
						res.shortest = true
					} else if ci.bad != "" {
						res.bad = ci.bad
					}
				}
				return res
			}
			// forced float spelling
			ast.Inspect(hf.Body, func(n ast.Node) bool {
				is, ok := n.(*ast.IfStmt)
				if !ok {
					return true
				}
				u, ok := core.Unparen(is.Cond).(*ast.UnaryExpr)
				if !ok || u.Op != token.NOT {
					return true
				}
				cc, ok := core.Unparen(u.X).(*ast.CallExpr)
				if !ok || hf.CalleeID(cc) != "strings.ContainsAny" || len(cc.Args) != 2 || identObj(hf.Info(), cc.Args[0]) != sObj {
					return true
				}
				tv := hf.Info().Types[cc.Args[1]]
				if tv.Value == nil {
					return true
				}
				chars := constant.StringVal(tv.Value)
				if !(strings.Contains(chars, ".") && strings.Contains(chars, "e")) {
					return true
				}
				for _, st := range is.Body.List {
					if as, ok := st.(*ast.AssignStmt); ok && as.Tok == token.ADD_ASSIGN && identObj(hf.Info(), as.Lhs[0]) == sObj {
						if tv := hf.Info().Types[as.Rhs[0]]; tv.Value != nil && strings.Contains(constant.StringVal(tv.Value), ".") {
							res.forced = true
						}
					}
				}
				return true
			})
			// the function returns s
			for _, r := range c23ReturnExprs(hf) {
				if identObj(hf.Info(), r) != sObj {
					res.bad = "returns something other than the formatted text"
				}
			}
			return res
		}
		return fmtInfo{bad: "unrecognised formatter " + id}
	}
	floatUses := func(cl *ast.CaseClause) []*ast.CallExpr {
		var out []*ast.CallExpr
		for _, st := range cl.Body {
			ast.Inspect(st, func(n ast.Node) bool {
				call, ok := n.(*ast.CallExpr)
				if !ok {
					return true
				}
				for _, a := range call.Args {
					if isFloat(up, a) {
						out = append(out, call)
						return false
					}
				}
				return true
			})
		}
		return out
	}
	for _, spec := range []struct {
		typ       string
		needFloat bool
		what      string
	}{{"FloatLit", true, "a float literal"}, {"VarDecl", false, "a bucket boundary"}} {
		cl := clauses[spec.typ]
		if cl == nil {
			continue
		}
		calls := floatUses(cl)
		if len(calls) == 0 {
			c.Undecided("C23-R4", spec.typ+" float", pos(c, cl), "no call taking a float64 found in the clause")
			continue
		}
		for i, call := range calls {
			key := fmt.Sprintf("%s float#%d", spec.typ, i+1)
			ci := classify(up, call, 0)
			switch {
			case ci.bad != "" && !ci.shortest:
				if strings.HasPrefix(ci.bad, "unrecognised") || strings.HasPrefix(ci.bad, "not a call") {
					c.Undecided("C23-R4", key, pos(c, call), ci.bad)
				} else {
					c.Fail("C23-R4", key, pos(c, call), "the formatter prints "+spec.what+" with "+ci.bad+": the formatted program has a different number (0.0000001 becomes 0.000000)")
				}
			case !ci.shortest:
				c.Undecided("C23-R4", key, pos(c, call), "float formatting not recognised")
			case spec.needFloat && !ci.forced:
				c.Fail("C23-R4", key, pos(c, call), "the shortest text of an integral float (1.0) is `1`, which the lexer reads back as an integer literal: the literal changes type when the program is formatted")
			default:
				c.Ok("C23-R4", key, pos(c, call), "shortest round-trip format"+map[bool]string{true: ", float spelling forced", false: ""}[ci.forced])
			}
		}
	}
	if cl := clauses["IntLit"]; cl != nil {
		okInt := false
		for _, st := range cl.Body {
			ast.Inspect(st, func(n ast.Node) bool {
				if call, ok := n.(*ast.CallExpr); ok && up.CalleeID(call) == "strconv.FormatInt" && len(call.Args) == 2 {
					if b, ok := constInt(info, call.Args[1]); ok && b == 10 {
						okInt = true
					}
				}
				return true
			})
		}
		c.Verdict(okInt, "C23-R4", "IntLit base", pos(c, cl), "base 10", "integer literals are not printed in base 10, the only base the lexer reads")
	}
	c.Floor("C23-R4", 3)
	_ = sort.Strings
}
