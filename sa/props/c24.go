package props

// C24 — invalid programs are rejected with a positioned error.
//
// The rules are necessary structural conditions, decided on every control-flow
// path of the current source:
//
//	R1  errors stop the pipeline (stage error shape, Compile, CompileAndRun, who installs a VM)
//	R2  every reject edge is positioned (abstract node-kind model built from parser.y and the tree rewriters)
//	R3  traversal completeness (Walk, walks done by hand, no silent pruning)
//	R4  one reject edge per error class of the property statement
//	R5  symbol-table discipline the reject edges rely on
//	R6  every newly detected type error is reported
//
// All helpers carry the prefix c24.

import (
	"fmt"
	"go/ast"
	"go/parser"
	"go/token"
	"go/types"
	"os"
	"path/filepath"
	"sort"
	"strings"

	"golang.org/x/tools/go/cfg"

	"verif/sa/core"
)

func init() { register("C24", c24) }

const (
	c24PkgAst     = "internal/runtime/compiler/ast"
	c24PkgChecker = "internal/runtime/compiler/checker"
	c24PkgOpt     = "internal/runtime/compiler/opt"
	c24PkgParser  = "internal/runtime/compiler/parser"
	c24PkgSymbol  = "internal/runtime/compiler/symbol"
	c24PkgTypes   = "internal/runtime/compiler/types"
	c24PkgCodegen = "internal/runtime/compiler/codegen"
	c24PkgPos     = "internal/runtime/compiler/position"

	c24Add      = "internal/runtime/compiler/errors.(*ErrorList).Add"
	c24Lookup   = c24PkgSymbol + ".(*Scope).Lookup"
	c24Insert   = c24PkgSymbol + ".(*Scope).Insert"
	c24InsAlias = c24PkgSymbol + ".(*Scope).InsertAlias"
	c24NewSym   = c24PkgSymbol + ".NewSymbol"
	c24NewScope = c24PkgSymbol + ".NewScope"
	c24Walk     = c24PkgAst + ".Walk"
	c24WalkList = c24PkgAst + ".walknodelist"
	c24VB       = c24PkgChecker + ".(*checker).VisitBefore"
	c24VA       = c24PkgChecker + ".(*checker).VisitAfter"
	c24Check    = c24PkgChecker + ".Check"
	c24SymTab   = c24PkgChecker + ".(*checker).checkSymbolTable"
	c24OptVA    = c24PkgOpt + ".(*optimiser).VisitAfter"
	c24Compile  = "internal/runtime/compiler.(*Compiler).Compile"
	c24ParseRe  = c24PkgTypes + ".ParseRegexp"
	c24AsTE     = c24PkgTypes + ".AsTypeError"
	c24IsTE     = c24PkgTypes + ".IsTypeError"
	c24Unify    = c24PkgTypes + ".Unify"
	c24Equals   = c24PkgTypes + ".Equals"
	c24Merge    = c24PkgPos + ".Merge"
	c24VMNew    = "internal/runtime/vm.New"
)

// c24x is the per-run context.
type c24x struct {
	c       *core.Check
	mustAdd map[*core.Func]bool
	addPts  map[*core.Graph]map[core.Point]bool
	callers map[*core.Func][]c24callSite
	model   *c24model
	walkers map[*core.Func]bool
	lat     map[types.Object]bool // error latches of the checker (see latches)
	condAdd map[*core.Func]bool   // bool-valued helpers: the result value that implies an error was recorded
}

type c24callSite struct {
	f    *core.Func
	call *ast.CallExpr
}

func c24(c *core.Check) {
	c.Explain = "Decides structural necessary conditions of C24 on every control-flow path of the compiler front end: (R1) a stage returns a nil error only on the edge where its error list is empty, Compile starts no later stage and CompileAndRun builds no VM on a path where the previous step's error was not found nil, and only CompileAndRun installs a VM; (R2) the position passed at every ErrorList.Add of parser, optimiser and checker cannot be nil, decided with a node-kind model (which kinds each Node field can hold) extracted from the actions of parser.y and from the tree rewriting of checker/optimiser/Walk, and the least fixpoint of 'Pos() can return nil' over that model; (R3) Walk descends into every Node field of every kind or the checker walks it by hand on every path, Walk calls VisitAfter unless the visitor pruned, and the checker prunes a sub-tree only after recording an error; (R4) for each error class of the statement the reject edge exists and cannot be bypassed: an identifier / capture reference / decorator use leaves the before-visit either resolved on the non-nil edge of a kind-correct Lookup of its own name or with an error; `next` reaches acceptance only through a non-empty decorator stack that is pushed and popped exactly by DecoDecl; an index expression bypasses the arity unification only on recognised edges that admit no keys; every declaration is Inserted into the current scope and a non-nil Insert result leads to an error; the unused-symbol scan runs before every StmtList scope is popped, reports every unused non-capture symbol and is not cut short; the regex length limit is compared on every path (or every append to the pattern builder is bounded) and its over-limit edge, and the parse-error edge, lead to an error, and every PatternExpr is checked; a DIV or MOD whose right operand is the literal 0 cannot leave the checker without an error, and the constant folder never divides by a zero literal; (R5) Scope.Insert never overwrites an occupied name and returns the occupant, Symbol.Used is set only where a lookup resolved; (R6) every AsTypeError success edge in the checker's after-visit leads to an error. NOT decided: that the conditions are semantically right beyond these shapes (scoping rules of Lookup, what Unify accepts, regexp/syntax), column arithmetic of positions (only nil-ness), behaviour of goyacc error recovery, and anything about programs deeper than the recursion limit other than that they are rejected."
	c.Assume = append(c.Assume,
		"parser.go is what goyacc generates from parser.y (decided by C01-R1); the node-kind model reads parser.y",
		"append makes a non-nil slice: `list != nil` and `len(list) > 0` are equivalent tests of an ErrorList that is only appended to",
		"a map index expression yields nil for an absent key; position.Merge returns nil only if both arguments are nil (read from its source by the model: its body is not re-verified)",
		"a synthesised node (UnaryExpr/ConvExpr/PatternExpr built by the checker) is never itself the subject of a later reject edge with its zero-valued P: only nil-ness of positions is decided",
	)
	x := &c24x{c: c, addPts: map[*core.Graph]map[core.Point]bool{}}
	x.buildMustAdd()
	x.buildCallers()
	x.buildWalkers()
	x.lat = x.latches(c24PkgChecker)
	x.buildCondAdd()

	x.r1()
	x.r3()
	x.r2()
	x.r4()
	x.r5()
	x.r6()
	if os.Getenv("C24DEBUG") != "" {
		for _, o := range c.Obs {
			fmt.Fprintf(os.Stderr, "OB %s %-9s %s @%s :: %s\n", o.Rule, o.Status, o.Construct, o.Pos, o.Detail)
		}
	}
}

// ---------------------------------------------------------------------------
// generic machinery

// c24compilerFuncs lists the shipped functions (declarations and literals) of a package.
func (x *c24x) funcsOf(pkgs ...string) []*core.Func {
	var out []*core.Func
	for _, f := range shipped(x.c) {
		rel := core.Rel(f.Pkg.PkgPath)
		for _, p := range pkgs {
			if rel == p {
				out = append(out, f)
			}
		}
	}
	return out
}

// buildMustAdd computes the declared functions of the compiler front end that
// record an error on every path to a normal exit (so that a call to them is as
// good as a call to ErrorList.Add: extracting an error helper keeps the rules silent).
func (x *c24x) buildMustAdd() {
	x.mustAdd = map[*core.Func]bool{}
	cands := x.funcsOf(c24PkgChecker, c24PkgOpt, c24PkgParser)
	for changed := true; changed; {
		changed = false
		x.addPts = map[*core.Graph]map[core.Point]bool{}
		for _, f := range cands {
			if f.Lit != nil || x.mustAdd[f] {
				continue
			}
			g := f.Graph()
			pts := x.adds(g)
			if len(pts) == 0 {
				continue
			}
			exits := core.ExitPoints(normalExits(g))
			if len(exits) == 0 {
				continue
			}
			if _, found := g.Search(core.Query{Goal: core.At(exits...), Avoid: func(p core.Point) bool { return pts[p] }}); !found {
				x.mustAdd[f] = true
				changed = true
			}
		}
	}
	x.addPts = map[*core.Graph]map[core.Point]bool{}
}

// adds returns the points of g at which an error is recorded.
func (x *c24x) adds(g *core.Graph) map[core.Point]bool {
	if m, ok := x.addPts[g]; ok {
		return m
	}
	m := map[core.Point]bool{}
	for _, b := range g.C.Blocks {
		if !b.Live {
			continue
		}
		for i, n := range b.Nodes {
			switch n.(type) {
			case *ast.DeferStmt, *ast.GoStmt:
				continue
			}
			core.InspectNoLit(n, func(y ast.Node) bool {
				if call, ok := y.(*ast.CallExpr); ok {
					if g.F.CalleeID(call) == c24Add {
						m[core.Point{B: b, I: i}] = true
					} else if cf := g.F.CalleeFunc(call); cf != nil && x.mustAdd[cf] {
						m[core.Point{B: b, I: i}] = true
					}
				}
				return true
			})
		}
	}
	x.addPts[g] = m
	return m
}

func (x *c24x) isAdd(g *core.Graph) func(core.Point) bool {
	m := x.adds(g)
	return func(p core.Point) bool { return m[p] }
}

func (x *c24x) buildCallers() {
	x.callers = map[*core.Func][]c24callSite{}
	for _, k := range x.c.Prog.SortedFuncKeys() {
		f := x.c.Prog.Funcs[k]
		core.InspectNoLit(f.Body, func(n ast.Node) bool {
			if lit, ok := n.(*ast.FuncLit); ok && lit != f.Lit {
				return false
			}
			if call, ok := n.(*ast.CallExpr); ok {
				if cf := f.CalleeFunc(call); cf != nil {
					x.callers[cf] = append(x.callers[cf], c24callSite{f, call})
				}
			}
			return true
		})
	}
}

// buildWalkers finds ast.Walk and the helpers of package ast that walk their
// second argument (or every element of it) with their first argument as visitor.
func (x *c24x) buildWalkers() {
	x.walkers = map[*core.Func]bool{}
	w := x.c.Prog.Fn(c24Walk)
	if w == nil {
		return
	}
	x.walkers[w] = true
	for changed := true; changed; {
		changed = false
		for _, f := range x.funcsOf(c24PkgAst) {
			if f.Lit != nil || x.walkers[f] || f.Type.Params.NumFields() != 2 {
				continue
			}
			info := f.Info()
			var params []types.Object
			for _, fl := range f.Type.Params.List {
				for _, nm := range fl.Names {
					params = append(params, info.Defs[nm])
				}
			}
			if len(params) != 2 || !(c24isNodeIface(params[1].Type()) || c24isNodeSlice(params[1].Type())) {
				continue
			}
			elems := map[types.Object]bool{params[1]: true}
			ast.Inspect(f.Body, func(n ast.Node) bool {
				if rs, ok := n.(*ast.RangeStmt); ok && rs.Value != nil && identObj(info, rs.X) == params[1] {
					elems[identObj(info, rs.Value)] = true
				}
				return true
			})
			ok := false
			ast.Inspect(f.Body, func(n ast.Node) bool {
				call, isC := n.(*ast.CallExpr)
				if isC && len(call.Args) == 2 && x.walkers[f.CalleeFunc(call)] && identObj(info, call.Args[0]) == params[0] && elems[identObj(info, call.Args[1])] {
					ok = true
				}
				return true
			})
			if ok {
				x.walkers[f] = true
				changed = true
			}
		}
	}
}

// isWalk reports whether call walks its second argument with its first as visitor.
func (x *c24x) isWalk(f *core.Func, call *ast.CallExpr) bool {
	if len(call.Args) != 2 {
		return false
	}
	cf := f.CalleeFunc(call)
	return cf != nil && x.walkers[cf]
}

// buildCondAdd finds the declared bool-valued helpers of the front end that
// return one of the two truth values only after recording an error on every
// path (`if !c.declare(sym) { return nil, n }`): testing the call for that
// value puts an error on record.
func (x *c24x) buildCondAdd() {
	x.condAdd = map[*core.Func]bool{}
	for _, f := range x.funcsOf(c24PkgChecker, c24PkgOpt, c24PkgParser) {
		if f.Lit != nil || f.Type.Results == nil || f.Type.Results.NumFields() != 1 || x.mustAdd[f] {
			continue
		}
		g := f.Graph()
		byVal := map[bool][]core.Point{}
		okShape := true
		for _, e := range normalExits(g) {
			if e.Kind != "return" || len(e.Ret.Results) != 1 {
				okShape = false
				break
			}
			v, isC := constBool(f.Info(), e.Ret.Results[0])
			if !isC {
				okShape = false
				break
			}
			byVal[v] = append(byVal[v], e.P)
		}
		if !okShape {
			continue
		}
		for _, v := range []bool{true, false} {
			if len(byVal[v]) == 0 {
				continue
			}
			if _, found := g.Search(core.Query{Goal: core.At(byVal[v]...), Avoid: x.isAdd(g)}); !found {
				x.condAdd[f] = v
			}
		}
	}
}

// errEdge: the edges of f on which an error is known to be on record already:
// an error latch tested true, or a conditional error helper tested for its error value.
func (x *c24x) errEdge(f *core.Func) func(*cfg.Block, int) bool {
	return c24edges(f, x.errFact(f))
}

// errFact is the fact-level form of errEdge.
func (x *c24x) errFact(f *core.Func) func(ast.Expr, bool) bool {
	return func(atom ast.Expr, truth bool) bool {
		switch y := atom.(type) {
		case *ast.SelectorExpr:
			return truth && x.lat[f.Info().Uses[y.Sel]]
		case *ast.CallExpr:
			if cf := f.CalleeFunc(y); cf != nil {
				if v, ok := x.condAdd[cf]; ok {
					return truth == v
				}
			}
		}
		return false
	}
}

// ee adds the error-on-record edges of f to an edge predicate.
func (x *c24x) ee(f *core.Func, e func(*cfg.Block, int) bool) func(*cfg.Block, int) bool {
	return c24orEdges(e, x.errEdge(f))
}

// c24region is a part of a function's CFG: a case clause, or the whole body.
type c24region struct {
	g      *core.Graph
	lo, hi token.Pos // NoPos: the whole function
	start  *cfg.Block
}

func c24whole(f *core.Func) *c24region {
	g := f.Graph()
	return &c24region{g: g, start: g.C.Blocks[0]}
}

func (r *c24region) in(b *cfg.Block) bool {
	if r.lo == token.NoPos {
		return true
	}
	var p, e token.Pos
	switch {
	case len(b.Nodes) > 0:
		p, e = b.Nodes[0].Pos(), b.Nodes[len(b.Nodes)-1].End()
	case b.Stmt != nil:
		p, e = b.Stmt.Pos(), b.Stmt.End()
	default:
		return false
	}
	return r.lo <= p && e <= r.hi
}

func (r *c24region) contains(n ast.Node) bool {
	return r.lo == token.NoPos || (r.lo <= n.Pos() && n.End() <= r.hi)
}

// exit reports whether p leaves the region: a return statement, falling off
// the end of the function, or the first point outside the region.
func (r *c24region) exit(p core.Point) bool {
	if !r.in(p.B) {
		return true
	}
	n := p.Node()
	if _, ok := n.(*ast.ReturnStmt); ok {
		return true
	}
	if n == nil && len(p.B.Succs) == 0 {
		if k := len(p.B.Nodes); k > 0 {
			if es, ok := p.B.Nodes[k-1].(*ast.ExprStmt); ok {
				if call, ok := es.X.(*ast.CallExpr); ok && r.g.F.CalleeID(call) == "builtin.panic" {
					return false
				}
			}
			if _, ok := p.B.Nodes[k-1].(*ast.ReturnStmt); ok {
				return false // already reported at the return itself
			}
		}
		return true
	}
	return false
}

func (r *c24region) startPoint() *core.Point { return &core.Point{B: r.start, I: -1} }

// path searches from `from` (nil: region start) to a goal (nil: region exit).
func (r *c24region) path(from *core.Point, avoid func(core.Point) bool, avoidEdge func(*cfg.Block, int) bool, goal func(core.Point) bool) ([]string, bool) {
	tr, ok := r.pathB(from, avoid, avoidEdge, goal)
	return r.g.Trail(tr), ok
}

func (r *c24region) pathB(from *core.Point, avoid func(core.Point) bool, avoidEdge func(*cfg.Block, int) bool, goal func(core.Point) bool) ([]*cfg.Block, bool) {
	if from == nil {
		from = r.startPoint()
	}
	if goal == nil {
		goal = r.exit
	}
	return r.g.Search(core.Query{From: from, Goal: goal, Avoid: func(p core.Point) bool {
		if !r.in(p.B) {
			return !goal(p) // never wander outside the region
		}
		return avoid != nil && avoid(p)
	}, AvoidEdge: avoidEdge})
}

// edgeStart is the pseudo point from which a search explores what follows edge (b, si).
func c24edgeStart(b *cfg.Block, si int) *core.Point { return &core.Point{B: b.Succs[si], I: -1} }

func c24isBool(t types.Type) bool {
	if t == nil {
		return false
	}
	b, ok := t.Underlying().(*types.Basic)
	return ok && b.Info()&types.IsBoolean != 0
}

// c24cond returns the boolean condition that ends block b (go/cfg keeps && and || inside one condition).
func c24cond(f *core.Func, b *cfg.Block) (ast.Expr, bool) {
	if len(b.Succs) != 2 || len(b.Nodes) == 0 {
		return nil, false
	}
	e, isE := b.Nodes[len(b.Nodes)-1].(ast.Expr)
	if !isE || !c24isBool(f.Info().TypeOf(e)) {
		return nil, false
	}
	return c24expandBool(f, e, 0), true
}

// c24expandBool replaces, inside the !/&&/|| skeleton of a condition, a boolean
// local that has exactly one definition by that definition (`bad := err != nil;
// if bad {…}`), provided every variable the definition mentions is itself
// defined at most once (so the saved truth value cannot be stale).
func c24expandBool(f *core.Func, e ast.Expr, depth int) ast.Expr {
	if depth > 3 {
		return e
	}
	switch y := e.(type) {
	case *ast.ParenExpr:
		return c24expandBool(f, y.X, depth)
	case *ast.UnaryExpr:
		if y.Op == token.NOT {
			return &ast.UnaryExpr{OpPos: y.OpPos, Op: token.NOT, X: c24expandBool(f, y.X, depth)}
		}
	case *ast.BinaryExpr:
		if y.Op == token.LAND || y.Op == token.LOR {
			return &ast.BinaryExpr{X: c24expandBool(f, y.X, depth), OpPos: y.OpPos, Op: y.Op, Y: c24expandBool(f, y.Y, depth)}
		}
	case *ast.Ident:
		obj, isV := identObj(f.Info(), y).(*types.Var)
		if !isV || obj.IsField() || c24paramIndexOf(f, obj) >= 0 {
			return e
		}
		d, ok := c24soleDef(f, obj)
		if !ok || d.tuple || !c24isBool(f.Info().TypeOf(d.rhs)) {
			return e
		}
		stable := true
		ast.Inspect(d.rhs, func(n ast.Node) bool {
			if id, isI := n.(*ast.Ident); isI {
				if v, isVar := f.Info().Uses[id].(*types.Var); isVar && !v.IsField() && v.Pkg() == obj.Pkg() && v.Parent() != v.Pkg().Scope() {
					if len(c24defs(f, v)) > 1 {
						stable = false
					}
				}
			}
			return true
		})
		if stable {
			return c24expandBool(f, d.rhs, depth+1)
		}
	}
	return e
}

// c24fact: an atomic condition known to have a truth value.
type c24fact struct {
	atom  ast.Expr
	truth bool
}

// c24implied lists the atomic facts implied by "e evaluates to truth":
// !x flips, a true conjunction makes every conjunct true, a false disjunction makes every disjunct false.
func c24implied(e ast.Expr, truth bool, out *[]c24fact) {
	e = core.Unparen(e)
	switch y := e.(type) {
	case *ast.UnaryExpr:
		if y.Op == token.NOT {
			c24implied(y.X, !truth, out)
			return
		}
	case *ast.BinaryExpr:
		switch y.Op {
		case token.LAND:
			if truth {
				c24implied(y.X, true, out)
				c24implied(y.Y, true, out)
			}
			return
		case token.LOR:
			if !truth {
				c24implied(y.X, false, out)
				c24implied(y.Y, false, out)
			}
			return
		}
	}
	*out = append(*out, c24fact{e, truth})
}

// c24atoms lists the atomic conditions of a boolean expression.
func c24atoms(e ast.Expr) []ast.Expr {
	e = core.Unparen(e)
	switch y := e.(type) {
	case *ast.UnaryExpr:
		if y.Op == token.NOT {
			return c24atoms(y.X)
		}
	case *ast.BinaryExpr:
		if y.Op == token.LAND || y.Op == token.LOR {
			return append(c24atoms(y.X), c24atoms(y.Y)...)
		}
	}
	return []ast.Expr{e}
}

// c24eval3 evaluates a boolean expression in three-valued logic, given what is known of its atoms.
func c24eval3(e ast.Expr, atom func(ast.Expr) (val, known bool)) (val, known bool) {
	e = core.Unparen(e)
	switch y := e.(type) {
	case *ast.UnaryExpr:
		if y.Op == token.NOT {
			v, k := c24eval3(y.X, atom)
			return !v, k
		}
	case *ast.BinaryExpr:
		switch y.Op {
		case token.LAND:
			a, ka := c24eval3(y.X, atom)
			b, kb := c24eval3(y.Y, atom)
			switch {
			case ka && !a, kb && !b:
				return false, true
			case ka && kb:
				return true, true
			}
			return false, false
		case token.LOR:
			a, ka := c24eval3(y.X, atom)
			b, kb := c24eval3(y.Y, atom)
			switch {
			case ka && a, kb && b:
				return true, true
			case ka && kb:
				return false, true
			}
			return false, false
		}
	}
	return atom(e)
}

// condBlocks lists the blocks of the region whose condition contains an atom satisfying pred.
func (r *c24region) condBlocks(pred func(atom ast.Expr) bool) []*cfg.Block {
	var out []*cfg.Block
	for _, b := range r.g.C.Blocks {
		if !b.Live || !r.in(b) {
			continue
		}
		if cond, ok := c24cond(r.g.F, b); ok {
			for _, a := range c24atoms(cond) {
				if pred(a) {
					out = append(out, b)
					break
				}
			}
		}
	}
	return out
}

// c24alternatives lists the cases in which "e evaluates to truth" can hold:
// each case is a conjunction of atomic facts (a small disjunctive normal form).
func c24alternatives(e ast.Expr, truth bool) [][]c24fact {
	e = core.Unparen(e)
	product := func(a, b [][]c24fact) [][]c24fact {
		var out [][]c24fact
		for _, x := range a {
			for _, y := range b {
				out = append(out, append(append([]c24fact{}, x...), y...))
			}
		}
		return out
	}
	switch y := e.(type) {
	case *ast.UnaryExpr:
		if y.Op == token.NOT {
			return c24alternatives(y.X, !truth)
		}
	case *ast.BinaryExpr:
		if y.Op == token.LAND || y.Op == token.LOR {
			a, b := c24alternatives(y.X, truth), c24alternatives(y.Y, truth)
			if len(a)*len(b) > 64 {
				return [][]c24fact{{}} // too large: nothing known
			}
			if (y.Op == token.LAND) == truth {
				return product(a, b)
			}
			return append(a, b...)
		}
	}
	return [][]c24fact{{{e, truth}}}
}

// edges builds an edge predicate from predicates on atomic facts: an edge
// qualifies when, in every case in which its condition can have the edge's
// truth value, some atomic fact (atom, truth) satisfying one of the predicates
// holds (`a != nil && b`: true edge has a != nil; `done || n == 0`: the true
// edge qualifies only if both `done` and `n == 0` qualify).
func c24edges(f *core.Func, preds ...func(atom ast.Expr, truth bool) bool) func(*cfg.Block, int) bool {
	return func(b *cfg.Block, si int) bool {
		cond, ok := c24cond(f, b)
		if !ok {
			return false
		}
		alts := c24alternatives(cond, si == 0)
		if len(alts) == 0 {
			return false
		}
		for _, alt := range alts {
			hit := false
			for _, ft := range alt {
				for _, pred := range preds {
					if pred(ft.atom, ft.truth) {
						hit = true
					}
				}
			}
			if !hit {
				return false
			}
		}
		return true
	}
}

func c24orEdges(fs ...func(*cfg.Block, int) bool) func(*cfg.Block, int) bool {
	return func(b *cfg.Block, si int) bool {
		for _, f := range fs {
			if f != nil && f(b, si) {
				return true
			}
		}
		return false
	}
}

// c24nilCmp recognises `E == nil`, `E != nil`, `nil == E`, `nil != E`.
func c24nilCmp(info *types.Info, atom ast.Expr) (e ast.Expr, eq bool, ok bool) {
	be, isB := core.Unparen(atom).(*ast.BinaryExpr)
	if !isB || (be.Op != token.EQL && be.Op != token.NEQ) {
		return nil, false, false
	}
	switch {
	case isNilIdent(info, be.Y):
		return core.Unparen(be.X), be.Op == token.EQL, true
	case isNilIdent(info, be.X):
		return core.Unparen(be.Y), be.Op == token.EQL, true
	}
	return nil, false, false
}

// nonNilEdges: the edges on which an expression satisfying match is known non-nil.
func c24nonNilEdges(f *core.Func, match func(ast.Expr) bool) func(*cfg.Block, int) bool {
	return c24edges(f, func(atom ast.Expr, truth bool) bool {
		e, eq, ok := c24nilCmp(f.Info(), atom)
		return ok && match(e) && truth != eq
	})
}

// nilEdges: the edges on which an expression satisfying match is known nil.
func c24nilEdges(f *core.Func, match func(ast.Expr) bool) func(*cfg.Block, int) bool {
	return c24edges(f, func(atom ast.Expr, truth bool) bool {
		e, eq, ok := c24nilCmp(f.Info(), atom)
		return ok && match(e) && truth == eq
	})
}

func c24isObj(info *types.Info, obj types.Object) func(ast.Expr) bool {
	return func(e ast.Expr) bool { return obj != nil && identObj(info, e) == obj }
}

// c24fieldOf matches `base.field` for the given base variable and field object.
func c24fieldOf(info *types.Info, base types.Object, field *types.Var) func(ast.Expr) bool {
	return func(e ast.Expr) bool {
		sel, ok := core.Unparen(e).(*ast.SelectorExpr)
		if !ok || field == nil || info.Uses[sel.Sel] != types.Object(field) {
			return false
		}
		return base == nil || identObj(info, sel.X) == base
	}
}

// c24def is one definition of a local variable.
type c24def struct {
	rhs   ast.Expr
	idx   int  // index of the variable on the left-hand side
	tuple bool // several left-hand sides, one right-hand side
	node  ast.Node
}

// c24defs lists the definitions of obj inside f (assignments and var specs; range variables are not listed).
func c24defs(f *core.Func, obj types.Object) []c24def {
	var out []c24def
	if obj == nil {
		return nil
	}
	ast.Inspect(f.Body, func(n ast.Node) bool {
		switch s := n.(type) {
		case *ast.AssignStmt:
			for i, l := range s.Lhs {
				if identObj(f.Info(), l) != obj {
					continue
				}
				switch {
				case len(s.Rhs) == len(s.Lhs):
					out = append(out, c24def{rhs: s.Rhs[i], idx: i, node: s})
				case len(s.Rhs) == 1:
					out = append(out, c24def{rhs: s.Rhs[0], idx: i, tuple: true, node: s})
				}
			}
		case *ast.ValueSpec:
			for i, nm := range s.Names {
				if f.Info().Defs[nm] != obj {
					continue
				}
				switch {
				case len(s.Values) == len(s.Names):
					out = append(out, c24def{rhs: s.Values[i], idx: i, node: s})
				case len(s.Values) == 1:
					out = append(out, c24def{rhs: s.Values[0], idx: i, tuple: true, node: s})
				default:
					out = append(out, c24def{rhs: nil, idx: i, node: s})
				}
			}
		}
		return true
	})
	return out
}

// c24soleDef returns the only definition of obj, if it has exactly one.
func c24soleDef(f *core.Func, obj types.Object) (c24def, bool) {
	ds := c24defs(f, obj)
	if len(ds) == 1 && ds[0].rhs != nil {
		return ds[0], true
	}
	return c24def{}, false
}

// c24evalInt evaluates an integer expression that is linear in one unknown
// length: lenCall says which call expressions denote that length.
func c24evalInt(f *core.Func, e ast.Expr, lenCall func(*ast.CallExpr) bool, n int64, depth int) (int64, bool) {
	e = core.Unparen(e)
	if v, ok := constInt(f.Info(), e); ok {
		return v, true
	}
	if depth > 4 {
		return 0, false
	}
	switch y := e.(type) {
	case *ast.CallExpr:
		if lenCall(y) {
			return n, true
		}
	case *ast.BinaryExpr:
		a, ok1 := c24evalInt(f, y.X, lenCall, n, depth+1)
		b, ok2 := c24evalInt(f, y.Y, lenCall, n, depth+1)
		if ok1 && ok2 {
			switch y.Op {
			case token.ADD:
				return a + b, true
			case token.SUB:
				return a - b, true
			}
		}
	case *ast.Ident:
		if d, ok := c24soleDef(f, identObj(f.Info(), y)); ok && !d.tuple {
			return c24evalInt(f, d.rhs, lenCall, n, depth+1)
		}
	}
	return 0, false
}

// c24evalCmp evaluates a comparison atom for a given value of the unknown length.
func c24evalCmp(f *core.Func, atom ast.Expr, lenCall func(*ast.CallExpr) bool, n int64) (val, ok bool) {
	be, isB := core.Unparen(atom).(*ast.BinaryExpr)
	if !isB {
		return false, false
	}
	mentions := false
	ast.Inspect(be, func(y ast.Node) bool {
		if call, isC := y.(*ast.CallExpr); isC && lenCall(call) {
			mentions = true
		}
		if id, isI := y.(*ast.Ident); isI {
			if d, okd := c24soleDef(f, identObj(f.Info(), id)); okd && !d.tuple && d.rhs != nil {
				ast.Inspect(d.rhs, func(z ast.Node) bool {
					if call, isC := z.(*ast.CallExpr); isC && lenCall(call) {
						mentions = true
					}
					return true
				})
			}
		}
		return true
	})
	if !mentions {
		return false, false
	}
	a, ok1 := c24evalInt(f, be.X, lenCall, n, 0)
	b, ok2 := c24evalInt(f, be.Y, lenCall, n, 0)
	if !ok1 || !ok2 {
		return false, false
	}
	switch be.Op {
	case token.LSS:
		return a < b, true
	case token.LEQ:
		return a <= b, true
	case token.GTR:
		return a > b, true
	case token.GEQ:
		return a >= b, true
	case token.EQL:
		return a == b, true
	case token.NEQ:
		return a != b, true
	}
	return false, false
}

// c24lenOf builds a lenCall predicate: len(X) (or X.Len()) where match(X).
func c24lenOf(f *core.Func, match func(ast.Expr) bool) func(*ast.CallExpr) bool {
	return func(call *ast.CallExpr) bool {
		id := f.CalleeID(call)
		if id == "builtin.len" && len(call.Args) == 1 {
			return match(core.Unparen(call.Args[0]))
		}
		if strings.HasSuffix(id, ").Len") && len(call.Args) == 0 {
			if r := core.RecvExpr(call); r != nil {
				return match(core.Unparen(r))
			}
		}
		return false
	}
}

// c24kind names the AST node kind of a (pointer to a) struct type of package ast that has a Pos method.
func c24kind(t types.Type) string {
	if t == nil {
		return ""
	}
	if p, ok := t.(*types.Pointer); ok {
		t = p.Elem()
	}
	n, ok := t.(*types.Named)
	if !ok || n.Obj().Pkg() == nil || core.Rel(n.Obj().Pkg().Path()) != c24PkgAst {
		return ""
	}
	if _, isS := n.Underlying().(*types.Struct); !isS {
		return ""
	}
	ms := types.NewMethodSet(types.NewPointer(n))
	if ms.Lookup(n.Obj().Pkg(), "Pos") == nil {
		return ""
	}
	return n.Obj().Name()
}

func c24isNodeIface(t types.Type) bool {
	n, ok := t.(*types.Named)
	return ok && n.Obj().Pkg() != nil && core.Rel(n.Obj().Pkg().Path()) == c24PkgAst && n.Obj().Name() == "Node"
}

func c24isNodeSlice(t types.Type) bool {
	s, ok := t.(*types.Slice)
	return ok && c24isNodeIface(s.Elem())
}

// c24clause is one case clause of a visitor's type switch over its node parameter.
type c24clause struct {
	f     *core.Func
	cc    *ast.CaseClause
	v     types.Object // the clause's variable (nil for multi-type clauses without one)
	kinds []string
	reg   *c24region
}

// nodeParam returns the first parameter of f whose type is ast.Node.
func c24nodeParam(f *core.Func) types.Object {
	for _, fl := range f.Type.Params.List {
		for _, nm := range fl.Names {
			if o := f.Info().Defs[nm]; o != nil && c24isNodeIface(o.Type()) {
				return o
			}
		}
	}
	return nil
}

// clauses lists the clauses of the type switches of f whose subject is f's node parameter.
func c24clauses(f *core.Func) []*c24clause {
	var out []*c24clause
	param := c24nodeParam(f)
	if param == nil {
		return nil
	}
	g := f.Graph()
	core.InspectNoLit(f.Body, func(n ast.Node) bool {
		ts, ok := n.(*ast.TypeSwitchStmt)
		if !ok {
			return true
		}
		var ta *ast.TypeAssertExpr
		switch a := ts.Assign.(type) {
		case *ast.AssignStmt:
			if len(a.Rhs) == 1 {
				ta, _ = core.Unparen(a.Rhs[0]).(*ast.TypeAssertExpr)
			}
		case *ast.ExprStmt:
			ta, _ = core.Unparen(a.X).(*ast.TypeAssertExpr)
		}
		if ta == nil || identObj(f.Info(), ta.X) != param {
			return true
		}
		for _, st := range ts.Body.List {
			cc := st.(*ast.CaseClause)
			cl := &c24clause{f: f, cc: cc, v: f.Info().Implicits[cc]}
			for _, e := range cc.List {
				if k := c24kind(f.Info().TypeOf(e)); k != "" {
					cl.kinds = append(cl.kinds, k)
				}
			}
			cl.reg = &c24region{g: g, lo: cc.Pos(), hi: cc.End()}
			for _, b := range g.C.Blocks {
				if b.Kind == cfg.KindSwitchCaseBody && b.Stmt == ast.Stmt(cc) {
					cl.reg.start = b
				}
			}
			out = append(out, cl)
		}
		return true
	})
	return out
}

// c24clauseOf finds the clause of f for a node kind.
func c24clauseOf(f *core.Func, kind string) *c24clause {
	for _, cl := range c24clauses(f) {
		for _, k := range cl.kinds {
			if k == kind && cl.reg.start != nil {
				return cl
			}
		}
	}
	return nil
}

// c24structField returns the field object `name` of ast struct kind.
func (x *c24x) astField(kind, name string) *types.Var {
	pkg := x.c.Prog.Pkgs[c24PkgAst]
	if pkg == nil {
		return nil
	}
	return c24fieldIn(pkg.Types, kind, name)
}

func c24fieldIn(pkg *types.Package, typ, name string) *types.Var {
	o := pkg.Scope().Lookup(typ)
	if o == nil {
		return nil
	}
	st, ok := o.Type().Underlying().(*types.Struct)
	if !ok {
		return nil
	}
	for i := 0; i < st.NumFields(); i++ {
		if st.Field(i).Name() == name {
			return st.Field(i)
		}
	}
	return nil
}

func (x *c24x) pkgField(pkgRel, typ, name string) *types.Var {
	pkg := x.c.Prog.Pkgs[pkgRel]
	if pkg == nil {
		return nil
	}
	return c24fieldIn(pkg.Types, typ, name)
}

// c24constName returns the name of the package-level constant e denotes ("" if none) and its package.
func c24constName(info *types.Info, e ast.Expr) (pkg, name string) {
	var id *ast.Ident
	switch y := core.Unparen(e).(type) {
	case *ast.Ident:
		id = y
	case *ast.SelectorExpr:
		id = y.Sel
	}
	if id == nil {
		return "", ""
	}
	if cn, ok := info.Uses[id].(*types.Const); ok && cn.Pkg() != nil {
		return core.Rel(cn.Pkg().Path()), cn.Name()
	}
	return "", ""
}

// c24callsIn finds the calls to one of ids inside the region, in source order.
func (r *c24region) calls(ids ...string) []core.Hit {
	var out []core.Hit
	for _, h := range r.g.CallsTo(ids...) {
		if r.contains(h.N) && !h.InDefer && !h.InGo {
			out = append(out, h)
		}
	}
	return out
}

// c24recvObj returns the receiver variable of a method declaration.
func c24recvObj(f *core.Func) types.Object {
	if f.Decl.Recv == nil || len(f.Decl.Recv.List) == 0 || len(f.Decl.Recv.List[0].Names) == 0 {
		return nil
	}
	return f.Info().Defs[f.Decl.Recv.List[0].Names[0]]
}

func c24join(tr []string) string { return strings.Join(tr, " > ") }

// ---------------------------------------------------------------------------
// R1: errors stop the pipeline

// c24listTest recognises an atomic test of an error list: len(L) > 0, len(L) != 0,
// 0 < len(L), len(L) == 0, L != nil, L == nil, ... and returns whether the atom
// being true means "the list is empty".
func c24listTest(f *core.Func, atom ast.Expr, isList func(ast.Expr) bool) (emptyWhenTrue bool, ok bool) {
	if e, eq, isN := c24nilCmp(f.Info(), atom); isN && isList(e) {
		return eq, true
	}
	lenCall := c24lenOf(f, isList)
	v0, ok0 := c24evalCmp(f, atom, lenCall, 0)
	v1, ok1 := c24evalCmp(f, atom, lenCall, 1)
	v2, ok2 := c24evalCmp(f, atom, lenCall, 2)
	if !ok0 || !ok1 || !ok2 || v1 != v2 || v0 == v1 {
		return false, false
	}
	return v0, true
}

func (x *c24x) r1() {
	c := x.c
	c.Rule("C24-R1", "ERRORS-STOP: (a) each stage (Parse, Optimise, Check, CodeGen) reaches a `return …, nil` only over the edge on which the error list its visitor appends to was tested empty; (b) in Compile no path from a stage call reaches another stage call (or a return that drops the error) unless the stage's error variable was found nil on the way; (c) in CompileAndRun no path from the Compile call reaches vm.New, a store into the handle map or a go statement unless Compile's error was found nil; (d) no other function of package runtime stores into the handle map or calls vm.New")

	// (a) stage shape
	stages := []struct{ key, what string }{
		{c24PkgParser + ".Parse", "parser"},
		{c24PkgOpt + ".Optimise", "optimiser"},
		{c24Check, "checker"},
		{c24PkgCodegen + ".CodeGen", "code generator"},
	}
	for _, st := range stages {
		f := c.MustFn("C24-R1", st.key)
		if f == nil {
			continue
		}
		x.stageShape(f, st.what)
	}

	// (b) Compile
	var stageFns = map[string]bool{}
	for _, st := range stages {
		stageFns[st.key] = true
	}
	if f := c.MustFn("C24-R1", c24Compile); f != nil {
		g := f.Graph()
		type sc struct {
			h   core.Hit
			err types.Object
			id  string
		}
		var calls []sc
		for _, h := range g.Calls(func(id string, _ *ast.CallExpr) bool { return stageFns[id] }) {
			call := h.N.(*ast.CallExpr)
			var errObj types.Object
			if as, ok := h.P.Node().(*ast.AssignStmt); ok && len(as.Rhs) == 1 && core.Unparen(as.Rhs[0]) == ast.Expr(call) && len(as.Lhs) == 2 {
				errObj = identObj(f.Info(), as.Lhs[1])
			}
			calls = append(calls, sc{h, errObj, f.CalleeID(call)})
		}
		ord := map[string]int{}
		for _, s := range calls {
			ord[s.id]++
			key := fmt.Sprintf("%s|after %s#%d", c24Compile, strings.TrimPrefix(s.id, "internal/runtime/compiler/"), ord[s.id])
			if s.err == nil {
				c.Fail("C24-R1", key, pos(c, s.h.N), "the error result of this compiler stage is not kept in a variable: a program the stage rejected goes on to the next stage and can be loaded")
				continue
			}
			nilEdge := c24nilEdges(f, c24isObj(f.Info(), s.err))
			// goals: any other stage call, or a return that does not hand the error variable back
			var goals []core.Point
			for _, o := range calls {
				if o.h.P != s.h.P {
					goals = append(goals, o.h.P)
				}
			}
			for _, e := range normalExits(g) {
				if e.Kind == "return" && len(e.Ret.Results) > 0 {
					last := e.Ret.Results[len(e.Ret.Results)-1]
					if identObj(f.Info(), last) != s.err {
						goals = append(goals, e.P)
					}
				} else if e.Kind != "return" || len(e.Ret.Results) == 0 {
					// bare return: fine only if the error variable is the named result
					if !c24isNamedResult(f, s.err) {
						goals = append(goals, e.P)
					}
				}
			}
			from := s.h.P
			// a later assignment to the error variable ends the obligation of this call (that is the next stage, a goal)
			tr, found := g.Search(core.Query{From: &from, Goal: core.At(goals...), AvoidEdge: nilEdge})
			c.Verdict(!found, "C24-R1", key, pos(c, s.h.N), "every way on from this stage passes the error-is-nil edge or returns the error",
				"after this stage reported errors the compilation continues: a later stage runs (or a nil error is returned) on a path where the stage's error was never found nil, so a rejected program is compiled and loaded", g.Trail(tr)...)
		}
		if len(calls) < 4 {
			c.Undecided("C24-R1", c24Compile+"|stages", pos(c, f.Decl), fmt.Sprintf("only %d stage calls found in Compile (parser, optimiser, checker, code generator expected)", len(calls)))
		}
	}

	// (c) CompileAndRun
	if f := c.MustFn("C24-R1", compileAndRun); f != nil {
		g := f.Graph()
		hits := g.CallsTo(c24Compile)
		if len(hits) != 1 {
			c.Undecided("C24-R1", compileAndRun+"|Compile call", pos(c, f.Decl), fmt.Sprintf("%d calls of Compiler.Compile found, 1 expected", len(hits)))
		} else {
			h := hits[0]
			var errObj types.Object
			if as, ok := h.P.Node().(*ast.AssignStmt); ok && len(as.Lhs) == 2 {
				errObj = identObj(f.Info(), as.Lhs[1])
			}
			key := compileAndRun + "|after Compile"
			if errObj == nil {
				c.Fail("C24-R1", key, pos(c, h.N), "the error result of Compile is discarded: a rejected program is loaded")
			} else {
				var goals []core.Point
				goals = append(goals, core.HitPoints(g.CallsTo(c24VMNew))...)
				goals = append(goals, core.HitPoints(c24handleStores(g))...)
				goals = append(goals, core.HitPoints(g.Find(func(n ast.Node) bool { _, ok := n.(*ast.GoStmt); return ok }))...)
				for _, e := range normalExits(g) {
					if e.Kind == "return" && returnsNil(f.Info(), e.Ret) {
						goals = append(goals, e.P)
					}
				}
				from := h.P
				tr, found := g.Search(core.Query{From: &from, Goal: core.At(goals...), AvoidEdge: c24nilEdges(f, c24isObj(f.Info(), errObj))})
				c.Verdict(!found, "C24-R1", key, pos(c, h.N), "VM construction, handle swap and the nil return are reachable only over the errors-are-nil edge",
					"a program for which Compile returned errors can still get a VM, be installed in the handle map, or be reported as loaded (nil error): an invalid program is loaded", g.Trail(tr)...)
			}
		}
	}

	// (d) who installs a VM
	n := 0
	for _, sf := range x.funcsOf("internal/runtime") {
		g := sf.Graph()
		for _, h := range c24handleStores(g) {
			n++
			c.Verdict(sf.Key == compileAndRun, "C24-R1", sf.Key+"|handle store", pos(c, h.N), "the only installer", "a VM handle is installed outside CompileAndRun: a program can start running without having passed the compiler's error test")
		}
		for _, h := range g.CallsTo(c24VMNew) {
			n++
			c.Verdict(sf.Key == compileAndRun, "C24-R1", sf.Key+"|vm.New", pos(c, h.N), "the only VM constructor call", "a VM is constructed outside CompileAndRun")
		}
	}
	c.Extra["c24_vm_install_sites"] = n
	c.Floor("C24-R1", 12)
}

func c24isNamedResult(f *core.Func, obj types.Object) bool {
	if f.Type.Results == nil || obj == nil {
		return false
	}
	for _, fl := range f.Type.Results.List {
		for _, nm := range fl.Names {
			if f.Info().Defs[nm] == obj {
				return true
			}
		}
	}
	return false
}

// c24handleStores finds assignments m[k] = v where m is a map to *vmHandle.
func c24handleStores(g *core.Graph) []core.Hit {
	info := g.F.Info()
	return g.Find(func(n ast.Node) bool {
		as, ok := n.(*ast.AssignStmt)
		if !ok {
			return false
		}
		for _, l := range as.Lhs {
			ix, ok := core.Unparen(l).(*ast.IndexExpr)
			if !ok {
				continue
			}
			if m, ok := info.TypeOf(ix.X).Underlying().(*types.Map); ok && strings.HasSuffix(m.Elem().String(), "runtime.vmHandle") {
				return true
			}
		}
		return false
	})
}

// stageShape decides rule R1(a) for one stage function.
func (x *c24x) stageShape(f *core.Func, what string) {
	c := x.c
	g := f.Graph()
	pkgRel := core.Rel(f.Pkg.PkgPath)
	// the error-list fields that Add calls of this package append to
	listFields := map[types.Object]bool{}
	alias := map[types.Object]bool{} // pointer fields initialised with &x.<list field>
	for _, sf := range x.funcsOf(pkgRel) {
		core.InspectNoLit(sf.Body, func(n ast.Node) bool {
			call, ok := n.(*ast.CallExpr)
			if !ok || sf.CalleeID(call) != c24Add {
				return true
			}
			if o := usedObj(sf.Info(), core.RecvExpr(call)); o != nil {
				if _, isPtr := o.Type().Underlying().(*types.Pointer); isPtr {
					alias[o] = true
				} else {
					listFields[o] = true
				}
			}
			return true
		})
	}
	// resolve aliases: every composite-literal initialisation must be &<expr>.<list field>
	for a := range alias {
		okAll, seen := true, false
		for _, sf := range x.funcsOf(pkgRel) {
			ast.Inspect(sf.Body, func(n ast.Node) bool {
				kv, ok := n.(*ast.KeyValueExpr)
				if !ok {
					return true
				}
				if id, isI := kv.Key.(*ast.Ident); !isI || sf.Info().Uses[id] != a {
					return true
				}
				seen = true
				u, isU := core.Unparen(kv.Value).(*ast.UnaryExpr)
				if !isU || u.Op != token.AND || !listFields[usedObj(sf.Info(), u.X)] {
					okAll = false
				}
				return true
			})
		}
		if !okAll || !seen {
			c.Undecided("C24-R1", f.Key+"|alias "+a.Name(), pos(c, f.Decl), "errors are appended through a pointer that is not visibly initialised with the address of the stage's error list")
		}
	}
	if len(listFields) != 1 {
		c.Undecided("C24-R1", f.Key+"|error list", pos(c, f.Decl), fmt.Sprintf("%d distinct error lists are appended to in package %s; exactly one expected", len(listFields), pkgRel))
		return
	}
	isList := func(e ast.Expr) bool { return listFields[usedObj(f.Info(), e)] }
	emptyEdge := c24edges(f, func(atom ast.Expr, truth bool) bool {
		ewt, ok := c24listTest(f, atom, isList)
		return ok && truth == ewt
	})
	var nilRets, other []core.Exit
	for _, e := range normalExits(g) {
		switch {
		case e.Kind == "return" && len(e.Ret.Results) > 0 && isNilIdent(f.Info(), e.Ret.Results[len(e.Ret.Results)-1]):
			nilRets = append(nilRets, e)
		case e.Kind == "return" && len(e.Ret.Results) > 0 && isList(e.Ret.Results[len(e.Ret.Results)-1]):
			// returns the list itself: a non-nil error
		default:
			other = append(other, e)
		}
	}
	for _, e := range other {
		c.Undecided("C24-R1", f.Key+"|"+e.String(), ppos(c, e.P, f), "this exit of the stage returns neither the literal nil nor the stage's error list as its error")
	}
	if len(nilRets) == 0 {
		c.Undecided("C24-R1", f.Key+"|success exit", pos(c, f.Decl), "the stage has no `return …, nil` exit")
		return
	}
	for _, e := range nilRets {
		tr, found := g.Search(core.Query{Goal: core.At(e.P), AvoidEdge: emptyEdge})
		c.Verdict(!found, "C24-R1", f.Key+"|"+e.String()+" only when no errors", ppos(c, e.P, f), "the nil-error return is reachable only over the error-list-is-empty edge",
			"the "+what+" can return a nil error without having tested its error list empty: errors it recorded are dropped, the pipeline continues and the invalid program is loaded", g.Trail(tr)...)
	}
}

// ---------------------------------------------------------------------------
// R3: traversal completeness

// c24walkedFields returns, for the clause of function f handling node kind
// `kind`, the Node / []Node fields whose value is passed to Walk (or to a
// helper that walks a list) with the visitor `vis` (nil: any visitor), mapped
// to the call.
func (x *c24x) walkedFields(cl *c24clause, kind string, vis types.Object) map[string]*ast.CallExpr {
	out := map[string]*ast.CallExpr{}
	if cl == nil || cl.v == nil {
		return out
	}
	f := cl.f
	ast.Inspect(cl.cc, func(n ast.Node) bool {
		call, ok := n.(*ast.CallExpr)
		if !ok || len(call.Args) != 2 {
			return true
		}
		if !x.isWalk(f, call) {
			return true
		}
		if vis != nil && identObj(f.Info(), call.Args[0]) != vis {
			return true
		}
		sel, ok := core.Unparen(call.Args[1]).(*ast.SelectorExpr)
		if !ok || identObj(f.Info(), sel.X) != cl.v {
			return true
		}
		if fo, isV := f.Info().Uses[sel.Sel].(*types.Var); isV && fo.IsField() {
			out[fo.Name()] = call
		}
		return true
	})
	return out
}

// c24onlyNilGuards reports whether every if statement of the clause that
// encloses n merely tests the walked field itself against nil.
func c24onlyNilGuards(cl *c24clause, n ast.Node, field string) bool {
	f := cl.f
	for _, ic := range f.EnclosingIfs(n.Pos()) {
		if !(cl.cc.Pos() <= ic.If.Pos() && ic.If.End() <= cl.cc.End()) {
			continue
		}
		e, eq, ok := c24nilCmp(f.Info(), ic.If.Cond)
		if !ok {
			return false
		}
		sel, isS := e.(*ast.SelectorExpr)
		if !isS || sel.Sel.Name != field || identObj(f.Info(), sel.X) != cl.v {
			return false
		}
		if ic.InThen == eq { // walked only when the field IS nil
			return false
		}
	}
	return true
}

func (x *c24x) r3() {
	c := x.c
	c.Rule("C24-R3", "TRAVERSAL: (a) for every node kind, every field of type Node or []Node is passed to Walk in the kind's clause of ast.Walk (guarded at most by a nil test of that field), or is walked by hand with the checker itself as visitor in the checker's clause for that kind on every path that does not prune, or is the defining name of a PatternFragment which the checker reads in its own clause; (b) ast.Walk calls VisitAfter on every path except the one on which VisitBefore returned a nil visitor; (c) checker.VisitBefore returns a nil visitor (pruning the sub-tree from all checks) only after recording an error on that path, or on the edge of an error latch that is set only together with an error; the same holds for every early exit of checker.VisitAfter taken before its type switch")
	wf := c.MustFn("C24-R3", c24Walk)
	vb := c.MustFn("C24-R3", c24VB)
	va := c.MustFn("C24-R3", c24VA)
	pkg := c.Prog.Pkgs[c24PkgAst]
	if wf == nil || vb == nil || va == nil || pkg == nil {
		return
	}
	// (a)
	var kinds []string
	sc := pkg.Types.Scope()
	for _, name := range sc.Names() {
		if tn, ok := sc.Lookup(name).(*types.TypeName); ok && c24kind(tn.Type()) != "" {
			kinds = append(kinds, name)
		}
	}
	walkParamVis := func(f *core.Func) types.Object { return c24recvObj(f) }
	nfields := 0
	for _, k := range kinds {
		st := sc.Lookup(k).Type().Underlying().(*types.Struct)
		wcl := c24clauseOf(wf, k)
		if wcl == nil {
			c.Note("C24-R3", "kind "+k+"|no Walk clause", "-", "ast.Walk has no clause for *ast."+k+" (walking it panics: the program is not accepted); whether such a node can reach a walk is decided by C01-R6")
			continue
		}
		walked := x.walkedFields(wcl, k, nil)
		for i := 0; i < st.NumFields(); i++ {
			fl := st.Field(i)
			if !c24isNodeIface(fl.Type()) && !c24isNodeSlice(fl.Type()) {
				continue
			}
			nfields++
			key := "kind " + k + "|field " + fl.Name()
			if call, ok := walked[fl.Name()]; ok {
				if c24onlyNilGuards(wcl, call, fl.Name()) {
					c.Ok("C24-R3", key, pos(c, call), "walked by ast.Walk")
				} else {
					c.Fail("C24-R3", key, pos(c, call), "ast.Walk descends into "+k+"."+fl.Name()+" only under a condition other than the field being non-nil: in the other case that sub-tree is never checked, and an undeclared name, bad regex or zero divisor inside it is accepted")
				}
				continue
			}
			// walked by hand by the checker?
			byHand := false
			for _, vf := range []*core.Func{vb, va} {
				cl := c24clauseOf(vf, k)
				if cl == nil {
					continue
				}
				hw := x.walkedFields(cl, k, walkParamVis(vf))
				call, ok := hw[fl.Name()]
				if !ok {
					continue
				}
				byHand = true
				// on every non-pruning path through the clause
				callPt, okp := cl.reg.g.PointOf(call)
				if !okp {
					c.Undecided("C24-R3", key, pos(c, call), "hand-written walk not found in the CFG")
					continue
				}
				goal := func(p core.Point) bool {
					if !cl.reg.exit(p) {
						return false
					}
					if r, isR := p.Node().(*ast.ReturnStmt); isR && vf == vb && len(r.Results) == 2 && isNilIdent(vf.Info(), r.Results[0]) {
						return false // pruning exits are judged by (c)
					}
					return true
				}
				tr, found := cl.reg.path(nil, core.At(callPt), nil, goal)
				c.Verdict(!found, "C24-R3", key, pos(c, call), "walked by hand by the checker on every path through its clause",
					"the checker can leave its clause for *ast."+k+" without walking "+fl.Name()+": Walk treats the kind as a leaf, so nothing inside that operand is resolved or checked (an undeclared metric or undefined capture group inside `del …` is accepted)", tr...)
			}
			if byHand {
				continue
			}
			if k == "PatternFragment" && fl.Name() == "ID" {
				read := false
				if cl := c24clauseOf(vb, k); cl != nil {
					ast.Inspect(cl.cc, func(n ast.Node) bool {
						if sel, ok := n.(*ast.SelectorExpr); ok && vb.Info().Uses[sel.Sel] == types.Object(fl) && identObj(vb.Info(), sel.X) == cl.v {
							read = true
						}
						return true
					})
				}
				c.Verdict(read, "C24-R3", key, "-", "a defining occurrence: read by the checker's PatternFragment clause, not walked as a use", "the name of a pattern constant is neither walked nor read by the checker: the constant is never declared")
				continue
			}
			c.Fail("C24-R3", key, "-", "neither ast.Walk nor the checker descends into "+k+"."+fl.Name()+": identifiers, capture references, patterns and divisions inside that operand are never resolved or checked, so the invalid program is accepted")
		}
	}
	c.Extra["c24_node_fields"] = nfields

	// (b) Walk calls VisitAfter unless pruned
	{
		g := wf.Graph()
		var visObj types.Object // the visitor variable reassigned from VisitBefore
		after := g.Calls(func(id string, call *ast.CallExpr) bool { return strings.HasSuffix(id, ".VisitAfter") })
		before := g.Calls(func(id string, call *ast.CallExpr) bool { return strings.HasSuffix(id, ".VisitBefore") })
		if len(before) == 1 {
			if as, ok := before[0].P.Node().(*ast.AssignStmt); ok && len(as.Lhs) == 2 {
				visObj = identObj(wf.Info(), as.Lhs[0])
			}
		}
		if visObj == nil || len(after) == 0 {
			c.Undecided("C24-R3", c24Walk+"|protocol", pos(c, wf.Decl), "the VisitBefore/VisitAfter protocol was not recognised in ast.Walk")
		} else {
			reg := c24whole(wf)
			tr, found := reg.path(nil, core.At(core.HitPoints(after)...), c24nilEdges(wf, c24isObj(wf.Info(), visObj)), nil)
			c.Verdict(!found, "C24-R3", c24Walk+"|VisitAfter on every unpruned path", pos(c, after[0].N), "only the nil-visitor edge skips VisitAfter",
				"ast.Walk can return without calling VisitAfter although the visitor did not prune: the checks made after the children (index arity, regex, zero divisor, unused symbols, `next`) are skipped for that node", tr...)
			// children are walked with the visitor returned by VisitBefore, after it
			from := before[0].P
			_ = from
		}
	}

	// (c) no silent pruning
	x.noSilentPrune(vb, va)
	c.Floor("C24-R3", 20)
}

// c24latches finds the bool fields of the receiver's struct that are only ever
// assigned the constant true, each time after an error was recorded on every
// path of the assigning function: testing such a field true implies that an
// error is already on record.
func (x *c24x) latches(pkgRel string) map[types.Object]bool {
	type asg struct {
		f  *core.Func
		as *ast.AssignStmt
		ok bool
	}
	sites := map[types.Object][]asg{}
	for _, sf := range x.funcsOf(pkgRel) {
		core.InspectNoLit(sf.Body, func(n ast.Node) bool {
			as, ok := n.(*ast.AssignStmt)
			if !ok || len(as.Lhs) != len(as.Rhs) {
				return true
			}
			for i, l := range as.Lhs {
				sel, isS := core.Unparen(l).(*ast.SelectorExpr)
				if !isS {
					continue
				}
				fo, isV := sf.Info().Uses[sel.Sel].(*types.Var)
				if !isV || !fo.IsField() || !c24isBool(fo.Type()) {
					continue
				}
				v, isC := constBool(sf.Info(), as.Rhs[i])
				good := isC && v
				if good {
					g := sf.Graph()
					if pt, okp := g.PointOf(as); okp {
						if _, found := g.Search(core.Query{Goal: core.At(pt), Avoid: x.isAdd(g)}); found {
							good = false
						}
					} else {
						good = false
					}
				}
				sites[fo] = append(sites[fo], asg{sf, as, good})
			}
			return true
		})
	}
	out := map[types.Object]bool{}
	for fo, ss := range sites {
		all := true
		for _, s := range ss {
			all = all && s.ok
		}
		if all {
			out[fo] = true
		}
	}
	return out
}

func (x *c24x) noSilentPrune(vb, va *core.Func) {
	c := x.c
	lat := x.lat
	var names []string
	for o := range lat {
		names = append(names, o.Name())
	}
	sort.Strings(names)
	c.Extra["c24_error_latches"] = names
	latchEdge := x.errEdge
	// VisitBefore: returns with a nil visitor
	g := vb.Graph()
	n := 0
	for _, e := range normalExits(g) {
		if e.Kind != "return" || len(e.Ret.Results) != 2 {
			if e.Kind != "return" || len(e.Ret.Results) == 0 {
				c.Undecided("C24-R3", c24VB+"|"+e.String(), ppos(c, e.P, vb), "VisitBefore exit without explicit results")
			} else if _, found := g.Search(core.Query{Goal: core.At(e.P), Avoid: x.isAdd(g), AvoidEdge: latchEdge(vb)}); found {
				// results come from a helper call: it may prune; fine if an error is on record by then
				c.Undecided("C24-R3", c24VB+"|"+e.String(), ppos(c, e.P, vb), "the results of this exit come from a call that does not always record an error: whether it prunes the sub-tree silently was not determined")
			}
			continue
		}
		if !isNilIdent(vb.Info(), e.Ret.Results[0]) {
			continue
		}
		n++
		tr, found := g.Search(core.Query{Goal: core.At(e.P), Avoid: x.isAdd(g), AvoidEdge: latchEdge(vb)})
		c.Verdict(!found, "C24-R3", fmt.Sprintf("%s|prune %s", c24VB, e.String()), ppos(c, e.P, vb), "pruned only after an error was recorded",
			"the checker's before-visit can prune a sub-tree (return a nil visitor: no child is resolved or checked, VisitAfter is skipped) on a path that recorded no error: everything invalid inside that sub-tree is silently accepted", g.Trail(tr)...)
	}
	c.Extra["c24_prune_exits"] = n
	// VisitAfter: exits before the type switch
	ga := va.Graph()
	var first token.Pos = token.NoPos
	for _, cl := range c24clauses(va) {
		if first == token.NoPos || cl.cc.Pos() < first {
			first = cl.cc.Pos()
		}
	}
	for _, e := range normalExits(ga) {
		if e.Kind != "return" || first == token.NoPos || e.Ret.Pos() > first {
			continue
		}
		// an exit that lexically precedes the switch skips every after-check
		var swStart token.Pos
		core.InspectNoLit(va.Body, func(nn ast.Node) bool {
			if ts, ok := nn.(*ast.TypeSwitchStmt); ok && swStart == token.NoPos {
				swStart = ts.Pos()
			}
			return true
		})
		if e.Ret.Pos() > swStart {
			continue
		}
		tr, found := ga.Search(core.Query{Goal: core.At(e.P), Avoid: x.isAdd(ga), AvoidEdge: latchEdge(va)})
		c.Verdict(!found, "C24-R3", fmt.Sprintf("%s|early %s", c24VA, e.String()), ppos(c, e.P, va), "all after-checks are skipped only when an error is already on record",
			"the checker's after-visit can return before its type switch on a path with no error on record: index arity, regex, zero-divisor, `next` and unused-symbol checks are all skipped and the invalid program is accepted", ga.Trail(tr)...)
	}
}

// ---------------------------------------------------------------------------
// R2: every reject edge is positioned — the node-kind model

// c24model is an abstract description of the trees the checker can see:
// which node kinds every Node-typed field can hold.
type c24model struct {
	x       *c24x
	structs map[string]*types.Struct
	nt      map[string]map[string]bool // grammar nonterminal -> kinds it can yield
	fields  map[string]map[string]bool // "Kind.Field" -> kinds ("?" = unknown)
	replace map[string]map[string]bool // kind -> kinds a visitor may put in its place ("*" = any kind)
	all     map[string]bool            // kinds constructed anywhere
	unknown []string                   // constructs outside the recognised family
	changed bool
	prods   []*c24prod
	isNT    map[string]bool
	nilable map[string]bool
}

type c24prod struct {
	lhs    string
	rhs    []string
	action string
	line   int
	body   *ast.BlockStmt
}

func (m *c24model) add(set map[string]map[string]bool, key string, kinds map[string]bool) {
	if set[key] == nil {
		set[key] = map[string]bool{}
	}
	for k := range kinds {
		if !set[key][k] {
			set[key][k] = true
			m.changed = true
		}
	}
}

func (m *c24model) note(s string) {
	for _, u := range m.unknown {
		if u == s {
			return
		}
	}
	m.unknown = append(m.unknown, s)
}

// c24parseYacc splits the rules section of a yacc grammar into productions.
func c24parseYacc(src string) ([]*c24prod, error) {
	i := strings.Index(src, "\n%%")
	if i < 0 {
		return nil, fmt.Errorf("no %%%% in grammar")
	}
	rest := src[i+3:]
	base := strings.Count(src[:i+3], "\n") + 1
	j := strings.Index(rest, "\n%%")
	if j >= 0 {
		rest = rest[:j]
	}
	type tok struct {
		kind string // id, ':', '|', ';', act, chr
		text string
		line int
	}
	var toks []tok
	line := base
	for p := 0; p < len(rest); {
		ch := rest[p]
		switch {
		case ch == '\n':
			line++
			p++
		case ch == ' ' || ch == '\t' || ch == '\r':
			p++
		case strings.HasPrefix(rest[p:], "/*"):
			e := strings.Index(rest[p+2:], "*/")
			if e < 0 {
				return nil, fmt.Errorf("unterminated comment at line %d", line)
			}
			line += strings.Count(rest[p:p+2+e+2], "\n")
			p += 2 + e + 2
		case strings.HasPrefix(rest[p:], "//"):
			e := strings.Index(rest[p:], "\n")
			if e < 0 {
				p = len(rest)
			} else {
				p += e
			}
		case ch == '{':
			depth, q, l0 := 0, p, line
			for q < len(rest) {
				c := rest[q]
				switch {
				case c == '\n':
					line++
				case c == '"' || c == '`' || c == '\'':
					q++
					for q < len(rest) && rest[q] != c {
						if rest[q] == '\\' && c != '`' {
							q++
						}
						if q < len(rest) && rest[q] == '\n' {
							line++
						}
						q++
					}
				case strings.HasPrefix(rest[q:], "//"):
					for q < len(rest) && rest[q] != '\n' {
						q++
					}
					continue
				case strings.HasPrefix(rest[q:], "/*"):
					e := strings.Index(rest[q+2:], "*/")
					if e < 0 {
						return nil, fmt.Errorf("unterminated comment in action at line %d", line)
					}
					line += strings.Count(rest[q:q+2+e+2], "\n")
					q += 2 + e + 2
					continue
				case c == '{':
					depth++
				case c == '}':
					depth--
				}
				q++
				if depth == 0 {
					break
				}
			}
			if depth != 0 {
				return nil, fmt.Errorf("unbalanced action at line %d", l0)
			}
			toks = append(toks, tok{"act", rest[p:q], l0})
			p = q
		case ch == '\'':
			q := p + 1
			for q < len(rest) && rest[q] != '\'' {
				if rest[q] == '\\' {
					q++
				}
				q++
			}
			toks = append(toks, tok{"id", rest[p : q+1], line})
			p = q + 1
		case ch == ':' || ch == '|' || ch == ';':
			toks = append(toks, tok{string(ch), string(ch), line})
			p++
		case ch == '_' || ch == '$' || (ch >= 'a' && ch <= 'z') || (ch >= 'A' && ch <= 'Z'):
			q := p
			for q < len(rest) && (rest[q] == '_' || rest[q] == '$' || rest[q] == '.' || (rest[q] >= 'a' && rest[q] <= 'z') || (rest[q] >= 'A' && rest[q] <= 'Z') || (rest[q] >= '0' && rest[q] <= '9')) {
				q++
			}
			toks = append(toks, tok{"id", rest[p:q], line})
			p = q
		case ch == '%':
			// %prec etc.: skip the directive word and its operand
			q := p + 1
			for q < len(rest) && rest[q] != ' ' && rest[q] != '\n' {
				q++
			}
			toks = append(toks, tok{"dir", rest[p:q], line})
			p = q
		default:
			return nil, fmt.Errorf("unexpected %q at line %d of the grammar", ch, line)
		}
	}
	var prods []*c24prod
	var cur *c24prod
	lhs := ""
	flush := func() {
		if cur != nil {
			prods = append(prods, cur)
			cur = nil
		}
	}
	for k := 0; k < len(toks); k++ {
		t := toks[k]
		switch t.kind {
		case "id":
			if k+1 < len(toks) && toks[k+1].kind == ":" {
				flush()
				lhs = t.text
				cur = &c24prod{lhs: lhs, line: t.line}
				k++
				continue
			}
			if cur == nil {
				return nil, fmt.Errorf("symbol %s outside a rule at line %d", t.text, t.line)
			}
			if cur.action != "" {
				return nil, fmt.Errorf("mid-rule action in rule %s at line %d: not modelled", lhs, t.line)
			}
			cur.rhs = append(cur.rhs, t.text)
		case "|":
			flush()
			cur = &c24prod{lhs: lhs, line: t.line}
		case ";":
			flush()
		case "act":
			if cur == nil {
				return nil, fmt.Errorf("action outside a rule at line %d", t.line)
			}
			if cur.action != "" {
				return nil, fmt.Errorf("two actions in one alternative of %s at line %d", lhs, t.line)
			}
			cur.action = t.text
		case "dir":
			if t.text == "%prec" {
				k++ // operand
				continue
			}
			return nil, fmt.Errorf("directive %s inside the rules at line %d: not modelled", t.text, t.line)
		}
	}
	flush()
	return prods, nil
}

// c24actionBody parses the Go text of a grammar action ($$ -> yyS, $n -> yyDn).
func c24actionBody(action string) (*ast.BlockStmt, error) {
	var sb strings.Builder
	for i := 0; i < len(action); i++ {
		if action[i] == '$' && i+1 < len(action) {
			if action[i+1] == '$' {
				sb.WriteString("yyS")
				i++
				continue
			}
			if action[i+1] >= '0' && action[i+1] <= '9' {
				j := i + 1
				for j < len(action) && action[j] >= '0' && action[j] <= '9' {
					j++
				}
				sb.WriteString("yyD" + action[i+1:j])
				i = j - 1
				continue
			}
		}
		sb.WriteByte(action[i])
	}
	src := "package p\nfunc _() " + sb.String() + "\n"
	file, err := parser.ParseFile(token.NewFileSet(), "action.go", src, 0)
	if err != nil {
		return nil, err
	}
	return file.Decls[0].(*ast.FuncDecl).Body, nil
}

// c24astLitKind recognises &ast.T{…} / ast.T{…} in grammar action text.
func c24astLitKind(e ast.Expr) (*ast.CompositeLit, string) {
	if u, ok := e.(*ast.UnaryExpr); ok && u.Op == token.AND {
		e = u.X
	}
	cl, ok := e.(*ast.CompositeLit)
	if !ok {
		return nil, ""
	}
	if sel, ok := cl.Type.(*ast.SelectorExpr); ok {
		if id, ok := sel.X.(*ast.Ident); ok && id.Name == "ast" {
			return cl, sel.Sel.Name
		}
	}
	return cl, ""
}

func (m *c24model) nodeField(kind, field string) (isNode, isList bool) {
	st := m.structs[kind]
	if st == nil {
		return false, false
	}
	for i := 0; i < st.NumFields(); i++ {
		if st.Field(i).Name() == field {
			return c24isNodeIface(st.Field(i).Type()), c24isNodeSlice(st.Field(i).Type())
		}
	}
	return false, false
}

// gramKinds evaluates an expression of a grammar action to the node kinds it can denote.
func (m *c24model) gramKinds(e ast.Expr, p *c24prod, locals map[string]ast.Expr, depth int) map[string]bool {
	out := map[string]bool{}
	if depth > 6 {
		out["?"] = true
		return out
	}
	switch y := e.(type) {
	case *ast.ParenExpr:
		return m.gramKinds(y.X, p, locals, depth+1)
	case *ast.Ident:
		switch {
		case y.Name == "nil":
			return out
		case y.Name == "yyS":
			for k := range m.nt[p.lhs] {
				out[k] = true
			}
			return out
		case strings.HasPrefix(y.Name, "yyD"):
			var n int
			fmt.Sscan(y.Name[3:], &n)
			if n >= 1 && n <= len(p.rhs) && m.isNT[p.rhs[n-1]] {
				for k := range m.nt[p.rhs[n-1]] {
					out[k] = true
				}
				return out
			}
			m.note(fmt.Sprintf("parser.y:%d: $%d of rule %s is not a node-valued nonterminal", p.line, n, p.lhs))
			out["?"] = true
			return out
		default:
			if d, ok := locals[y.Name]; ok {
				return m.gramKinds(d, p, locals, depth+1)
			}
		}
	case *ast.TypeAssertExpr:
		if st, ok := y.Type.(*ast.StarExpr); ok {
			if sel, ok := st.X.(*ast.SelectorExpr); ok {
				out[sel.Sel.Name] = true
				return out
			}
		}
	case *ast.UnaryExpr, *ast.CompositeLit:
		if cl, kind := c24astLitKind(e); cl != nil && kind != "" && m.structs[kind] != nil {
			m.gramLit(cl, kind, p, locals, depth)
			out[kind] = true
			return out
		}
	}
	m.note(fmt.Sprintf("parser.y:%d: expression in the action of rule %s outside the recognised family", p.line, p.lhs))
	out["?"] = true
	return out
}

// gramLit records the Node fields set by a composite literal in a grammar action.
func (m *c24model) gramLit(cl *ast.CompositeLit, kind string, p *c24prod, locals map[string]ast.Expr, depth int) {
	if !m.all[kind] {
		m.all[kind] = true
		m.changed = true
	}
	st := m.structs[kind]
	for i, el := range cl.Elts {
		name := ""
		val := el
		if kv, ok := el.(*ast.KeyValueExpr); ok {
			if id, ok := kv.Key.(*ast.Ident); ok {
				name = id.Name
			}
			val = kv.Value
		} else if i < st.NumFields() {
			name = st.Field(i).Name()
		}
		if isN, _ := m.nodeField(kind, name); isN {
			m.add(m.fields, kind+"."+name, m.gramKinds(val, p, locals, depth+1))
		}
	}
}

// gramStep interprets every production once.
func (m *c24model) gramStep() {
	for _, p := range m.prods {
		if p.body == nil {
			continue
		}
		locals := map[string]ast.Expr{}
		ast.Inspect(p.body, func(n ast.Node) bool {
			if as, ok := n.(*ast.AssignStmt); ok && as.Tok == token.DEFINE && len(as.Lhs) == len(as.Rhs) {
				for i, l := range as.Lhs {
					if id, ok := l.(*ast.Ident); ok {
						locals[id.Name] = as.Rhs[i]
					}
				}
			}
			return true
		})
		ast.Inspect(p.body, func(n ast.Node) bool {
			as, ok := n.(*ast.AssignStmt)
			if !ok || len(as.Lhs) != 1 || len(as.Rhs) != 1 {
				return true
			}
			switch l := as.Lhs[0].(type) {
			case *ast.Ident:
				if l.Name == "yyS" && m.isNodeNT(p.lhs) {
					m.add(m.nt, p.lhs, m.gramKinds(as.Rhs[0], p, locals, 0))
				} else if l.Name != "yyS" {
					// a local: evaluate composite literals for their field effects
					if cl, kind := c24astLitKind(as.Rhs[0]); cl != nil && kind != "" && m.structs[kind] != nil {
						m.gramLit(cl, kind, p, locals, 0)
					}
				}
			case *ast.SelectorExpr:
				// X.(*ast.T).F = …
				kind := ""
				if ta, ok := l.X.(*ast.TypeAssertExpr); ok {
					if st, ok := ta.Type.(*ast.StarExpr); ok {
						if sel, ok := st.X.(*ast.SelectorExpr); ok {
							kind = sel.Sel.Name
						}
					}
				}
				if kind == "" {
					// a field that is Node-typed in some kind, assigned through something we cannot type
					for k := range m.structs {
						if isN, isL := m.nodeField(k, l.Sel.Name); isN || isL {
							if id, ok := l.X.(*ast.Ident); !ok || locals[id.Name] == nil {
								m.note(fmt.Sprintf("parser.y:%d: assignment to field %s through an untyped expression in rule %s", p.line, l.Sel.Name, p.lhs))
							}
						}
					}
					return true
				}
				isN, isL := m.nodeField(kind, l.Sel.Name)
				switch {
				case isN:
					m.add(m.fields, kind+"."+l.Sel.Name, m.gramKinds(as.Rhs[0], p, locals, 0))
				case isL:
					call, ok := as.Rhs[0].(*ast.CallExpr)
					if id, isI := func() (*ast.Ident, bool) {
						if !ok {
							return nil, false
						}
						i, b := call.Fun.(*ast.Ident)
						return i, b
					}(); !ok || !isI || id.Name != "append" {
						m.note(fmt.Sprintf("parser.y:%d: list field %s.%s assigned by something other than append", p.line, kind, l.Sel.Name))
						return true
					}
					if call.Ellipsis != token.NoPos {
						return true // elements of another list of the same kind
					}
					for _, a := range call.Args[1:] {
						m.add(m.fields, kind+"."+l.Sel.Name, m.gramKinds(a, p, locals, 0))
					}
				}
			}
			return true
		})
	}
}

func (m *c24model) isNodeNT(name string) bool { return m.isNT[name] }

// closure adds to a kind set everything the visitors may put in the place of its members.
func (m *c24model) closure(s map[string]bool) map[string]bool {
	out := map[string]bool{}
	for k := range s {
		out[k] = true
	}
	for changed := true; changed; {
		changed = false
		for k := range out {
			for _, src := range []string{k, "*"} {
				for r := range m.replace[src] {
					if !out[r] {
						out[r] = true
						changed = true
					}
				}
			}
		}
	}
	return out
}

// goKinds evaluates a Go expression of the tree-rewriting code to node kinds.
func (m *c24model) goKinds(f *core.Func, e ast.Expr, depth int) map[string]bool {
	out := map[string]bool{}
	if e == nil || depth > 6 {
		out["?"] = true
		return out
	}
	e = core.Unparen(e)
	info := f.Info()
	if isNilIdent(info, e) {
		return out
	}
	if k := c24kind(info.TypeOf(e)); k != "" {
		out[k] = true
		return out
	}
	switch y := e.(type) {
	case *ast.CallExpr:
		if m.x.isWalk(f, y) {
			return m.closure(m.goKinds(f, y.Args[1], depth+1))
		}
	case *ast.SelectorExpr:
		if fo, ok := info.Uses[y.Sel].(*types.Var); ok && fo.IsField() {
			if k := c24kind(info.TypeOf(y.X)); k != "" && (c24isNodeIface(fo.Type()) || c24isNodeSlice(fo.Type())) {
				for kk := range m.fields[k+"."+fo.Name()] {
					out[kk] = true
				}
				return out
			}
		}
	case *ast.IndexExpr:
		return m.goKinds(f, y.X, depth+1)
	case *ast.SliceExpr:
		return m.goKinds(f, y.X, depth+1)
	case *ast.TypeAssertExpr:
		return m.goKinds(f, y.X, depth+1)
	case *ast.Ident:
		obj := identObj(info, y)
		if obj == nil {
			break
		}
		// parameter?
		root := f
		for root.Parent != nil {
			root = root.Parent
		}
		if idx := c24paramIndexOf(f, obj); idx >= 0 {
			if f.Lit == nil && (f.Decl.Name.Name == "VisitBefore" || f.Decl.Name.Name == "VisitAfter") && f.Decl.Recv != nil {
				out["*"] = true // called by Walk for every node
				return out
			}
			sites := m.x.callers[f]
			if f.Lit != nil {
				out["?"] = true
				return out
			}
			if len(sites) == 0 {
				return out // never called: no node reaches this parameter
			}
			for _, s := range sites {
				if idx < len(s.call.Args) {
					for k := range m.goKinds(s.f, s.call.Args[idx], depth+1) {
						out[k] = true
					}
				}
			}
			return out
		}
		// range variable over a list field
		found := false
		ast.Inspect(f.Body, func(n ast.Node) bool {
			if rs, ok := n.(*ast.RangeStmt); ok && rs.Value != nil && identObj(info, rs.Value) == obj {
				for k := range m.goKinds(f, rs.X, depth+1) {
					out[k] = true
				}
				found = true
			}
			return true
		})
		if found {
			return out
		}
		ds := c24defs(f, obj)
		if len(ds) > 0 {
			for _, d := range ds {
				if d.rhs == nil {
					continue
				}
				if d.tuple {
					// v, ok := X.(T) handled by static type; Walk has one result
					for k := range m.goKinds(f, d.rhs, depth+1) {
						out[k] = true
					}
					continue
				}
				for k := range m.goKinds(f, d.rhs, depth+1) {
					out[k] = true
				}
			}
			return out
		}
		// the variable of a type-switch clause with several types: the switch subject
		for _, cl := range c24clauses(f) {
			if cl.v == obj {
				out["*"] = true
				return out
			}
		}
	}
	out["?"] = true
	return out
}

func c24paramIndexOf(f *core.Func, obj types.Object) int {
	i := 0
	for _, fl := range f.Type.Params.List {
		if len(fl.Names) == 0 {
			i++
			continue
		}
		for _, nm := range fl.Names {
			if f.Info().Defs[nm] == obj {
				return i
			}
			i++
		}
	}
	return -1
}

// goStep interprets the tree-building and tree-rewriting Go code once.
func (m *c24model) goStep() {
	for _, f := range m.x.funcsOf(c24PkgAst, c24PkgChecker, c24PkgOpt, c24PkgParser) {
		if strings.HasSuffix(m.x.c.Prog.Fset.PositionFor(f.Pos(), false).Filename, "/parser.go") {
			continue // the generated actions are read from parser.y
		}
		info := f.Info()
		core.InspectNoLit(f.Body, func(n ast.Node) bool {
			if lit, ok := n.(*ast.FuncLit); ok && lit != f.Lit {
				return false
			}
			switch y := n.(type) {
			case *ast.CompositeLit:
				kind := c24kind(info.TypeOf(y))
				if kind == "" {
					return true
				}
				if !m.all[kind] {
					m.all[kind] = true
					m.changed = true
				}
				st := m.structs[kind]
				for i, el := range y.Elts {
					name, val := "", el
					if kv, ok := el.(*ast.KeyValueExpr); ok {
						if id, ok := kv.Key.(*ast.Ident); ok {
							name = id.Name
						}
						val = kv.Value
					} else if st != nil && i < st.NumFields() {
						name = st.Field(i).Name()
					}
					if isN, _ := m.nodeField(kind, name); isN {
						m.add(m.fields, kind+"."+name, m.goKinds(f, val, 0))
					}
				}
			case *ast.AssignStmt:
				if len(y.Lhs) != len(y.Rhs) {
					return true
				}
				for i, l := range y.Lhs {
					sel, ok := core.Unparen(l).(*ast.SelectorExpr)
					if !ok {
						continue
					}
					fo, ok := info.Uses[sel.Sel].(*types.Var)
					if !ok || !fo.IsField() {
						continue
					}
					kind := c24kind(info.TypeOf(sel.X))
					if kind == "" || !(c24isNodeIface(fo.Type()) || c24isNodeSlice(fo.Type())) {
						continue
					}
					m.add(m.fields, kind+"."+fo.Name(), m.goKinds(f, y.Rhs[i], 0))
				}
			}
			return true
		})
	}
	// replacement: what visitors return in place of the node they were given
	for _, f := range m.x.funcsOf(c24PkgChecker, c24PkgOpt) {
		if f.Lit != nil || f.Decl.Recv == nil {
			continue
		}
		ri := -1
		switch f.Decl.Name.Name {
		case "VisitAfter":
			ri = 0
		case "VisitBefore":
			ri = 1
		}
		if ri < 0 {
			continue
		}
		param := c24nodeParam(f)
		cls := c24clauses(f)
		core.InspectNoLit(f.Body, func(n ast.Node) bool {
			r, ok := n.(*ast.ReturnStmt)
			if !ok || len(r.Results) <= ri {
				return true
			}
			res := r.Results[ri]
			obj := identObj(f.Info(), res)
			if obj != nil && obj == param {
				return true
			}
			var from []string
			for _, cl := range cls {
				if cl.cc.Pos() <= r.Pos() && r.End() <= cl.cc.End() {
					if obj != nil && obj == cl.v {
						return true
					}
					from = cl.kinds
				}
			}
			// identity through a nested type-switch variable bound to the same node is not tracked: evaluate
			ks := m.goKinds(f, res, 0)
			if len(from) == 0 {
				from = []string{"*"}
			}
			for _, k := range from {
				m.add(m.replace, k, ks)
			}
			return true
		})
	}
}

// nilStep computes one round of "Pos() of this kind can return nil".
func (m *c24model) evalNil(f *core.Func, kind string, e ast.Expr) bool {
	e = core.Unparen(e)
	info := f.Info()
	switch y := e.(type) {
	case *ast.UnaryExpr:
		if y.Op == token.AND {
			return false
		}
	case *ast.CallExpr:
		id := f.CalleeID(y)
		switch {
		case id == c24Merge && len(y.Args) == 2:
			return m.evalNil(f, kind, y.Args[0]) && m.evalNil(f, kind, y.Args[1])
		case strings.HasSuffix(id, ".Pos") && len(y.Args) == 0:
			recv := core.RecvExpr(y)
			return m.anyNil(m.goKinds(f, recv, 0))
		case id == c24PkgAst+".mergepositionlist" && len(y.Args) == 1:
			if cl, ok := core.Unparen(y.Args[0]).(*ast.CompositeLit); ok && len(cl.Elts) > 0 {
				all := true
				for _, el := range cl.Elts {
					if isNilIdent(info, el) {
						continue
					}
					all = all && m.anyNil(m.goKinds(f, el, 0))
				}
				return all
			}
			return true // a list can be empty
		}
	}
	return true
}

func (m *c24model) anyNil(ks map[string]bool) bool {
	for k := range ks {
		switch k {
		case "?":
			return true
		case "*":
			for a := range m.all {
				if m.nilable[a] {
					return true
				}
			}
		default:
			if m.nilable[k] {
				return true
			}
		}
	}
	return false
}

func (m *c24model) nilKinds(ks map[string]bool) []string {
	var out []string
	for k := range ks {
		switch k {
		case "?":
			out = append(out, "an unknown kind")
		case "*":
			for a := range m.all {
				if m.nilable[a] {
					out = append(out, a)
				}
			}
		default:
			if m.nilable[k] {
				out = append(out, k)
			}
		}
	}
	sort.Strings(out)
	return uniq(out)
}

// buildModel constructs the node-kind model; ok is false if the grammar could not be read.
func (x *c24x) buildModel() (*c24model, error) {
	c := x.c
	m := &c24model{x: x, structs: map[string]*types.Struct{}, nt: map[string]map[string]bool{}, fields: map[string]map[string]bool{},
		replace: map[string]map[string]bool{}, all: map[string]bool{}, isNT: map[string]bool{}, nilable: map[string]bool{}}
	pkg := c.Prog.Pkgs[c24PkgAst]
	if pkg == nil {
		return nil, fmt.Errorf("package ast not loaded")
	}
	sc := pkg.Types.Scope()
	for _, name := range sc.Names() {
		if tn, ok := sc.Lookup(name).(*types.TypeName); ok && c24kind(tn.Type()) != "" {
			m.structs[name] = tn.Type().Underlying().(*types.Struct)
		}
	}
	src, err := os.ReadFile(filepath.Join(c.Prog.Root, c24PkgParser, "parser.y"))
	if err != nil {
		return nil, err
	}
	m.prods, err = c24parseYacc(string(src))
	if err != nil {
		return nil, err
	}
	// node-valued nonterminals: %type <n> …
	for _, ln := range strings.Split(string(src), "\n") {
		fs := strings.Fields(ln)
		if len(fs) >= 3 && fs[0] == "%type" && fs[1] == "<n>" {
			for _, s := range fs[2:] {
				m.isNT[s] = true
			}
		}
	}
	for _, p := range m.prods {
		if p.action == "" {
			if m.isNT[p.lhs] && len(p.rhs) >= 1 {
				// default action $$ = $1
				p.body, _ = c24actionBody("{ $$ = $1 }")
			}
			continue
		}
		b, err := c24actionBody(p.action)
		if err != nil {
			return nil, fmt.Errorf("parser.y:%d: action of %s does not parse: %v", p.line, p.lhs, err)
		}
		p.body = b
	}
	for round := 0; round < 50; round++ {
		m.changed = false
		m.gramStep()
		m.goStep()
		if !m.changed {
			break
		}
	}
	// least fixpoint of nil-ability
	for round := 0; round < 50; round++ {
		ch := false
		for kind := range m.structs {
			pf := c.Prog.Fn(c24PkgAst + ".(*" + kind + ").Pos")
			v := true
			if pf != nil {
				var rets []*ast.ReturnStmt
				core.InspectNoLit(pf.Body, func(n ast.Node) bool {
					if r, ok := n.(*ast.ReturnStmt); ok {
						rets = append(rets, r)
					}
					return true
				})
				if len(rets) == 1 && len(rets[0].Results) == 1 {
					v = m.evalNil(pf, kind, rets[0].Results[0])
				}
			}
			if v != m.nilable[kind] {
				if v {
					m.nilable[kind] = true
					ch = true
				}
			}
		}
		if !ch {
			break
		}
	}
	return m, nil
}

// posStatus classifies a position expression: 0 cannot be nil, 1 can be nil (why), 2 not decidable (why).
func (x *c24x) posStatus(f *core.Func, e ast.Expr, at ast.Node, depth int) (int, string) {
	m := x.model
	info := f.Info()
	e = core.Unparen(e)
	if depth > 5 {
		return 2, "position expression too deeply nested to follow"
	}
	if isNilIdent(info, e) {
		return 1, "the literal nil"
	}
	switch y := e.(type) {
	case *ast.UnaryExpr:
		if y.Op == token.AND {
			return 0, "address of a position field"
		}
	case *ast.CallExpr:
		id := f.CalleeID(y)
		if strings.HasSuffix(id, ".Pos") && len(y.Args) == 0 && core.RecvExpr(y) != nil {
			ks := m.goKinds(f, core.RecvExpr(y), 0)
			if bad := m.nilKinds(ks); len(bad) > 0 {
				if len(bad) == 1 && ks["?"] && bad[0] == "an unknown kind" {
					return 2, "the node kinds that `" + exprStr(core.RecvExpr(y)) + "` can hold were not determined"
				}
				return 1, "Pos() of " + strings.Join(bad, " / ") + " (which the receiver `" + exprStr(core.RecvExpr(y)) + "` can be) returns nil when the list is empty"
			}
			if len(ks) == 0 {
				return 0, "no node reaches `" + exprStr(core.RecvExpr(y)) + "` (its function is never called)"
			}
			return 0, "Pos() of " + strings.Join(sortedKeys(ks), ",")
		}
		if id == c24Merge && len(y.Args) == 2 {
			s1, w1 := x.posStatus(f, y.Args[0], at, depth+1)
			s2, w2 := x.posStatus(f, y.Args[1], at, depth+1)
			if s1 == 0 || s2 == 0 {
				return 0, "Merge with a non-nil operand"
			}
			if s1 == 2 {
				return 2, w1
			}
			if s2 == 2 {
				return 2, w2
			}
			return 1, w1 + " and " + w2
		}
	case *ast.SelectorExpr:
		fo, ok := info.Uses[y.Sel].(*types.Var)
		if ok && fo.IsField() {
			if _, isPtr := fo.Type().(*types.Pointer); isPtr {
				return x.fieldPosStatus(fo, depth+1)
			}
		}
	case *ast.Ident:
		obj := identObj(info, y)
		if obj == nil {
			break
		}
		// guarded by `obj != nil` in an enclosing if?
		guarded := false
		if at != nil {
			for _, ic := range f.EnclosingIfs(at.Pos()) {
				for _, cj := range chain(ic.If.Cond, token.LAND) {
					if ee, eq, ok := c24nilCmp(info, cj); ok && identObj(info, ee) == obj && !eq && ic.InThen {
						guarded = true
					}
				}
				if ee, eq, ok := c24nilCmp(info, ic.If.Cond); ok && identObj(info, ee) == obj && eq && !ic.InThen {
					guarded = true
				}
			}
		}
		if idx := c24paramIndexOf(f, obj); idx >= 0 {
			if guarded {
				return 0, "parameter tested non-nil"
			}
			sites := x.callers[f]
			if f.Lit != nil {
				return 2, "parameter of a function literal"
			}
			if len(sites) == 0 {
				return 0, "parameter of a function that has no callers in the module"
			}
			for _, s := range sites {
				if idx >= len(s.call.Args) {
					return 2, "variadic call"
				}
				if st, why := x.posStatus(s.f, s.call.Args[idx], s.call, depth+1); st != 0 {
					return st, "argument at " + x.c.Prog.Position(s.call.Pos()) + ": " + why
				}
			}
			return 0, "non-nil at every call site"
		}
		ds := c24defs(f, obj)
		if len(ds) == 0 {
			break
		}
		if guarded && len(ds) == 1 {
			return 0, "single definition, tested non-nil"
		}
		for _, d := range ds {
			if d.rhs == nil || d.tuple {
				return 2, "definition of `" + y.Name + "` not followed"
			}
			if st, why := x.posStatus(f, d.rhs, nil, depth+1); st != 0 {
				return st, why
			}
		}
		return 0, "non-nil at every definition"
	}
	return 2, "position expression `" + exprStr(e) + "` outside the recognised family"
}

// fieldPosStatus: a pointer-typed position field (Symbol.Pos): every value stored into it.
func (x *c24x) fieldPosStatus(fo *types.Var, depth int) (int, string) {
	worst, why := 0, "non-nil wherever the field is set"
	n := 0
	for _, k := range x.c.Prog.SortedFuncKeys() {
		sf := x.c.Prog.Funcs[k]
		if x.c.Prog.IsTestSupport(sf) {
			continue
		}
		info := sf.Info()
		core.InspectNoLit(sf.Body, func(nn ast.Node) bool {
			if lit, ok := nn.(*ast.FuncLit); ok && lit != sf.Lit {
				return false
			}
			var val ast.Expr
			var at ast.Node
			switch y := nn.(type) {
			case *ast.CompositeLit:
				tt := info.TypeOf(y)
				if tt == nil {
					return true
				}
				st, ok := tt.Underlying().(*types.Struct)
				if !ok {
					return true
				}
				for i, el := range y.Elts {
					if kv, ok := el.(*ast.KeyValueExpr); ok {
						if id, ok := kv.Key.(*ast.Ident); ok && info.Uses[id] == types.Object(fo) {
							val, at = kv.Value, kv
						}
					} else if i < st.NumFields() && st.Field(i) == fo {
						val, at = el, el
					}
				}
			case *ast.AssignStmt:
				if len(y.Lhs) == len(y.Rhs) {
					for i, l := range y.Lhs {
						if sel, ok := core.Unparen(l).(*ast.SelectorExpr); ok && info.Uses[sel.Sel] == types.Object(fo) {
							val, at = y.Rhs[i], y
						}
					}
				}
			}
			if val != nil {
				n++
				if st, w := x.posStatus(sf, val, at, depth+1); st > worst {
					worst, why = st, "stored at "+x.c.Prog.Position(at.Pos())+": "+w
				}
			}
			return true
		})
	}
	if n == 0 {
		return 1, "the field is never set"
	}
	return worst, why
}

func (x *c24x) r2() {
	c := x.c
	c.Rule("C24-R2", "POSITIONED: the position argument of every ErrorList.Add in parser, optimiser and checker cannot be nil: it is the address of a position field, or X.Pos() where no node kind that X can hold (node-kind model: grammar actions of parser.y + tree rewriting in checker, optimiser and Walk) has a Pos() that can return nil (least fixpoint over the Pos methods: only an empty StmtList/ExprList has no position), or a pointer field/variable/parameter all of whose sources are such, or a variable tested non-nil around the call")
	m, err := x.buildModel()
	if err != nil {
		c.Undecided("C24-R2", "node-kind model", "-", "the grammar could not be modelled: "+err.Error())
		return
	}
	x.model = m
	for _, u := range m.unknown {
		c.Undecided("C24-R2", "node-kind model|"+u, "-", "construct outside the family the model understands: field contents would be guessed")
	}
	fk := map[string]string{}
	for k, v := range m.fields {
		fk[k] = strings.Join(sortedKeys(v), ",")
	}
	c.Extra["c24_field_kinds"] = fk
	c.Extra["c24_nil_position_kinds"] = sortedKeys(m.nilable)
	rp := map[string]string{}
	for k, v := range m.replace {
		rp[k] = strings.Join(sortedKeys(v), ",")
	}
	c.Extra["c24_replacements"] = rp
	// sanity of the model itself: lists are the kinds without a position
	for _, must := range []string{"StmtList", "ExprList"} {
		if _, ok := m.structs[must]; ok && !m.nilable[must] {
			c.Undecided("C24-R2", "node-kind model|"+must, "-", "the model finds a position for an empty "+must+": Pos() methods outside the recognised family")
		}
	}
	ord := map[string]int{}
	for _, sf := range x.funcsOf(c24PkgChecker, c24PkgOpt, c24PkgParser) {
		var calls []*ast.CallExpr
		core.InspectNoLit(sf.Body, func(n ast.Node) bool {
			if lit, ok := n.(*ast.FuncLit); ok && lit != sf.Lit {
				return false
			}
			if call, ok := n.(*ast.CallExpr); ok && sf.CalleeID(call) == c24Add && len(call.Args) == 2 {
				calls = append(calls, call)
			}
			return true
		})
		if len(calls) > 0 {
			c.Analysed(sf)
		}
		for _, call := range calls {
			ctx := sf.Key
			for _, cl := range c24clauses(sf) {
				if cl.cc.Pos() <= call.Pos() && call.End() <= cl.cc.End() && len(cl.kinds) > 0 {
					ctx += "|" + strings.Join(cl.kinds, ",")
				}
			}
			ord[ctx]++
			key := fmt.Sprintf("%s|Add#%d", ctx, ord[ctx])
			st, why := x.posStatus(sf, call.Args[0], call, 0)
			switch st {
			case 0:
				c.Ok("C24-R2", key, pos(c, call), why)
			case 1:
				c.Fail("C24-R2", key, pos(c, call), "this error can be recorded without a source position ("+why+"): ErrorList.Add then substitutes line -1, and the program is rejected with an error that points nowhere in the source (printed as `:0:0`)")
			default:
				c.Undecided("C24-R2", key, pos(c, call), why)
			}
		}
	}
	c.Floor("C24-R2", 60)
}

// ---------------------------------------------------------------------------
// R4: one reject edge per error class

// c24assignedVar returns the variable that receives result `idx` of call, if the call is the right-hand side of an assignment.
func c24assignedVar(g *core.Graph, call *ast.CallExpr, idx int) types.Object {
	pt, ok := g.PointOf(call)
	if !ok {
		return nil
	}
	switch as := pt.Node().(type) {
	case *ast.AssignStmt:
		if len(as.Rhs) == 1 && core.Unparen(as.Rhs[0]) == ast.Expr(call) && idx < len(as.Lhs) {
			return identObj(g.F.Info(), as.Lhs[idx])
		}
	case *ast.ValueSpec:
		if len(as.Values) == 1 && core.Unparen(as.Values[0]) == ast.Expr(call) && idx < len(as.Names) {
			return g.F.Info().Defs[as.Names[idx]]
		}
	}
	return nil
}

// c24knownEdges enumerates the edges of the region on which pred is known.
func (r *c24region) knownEdges(edge func(*cfg.Block, int) bool) [][2]interface{} {
	var out [][2]interface{}
	for _, b := range r.g.C.Blocks {
		if !b.Live || !r.in(b) || len(b.Succs) != 2 {
			continue
		}
		for si := 0; si < 2; si++ {
			if edge(b, si) {
				out = append(out, [2]interface{}{b, si})
			}
		}
	}
	return out
}

func (x *c24x) r4() {
	c := x.c
	c.Rule("C24-R4", "REJECT-EDGES (one per class of the statement, on the generic node visit, so in every syntactic context): undeclared identifier, undefined capture group, undefined decorator: the before-visit clause leaves with the node resolved from the non-nil result of Scope.Lookup(<its own name>, <its kind>), or with an error; `next` outside def: with an empty decorator stack the NextStmt clause cannot be left without an error, and the stack is pushed/popped exactly by DecoDecl; index arity: an IndexedExpr with keys cannot be left without the arity unification or an error except over recognised already-reported edges; redeclaration: every declaration clause Inserts a symbol of its own kind into the current scope and the non-nil result of every Insert leads to an error; unused: checkSymbolTable runs before each StmtList scope is popped, reports every unused non-capture symbol of the current scope and is not cut short; regex: the length limit is tested on every path of the regex check (or every append to the pattern builder is bounded), over-limit and parse-error edges lead to an error, every PatternExpr is checked; zero divisor: for Op = DIV and for Op = MOD no path through the BinaryExpr clause avoids both an error and the literal-zero test whose hit edge leads to an error; the constant folder tests the divisor literal before every Go integer division")
	vb := c.MustFn("C24-R4", c24VB)
	va := c.MustFn("C24-R4", c24VA)
	if vb == nil || va == nil {
		return
	}
	x.resolveOrReject(vb, "undeclared identifier", "IDTerm", "Symbol", []string{"VarSymbol", "PatternSymbol"})
	x.resolveOrReject(vb, "undefined capture group", "CaprefTerm", "Symbol", []string{"CaprefSymbol"})
	x.resolveOrReject(vb, "undefined decorator", "DecoStmt", "Decl", []string{"DecoSymbol"})
	x.nextOutsideDef(vb, va)
	x.indexArity(va)
	x.redeclaration(vb)
	x.unused(va)
	x.regex(va)
	x.zeroDivisor(va)
	c.Floor("C24-R4", 30)
}

func (x *c24x) resolveOrReject(vb *core.Func, class, kind, field string, lookupKinds []string) {
	c := x.c
	key := fmt.Sprintf("class=%s|%s|%s", class, c24VB, kind)
	cl := c24clauseOf(vb, kind)
	fieldObj, nameObj := x.astField(kind, field), x.astField(kind, "Name")
	if cl == nil || cl.v == nil || fieldObj == nil || nameObj == nil {
		c.Undecided("C24-R4", key, pos(c, vb.Decl), "the checker's before-visit has no single-type clause for *ast."+kind+" (or the kind has no "+field+"/Name field): where this class is detected was not recognised")
		return
	}
	info := vb.Info()
	g := vb.Graph()
	looked := map[string]bool{}
	var syms []types.Object
	for _, h := range cl.reg.calls(c24Lookup) {
		call := h.N.(*ast.CallExpr)
		if len(call.Args) != 2 {
			continue
		}
		if !c24fieldOf(info, cl.v, nameObj)(call.Args[0]) {
			c.Fail("C24-R4", key+"|lookup name", pos(c, call), "the "+kind+" clause looks up `"+exprStr(call.Args[0])+"` instead of the node's own name: a use of an undeclared name is judged by some other name")
			continue
		}
		_, kn := c24constName(info, call.Args[1])
		okKind := false
		for _, lk := range lookupKinds {
			okKind = okKind || lk == kn
		}
		if !okKind {
			c.Fail("C24-R4", key+"|lookup kind", pos(c, call), "the "+kind+" clause resolves the name as a "+kn+" (expected "+strings.Join(lookupKinds, " or ")+"): a name declared as another kind of object satisfies the use, so the "+class+" is not reported")
			continue
		}
		looked[kn] = true
		if o := c24assignedVar(g, call, 0); o != nil {
			syms = append(syms, o)
		}
	}
	if !looked[lookupKinds[0]] {
		c.Fail("C24-R4", key+"|lookup", pos(c, cl.cc), "the "+kind+" clause never looks the node's name up as a "+lookupKinds[0]+": "+class+" cannot be detected here")
		return
	}
	// resolving assignments: n.<field> = …sym… reachable only over sym's non-nil edge
	var resolves []core.Point
	core.InspectNoLit(cl.cc, func(n ast.Node) bool {
		as, ok := n.(*ast.AssignStmt)
		if !ok {
			return true
		}
		for i, l := range as.Lhs {
			if !c24fieldOf(info, cl.v, fieldObj)(l) || i >= len(as.Rhs) {
				continue
			}
			for _, s := range syms {
				if !exprUses(info, as.Rhs[i], s) {
					continue
				}
				pt, okp := g.PointOf(as)
				if !okp {
					continue
				}
				if _, found := cl.reg.path(nil, nil, c24nonNilEdges(vb, c24isObj(info, s)), core.At(pt)); !found {
					resolves = append(resolves, pt)
				}
			}
		}
		return true
	})
	isAdd := x.isAdd(g)
	avoid := func(p core.Point) bool { return isAdd(p) || core.At(resolves...)(p) }
	tr, found := cl.reg.path(nil, avoid, x.ee(vb, c24nonNilEdges(vb, c24fieldOf(info, cl.v, fieldObj))), nil)
	c.Verdict(!found, "C24-R4", key, pos(c, cl.cc), fmt.Sprintf("every way out of the clause resolves %s.%s from a non-nil Lookup (%d resolving assignments) or records an error", kind, field, len(resolves)),
		"an *ast."+kind+" can leave the checker's before-visit neither resolved (no "+field+" taken from a successful Lookup of its name) nor reported: the "+class+" is accepted in every context where this path is taken", tr...)
}

// checkerField returns the field of the checker struct satisfying pred, if exactly one does.
func (x *c24x) checkerField(f *core.Func, pred func(*types.Var) bool) *types.Var {
	recv := c24recvObj(f)
	if recv == nil {
		return nil
	}
	t := recv.Type()
	if p, ok := t.(*types.Pointer); ok {
		t = p.Elem()
	}
	st, ok := t.Underlying().(*types.Struct)
	if !ok {
		return nil
	}
	var out *types.Var
	n := 0
	for i := 0; i < st.NumFields(); i++ {
		if pred(st.Field(i)) {
			out = st.Field(i)
			n++
		}
	}
	if n != 1 {
		return nil
	}
	return out
}

func c24isScopePtr(t types.Type) bool {
	p, ok := t.(*types.Pointer)
	if !ok {
		return false
	}
	n, ok := p.Elem().(*types.Named)
	return ok && n.Obj().Name() == "Scope" && n.Obj().Pkg() != nil && core.Rel(n.Obj().Pkg().Path()) == c24PkgSymbol
}

func (x *c24x) nextOutsideDef(vb, va *core.Func) {
	c := x.c
	key := "class=next outside def|" + c24VA + "|NextStmt"
	stack := x.checkerField(va, func(v *types.Var) bool {
		s, ok := v.Type().(*types.Slice)
		return ok && c24isScopePtr(s.Elem())
	})
	cl := c24clauseOf(va, "NextStmt")
	if stack == nil || cl == nil {
		c.Undecided("C24-R4", key, pos(c, va.Decl), "no NextStmt clause in the after-visit, or no unique []*symbol.Scope field (the stack of open decorator definitions) in the checker")
		return
	}
	info := va.Info()
	recv := c24recvObj(va)
	isStack := c24fieldOf(info, recv, stack)
	lenCall := c24lenOf(va, isStack)
	// edges that cannot be taken when the stack is empty
	infeasible := func(n int64) func(*cfg.Block, int) bool {
		return func(b *cfg.Block, si int) bool {
			cond, ok := c24cond(va, b)
			if !ok {
				return false
			}
			v, known := c24eval3(cond, func(a ast.Expr) (bool, bool) { return c24evalCmp(va, a, lenCall, n) })
			return known && v != (si == 0)
		}
	}
	tests := cl.reg.condBlocks(func(a ast.Expr) bool { _, ok := c24evalCmp(va, a, lenCall, 0); return ok })
	g := va.Graph()
	tr, found := cl.reg.path(nil, x.isAdd(g), x.ee(va, infeasible(0)), nil)
	switch {
	case len(tests) == 0:
		c.Fail("C24-R4", key, pos(c, cl.cc), "the NextStmt clause never tests whether a decorator definition is open (no comparison on the length of the decorator stack): `next` outside `def` is not rejected", tr...)
	default:
		c.Verdict(!found, "C24-R4", key, pos(c, cl.cc), fmt.Sprintf("with an empty decorator stack every way out of the clause records an error (%d length tests)", len(tests)),
			"with no decorator definition open (empty stack) the NextStmt clause can be left without an error: `next` outside `def` is accepted", tr...)
	}
	// push / pop discipline
	type site struct {
		f  *core.Func
		as *ast.AssignStmt
	}
	var pushes, pops, others []site
	for _, sf := range x.funcsOf(c24PkgChecker) {
		core.InspectNoLit(sf.Body, func(n ast.Node) bool {
			as, ok := n.(*ast.AssignStmt)
			if !ok || len(as.Lhs) != len(as.Rhs) {
				return true
			}
			for i, l := range as.Lhs {
				sel, isS := core.Unparen(l).(*ast.SelectorExpr)
				if !isS || sf.Info().Uses[sel.Sel] != types.Object(stack) {
					continue
				}
				switch r := core.Unparen(as.Rhs[i]).(type) {
				case *ast.CallExpr:
					if sf.CalleeID(r) == "builtin.append" && len(r.Args) == 2 && c24fieldOf(sf.Info(), nil, stack)(r.Args[0]) {
						pushes = append(pushes, site{sf, as})
						continue
					}
				case *ast.SliceExpr:
					if c24fieldOf(sf.Info(), nil, stack)(r.X) && r.Low == nil && r.High != nil {
						pops = append(pops, site{sf, as})
						continue
					}
				}
				others = append(others, site{sf, as})
			}
			return true
		})
	}
	for _, o := range others {
		c.Fail("C24-R4", "class=next outside def|decorator stack|other write in "+o.f.Key, pos(c, o.as), "the stack of open decorator definitions is written by something other than a push (append) or a pop (reslice): `next` may be accepted outside a definition")
	}
	chk := func(what string, f *core.Func, sites []site, pruneOK bool, failText string) {
		k := "class=next outside def|decorator stack|" + what
		dcl := c24clauseOf(f, "DecoDecl")
		if dcl == nil {
			c.Undecided("C24-R4", k, pos(c, f.Decl), "no DecoDecl clause")
			return
		}
		var pts []core.Point
		for _, s := range sites {
			if s.f != f || !dcl.reg.contains(s.as) {
				c.Fail("C24-R4", k+"|outside DecoDecl", pos(c, s.as), "the decorator stack is "+what+"ed outside the DecoDecl clause of "+f.Key+": the stack no longer says whether a definition is open")
				continue
			}
			if pt, ok := dcl.reg.g.PointOf(s.as); ok {
				pts = append(pts, pt)
			}
		}
		goal := func(p core.Point) bool {
			if !dcl.reg.exit(p) {
				return false
			}
			if r, isR := p.Node().(*ast.ReturnStmt); isR && pruneOK && len(r.Results) == 2 && isNilIdent(f.Info(), r.Results[0]) {
				return false
			}
			return true
		}
		tr, found := dcl.reg.path(nil, core.At(pts...), nil, goal)
		c.Verdict(!found && len(pts) > 0, "C24-R4", k, pos(c, dcl.cc), fmt.Sprintf("%d site(s), on every path through the DecoDecl clause", len(pts)), failText, tr...)
	}
	chk("push", vb, pushes, true, "a decorator definition can be entered without pushing onto the decorator stack: a `next` inside it is judged against the wrong (or no) definition")
	chk("pop", va, pops, false, "a decorator definition can be left without popping the decorator stack: every later `next` outside any definition finds the stack non-empty and is accepted")
}

func (x *c24x) indexArity(va *core.Func) {
	c := x.c
	key := "class=index arity|" + c24VA + "|IndexedExpr"
	cl := c24clauseOf(va, "IndexedExpr")
	if cl == nil {
		c.Undecided("C24-R4", key, pos(c, va.Decl), "no IndexedExpr clause in the after-visit")
		return
	}
	info := va.Info()
	g := va.Graph()
	unis := cl.reg.calls(c24Unify)
	if len(unis) == 0 {
		c.Fail("C24-R4", key, pos(c, cl.cc), "the IndexedExpr clause never unifies the declared dimensions with the keys given: the wrong number of index keys is not detected")
		return
	}
	isTypeSlice := func(e ast.Expr) bool {
		id, ok := e.(*ast.Ident)
		if !ok {
			return false
		}
		o, isV := identObj(info, id).(*types.Var)
		if !isV || o.IsField() {
			return false
		}
		s, isS := o.Type().(*types.Slice)
		if !isS {
			return false
		}
		n, isN := s.Elem().(*types.Named)
		return isN && n.Obj().Name() == "Type" && core.Rel(n.Obj().Pkg().Path()) == c24PkgTypes
	}
	lenCall := c24lenOf(va, isTypeSlice)
	symField := x.astField("IDTerm", "Symbol")
	patternVar := func(e ast.Expr) bool {
		o := usedObj(info, e)
		return o != nil && o.Name() == "Pattern" && o.Pkg() != nil && core.Rel(o.Pkg().Path()) == c24PkgTypes
	}
	okVars := map[types.Object]bool{}
	core.InspectNoLit(cl.cc, func(n ast.Node) bool {
		as, isA := n.(*ast.AssignStmt)
		if isA && len(as.Lhs) == 2 && len(as.Rhs) == 1 {
			if _, isTA := core.Unparen(as.Rhs[0]).(*ast.TypeAssertExpr); isTA {
				if o := identObj(info, as.Lhs[1]); o != nil {
					okVars[o] = true
				}
			}
		}
		return true
	})
	justified := c24edges(va, func(a ast.Expr, truth bool) bool {
		if call, ok := a.(*ast.CallExpr); ok {
			switch va.CalleeID(call) {
			case c24IsTE:
				return truth // an operand is already in error
			case c24Equals:
				return truth && len(call.Args) == 2 && (patternVar(call.Args[0]) || patternVar(call.Args[1])) // a pattern constant: rewritten, not indexed
			}
		}
		if id, ok := a.(*ast.Ident); ok && okVars[identObj(info, id)] {
			return !truth // the comma-ok assertion failed: no index list at all
		}
		if e, eq, ok := c24nilCmp(info, a); ok && c24fieldOf(info, nil, symField)(e) {
			return truth == eq // unresolved identifier: reported by the IDTerm clause
		}
		return false
	})
	uniPts := core.At(core.HitPoints(unis)...)
	isAdd := x.isAdd(g)
	for _, nkeys := range []int64{1, 2} {
		infeasible := func(b *cfg.Block, si int) bool {
			cond, ok := c24cond(va, b)
			if !ok {
				return false
			}
			v, known := c24eval3(cond, func(a ast.Expr) (bool, bool) { return c24evalCmp(va, a, lenCall, nkeys) })
			return known && v != (si == 0)
		}
		blocks, found := cl.reg.pathB(nil, func(p core.Point) bool { return isAdd(p) || uniPts(p) }, c24orEdges(justified, infeasible, x.errEdge(va)), nil)
		k := fmt.Sprintf("%s|%d key(s)", key, nkeys)
		if !found {
			c.Ok("C24-R4", k, pos(c, cl.cc), "an index with keys reaches the arity unification or an error on every path (operand-in-error, unresolved-identifier, pattern-constant and no-index-list edges excepted)")
			continue
		}
		viaLen := false
		for _, b := range blocks {
			if cond, ok := c24cond(va, b); ok {
				for _, a := range c24atoms(cond) {
					if _, ok := c24evalCmp(va, a, lenCall, nkeys); ok {
						viaLen = true
					}
				}
			}
		}
		if viaLen {
			c.Fail("C24-R4", k, pos(c, cl.cc), fmt.Sprintf("an index expression with %d key(s) can leave the checker without the arity unification and without an error, over a test on the number of keys that lets it through: keys on something that takes none (or the wrong number of keys) are accepted", nkeys), g.Trail(blocks)...)
		} else {
			c.Undecided("C24-R4", k, pos(c, cl.cc), "an index expression with keys can bypass the arity unification over a condition outside the recognised family: "+c24join(g.Trail(blocks)))
		}
	}
}

// mustInsert reports whether the declared checker method hf calls Scope.Insert
// on the checker's current scope on every path to a normal exit.
func (x *c24x) mustInsert(hf *core.Func, scopeField *types.Var) bool {
	if hf == nil || hf.Lit != nil || core.Rel(hf.Pkg.PkgPath) != c24PkgChecker || scopeField == nil {
		return false
	}
	g := hf.Graph()
	var pts []core.Point
	for _, h := range g.CallsTo(c24Insert) {
		if c24fieldOf(hf.Info(), c24recvObj(hf), scopeField)(core.RecvExpr(h.N.(*ast.CallExpr))) && !h.InDefer && !h.InGo {
			pts = append(pts, h.P)
		}
	}
	if len(pts) == 0 {
		return false
	}
	_, found := g.Search(core.Query{Goal: core.At(core.ExitPoints(normalExits(g))...), Avoid: core.At(pts...)})
	return !found
}

func (x *c24x) redeclaration(vb *core.Func) {
	c := x.c
	// every Insert in the checker package: non-nil result => error
	n := 0
	for _, sf := range x.funcsOf(c24PkgChecker) {
		g := sf.Graph()
		reg := c24whole(sf)
		for i, h := range g.CallsTo(c24Insert) {
			n++
			call := h.N.(*ast.CallExpr)
			key := fmt.Sprintf("class=redeclaration|%s|Insert#%d result", sf.Key, i+1)
			alt := c24assignedVar(g, call, 0)
			if alt == nil {
				c.Fail("C24-R4", key, pos(c, call), "the result of Scope.Insert is discarded: inserting a name that is already declared in this scope goes unnoticed, the redeclaration is accepted")
				continue
			}
			edges := reg.knownEdges(c24nonNilEdges(sf, c24isObj(sf.Info(), alt)))
			if len(edges) == 0 {
				c.Fail("C24-R4", key, pos(c, call), "the result of Scope.Insert is never tested against nil: a redeclared name is accepted")
				continue
			}
			// no way on from the call that neither finds the result nil nor records an error
			from := h.P
			tr, found := reg.path(&from, x.isAdd(g), x.ee(sf, c24nilEdges(sf, c24isObj(sf.Info(), alt))), func(p core.Point) bool { return reg.exit(p) || p == h.P })
			c.Verdict(!found, "C24-R4", key, pos(c, call), "every way on from the call finds the result nil or records an error",
				"Scope.Insert may have reported that the name already exists (result not found nil on this path), yet the function returns, or inserts the next symbol, without recording an error: the redeclared name is accepted", tr...)
		}
	}
	c.Extra["c24_insert_sites"] = n
	// declaration clauses
	scopeField := x.checkerField(vb, func(v *types.Var) bool { return c24isScopePtr(v.Type()) })
	for _, d := range []struct{ kind, symKind string }{{"VarDecl", "VarSymbol"}, {"DecoDecl", "DecoSymbol"}, {"PatternFragment", "PatternSymbol"}} {
		key := "class=redeclaration|" + c24VB + "|" + d.kind
		cl := c24clauseOf(vb, d.kind)
		if cl == nil || scopeField == nil {
			c.Undecided("C24-R4", key, pos(c, vb.Decl), "no clause for the declaration kind, or no unique *symbol.Scope field (the current scope) in the checker")
			continue
		}
		info := vb.Info()
		var pts []core.Point
		// helpers that insert into the current scope on every path
		for _, h := range vb.Graph().Calls(func(_ string, call *ast.CallExpr) bool {
			cf := vb.CalleeFunc(call)
			return cf != nil && x.mustInsert(cf, scopeField)
		}) {
			if cl.reg.contains(h.N) {
				pts = append(pts, h.P)
			}
		}
		for _, h := range cl.reg.calls(c24Insert) {
			call := h.N.(*ast.CallExpr)
			if c24fieldOf(info, c24recvObj(vb), scopeField)(core.RecvExpr(call)) {
				pts = append(pts, h.P)
			} else {
				c.Fail("C24-R4", key+"|scope", pos(c, call), "the declaration is inserted into `"+exprStr(core.RecvExpr(call))+"`, not into the checker's current scope: a second declaration in the same block does not collide with it")
			}
		}
		isAdd := x.isAdd(vb.Graph())
		tr, found := cl.reg.path(nil, func(p core.Point) bool { return isAdd(p) || core.At(pts...)(p) }, x.errEdge(vb), nil)
		c.Verdict(!found && len(pts) > 0, "C24-R4", key, pos(c, cl.cc), "the declared symbol is inserted into the current scope on every path that records no error",
			"a "+d.kind+" can pass the checker without being inserted into the current scope: a later redeclaration of the name does not collide, and the unused-declaration scan never sees it", tr...)
		// symbol kind
		okKind := false
		for _, h := range cl.reg.calls(c24NewSym) {
			call := h.N.(*ast.CallExpr)
			if len(call.Args) == 3 {
				if _, kn := c24constName(info, call.Args[1]); kn == d.symKind {
					okKind = true
				} else {
					c.Fail("C24-R4", key+"|symbol kind", pos(c, call), "a "+d.kind+" is declared as a "+kn+" (expected "+d.symKind+"): lookups are per kind, so uses of the name are reported as undeclared and a real redeclaration of that kind is not detected")
				}
			}
		}
		if !okKind {
			c.Undecided("C24-R4", key+"|symbol kind", pos(c, cl.cc), "no symbol.NewSymbol(…, "+d.symKind+", …) found in the clause")
		} else {
			c.Ok("C24-R4", key+"|symbol kind", pos(c, cl.cc), d.symKind)
		}
	}
}

func (x *c24x) unused(va *core.Func) {
	c := x.c
	st := c.MustFn("C24-R4", c24SymTab)
	if st == nil {
		return
	}
	scopeField := x.checkerField(va, func(v *types.Var) bool { return c24isScopePtr(v.Type()) })
	// (a) called before the StmtList scope is popped
	key := "class=unused declaration|" + c24VA + "|StmtList"
	cl := c24clauseOf(va, "StmtList")
	if cl == nil || scopeField == nil {
		c.Undecided("C24-R4", key, pos(c, va.Decl), "no StmtList clause in the after-visit or no unique current-scope field")
	} else {
		g := va.Graph()
		var callPts, popPts []core.Point
		for _, h := range g.Calls(func(_ string, call *ast.CallExpr) bool { return va.CalleeFunc(call) == st }) {
			if cl.reg.contains(h.N) {
				callPts = append(callPts, h.P)
			}
		}
		for _, h := range g.Find(func(n ast.Node) bool {
			as, ok := n.(*ast.AssignStmt)
			if !ok {
				return false
			}
			for _, l := range as.Lhs {
				if c24fieldOf(va.Info(), c24recvObj(va), scopeField)(l) {
					return true
				}
			}
			return false
		}) {
			if cl.reg.contains(h.N) {
				popPts = append(popPts, h.P)
			}
		}
		goal := func(p core.Point) bool { return cl.reg.exit(p) || core.At(popPts...)(p) }
		tr, found := cl.reg.path(nil, core.At(callPts...), nil, goal)
		c.Verdict(!found && len(callPts) > 0, "C24-R4", key, pos(c, cl.cc), "the unused-symbol scan runs on every path before the block's scope is popped",
			"a statement block can be closed (its scope popped, or the clause left) without the unused-symbol scan of that scope: metrics, constants and decorators declared in the block and never used are accepted", tr...)
	}
	// (b) the scan itself
	key = "class=unused declaration|" + c24SymTab
	g := st.Graph()
	info := st.Info()
	symbolsField := x.pkgField(c24PkgSymbol, "Scope", "Symbols")
	usedField := x.pkgField(c24PkgSymbol, "Symbol", "Used")
	kindField := x.pkgField(c24PkgSymbol, "Symbol", "Kind")
	stScope := x.checkerField(st, func(v *types.Var) bool { return c24isScopePtr(v.Type()) })
	var loop *ast.RangeStmt
	for _, rs := range rangeStmts(st) {
		if sel, ok := core.Unparen(rs.X).(*ast.SelectorExpr); ok && info.Uses[sel.Sel] == types.Object(symbolsField) {
			if c24fieldOf(info, c24recvObj(st), stScope)(sel.X) {
				loop = rs
			}
		}
	}
	if loop == nil || loop.Value == nil || usedField == nil || kindField == nil {
		c.Fail("C24-R4", key+"|scan", pos(c, st.Decl), "checkSymbolTable does not range over the symbols of the checker's current scope: unused declarations of the block being closed are not examined")
		return
	}
	sym := identObj(info, loop.Value)
	if early := earlyLoopExits(c, g, loop); len(early) > 0 {
		c.Fail("C24-R4", key+"|scan complete", pos(c, loop), "the scan over the scope's symbols can stop before the last symbol (map order is random, so any unused declaration may be the one skipped): "+early[0])
	} else {
		c.Ok("C24-R4", key+"|scan complete", pos(c, loop), "no break/return inside the loop")
	}
	reg := c24whole(st)
	head, _, _ := loopBlocks(g, loop)
	unusedEdge := c24edges(st, func(a ast.Expr, truth bool) bool { return !truth && c24fieldOf(info, sym, usedField)(a) })
	caprefEdge := c24edges(st, func(a ast.Expr, truth bool) bool {
		be, ok := a.(*ast.BinaryExpr)
		if !ok || (be.Op != token.EQL && be.Op != token.NEQ) {
			return false
		}
		for _, pr := range [][2]ast.Expr{{be.X, be.Y}, {be.Y, be.X}} {
			if c24fieldOf(info, sym, kindField)(pr[0]) {
				if _, kn := c24constName(info, pr[1]); kn == "CaprefSymbol" {
					return truth == (be.Op == token.EQL)
				}
			}
		}
		return false
	})
	edges := reg.knownEdges(unusedEdge)
	if len(edges) == 0 {
		c.Fail("C24-R4", key+"|unused => error", pos(c, loop), "the scan never tests Symbol.Used: no declaration is ever reported as unused")
		return
	}
	bad := false
	for _, e := range edges {
		goal := func(p core.Point) bool {
			return reg.exit(p) || (p.B == head && p.I == 0) || (p.B == head && len(head.Nodes) == 0)
		}
		if tr, found := reg.path(c24edgeStart(e[0].(*cfg.Block), e[1].(int)), x.isAdd(g), x.ee(st, caprefEdge), goal); found {
			bad = true
			c.Fail("C24-R4", key+"|unused => error", pos(c, loop), "a symbol found unused, and not known to be a capture group, can be passed over without an error: an unused metric, pattern constant or decorator is accepted", tr...)
			break
		}
	}
	if !bad {
		c.Ok("C24-R4", key+"|unused => error", pos(c, loop), "every unused symbol other than a capture group is reported")
	}
}

// c24limitFields: the checker field that receives the regexp length limit in
// Check's composite literal, and every field initialised from it.
func (x *c24x) limitFields() map[types.Object]bool {
	out := map[types.Object]bool{}
	chk := x.c.Prog.Fn(c24Check)
	if chk == nil {
		return out
	}
	info := chk.Info()
	var param types.Object
	for _, fl := range chk.Type.Params.List {
		for _, nm := range fl.Names {
			if o := info.Defs[nm]; o != nil && param == nil {
				if b, ok := o.Type().Underlying().(*types.Basic); ok && b.Info()&types.IsInteger != 0 {
					param = o
				}
			}
		}
	}
	ast.Inspect(chk.Body, func(n ast.Node) bool {
		if kv, ok := n.(*ast.KeyValueExpr); ok && identObj(info, kv.Value) == param && param != nil {
			if id, ok := kv.Key.(*ast.Ident); ok {
				if o := info.Uses[id]; o != nil {
					out[o] = true
				}
			}
		}
		// c.limit = param (also in a parallel assignment)
		if as, ok := n.(*ast.AssignStmt); ok && len(as.Lhs) == len(as.Rhs) && param != nil {
			for i, l := range as.Lhs {
				if identObj(info, as.Rhs[i]) == param {
					if fv, _ := hbFieldOf(info, l); fv != nil {
						out[fv] = true
					}
				}
			}
		}
		return true
	})
	for changed := true; changed; {
		changed = false
		for _, sf := range x.funcsOf(c24PkgChecker) {
			ast.Inspect(sf.Body, func(n ast.Node) bool {
				kv, ok := n.(*ast.KeyValueExpr)
				if !ok {
					return true
				}
				if out[usedObj(sf.Info(), kv.Value)] {
					if id, ok := kv.Key.(*ast.Ident); ok {
						if o := sf.Info().Uses[id]; o != nil && !out[o] {
							out[o] = true
							changed = true
						}
					}
				}
				return true
			})
			ast.Inspect(sf.Body, func(n ast.Node) bool {
				as, ok := n.(*ast.AssignStmt)
				if !ok || len(as.Lhs) != len(as.Rhs) {
					return true
				}
				for i, l := range as.Lhs {
					if out[usedObj(sf.Info(), as.Rhs[i])] {
						if fv, _ := hbFieldOf(sf.Info(), l); fv != nil && !out[fv] {
							out[fv] = true
							changed = true
						}
					}
				}
				return true
			})
		}
	}
	return out
}

// c24limitAtom recognises a comparison of something with a limit field and
// tells which truth value of the atom means "over the limit".
func c24limitAtom(f *core.Func, a ast.Expr, limits map[types.Object]bool) (other ast.Expr, overWhenTrue bool, ok bool) {
	be, isB := core.Unparen(a).(*ast.BinaryExpr)
	if !isB {
		return nil, false, false
	}
	isLim := func(e ast.Expr) bool { return limits[usedObj(f.Info(), e)] }
	switch {
	case isLim(be.Y) && !isLim(be.X): // other OP limit
		switch be.Op {
		case token.GTR, token.GEQ:
			return be.X, true, true
		case token.LEQ, token.LSS:
			return be.X, false, true
		}
	case isLim(be.X) && !isLim(be.Y): // limit OP other
		switch be.Op {
		case token.LSS, token.LEQ:
			return be.Y, true, true
		case token.GEQ, token.GTR:
			return be.Y, false, true
		}
	}
	return nil, false, false
}

func (x *c24x) regex(va *core.Func) {
	c := x.c
	// the regex check: the checker function that parses the pattern
	var rx *core.Func
	var parseCall *ast.CallExpr
	nrx := 0
	for _, sf := range x.funcsOf(c24PkgChecker) {
		for _, h := range sf.Graph().CallsTo(c24ParseRe) {
			rx, parseCall = sf, h.N.(*ast.CallExpr)
			nrx++
		}
	}
	if nrx != 1 || rx.Lit != nil {
		c.Undecided("C24-R4", "class=invalid regex|regex check", "-", fmt.Sprintf("%d calls of types.ParseRegexp in the checker package, exactly one (in a declared function) expected", nrx))
		return
	}
	c.Analysed(rx)
	g := rx.Graph()
	info := rx.Info()
	reg := c24whole(rx)
	isAdd := x.isAdd(g)
	patParam := identObj(info, parseCall.Args[0])
	if patParam == nil || c24paramIndexOf(rx, patParam) < 0 {
		c.Undecided("C24-R4", "class=invalid regex|"+rx.Key, pos(c, parseCall), "the argument of ParseRegexp is not a parameter of the enclosing function")
		return
	}
	parsePt, _ := g.PointOf(parseCall)

	// invalid regex
	{
		key := "class=invalid regex|" + rx.Key
		errObj := c24assignedVar(g, parseCall, 1)
		if errObj == nil {
			c.Fail("C24-R4", key+"|parse error => error", pos(c, parseCall), "the error result of ParseRegexp is discarded: an invalid regular expression is accepted by the checker")
		} else {
			edges := reg.knownEdges(c24nonNilEdges(rx, c24isObj(info, errObj)))
			from := parsePt
			tr, found := reg.path(&from, isAdd, x.ee(rx, c24nilEdges(rx, c24isObj(info, errObj))), nil)
			c.Verdict(!found && len(edges) > 0, "C24-R4", key+"|parse error => error", pos(c, parseCall), "every way on from ParseRegexp finds err nil or records an error",
				"ParseRegexp may have failed (err not found nil on this path) but the regex check returns without recording an error: an invalid regular expression is accepted", tr...)
		}
		tr, found := reg.path(nil, func(p core.Point) bool { return isAdd(p) || p == parsePt }, x.errEdge(rx), nil)
		c.Verdict(!found, "C24-R4", key+"|parse on every path", pos(c, parseCall), "every path through the regex check parses the pattern or records an error",
			"the regex check can return without parsing the pattern and without an error: an invalid regular expression is accepted on that path", tr...)
	}

	// length limit
	{
		key := "class=regex too long|" + rx.Key
		limits := x.limitFields()
		var names []string
		for o := range limits {
			names = append(names, o.Name())
		}
		sort.Strings(names)
		c.Extra["c24_regex_limit_fields"] = names
		lenPat := c24lenOf(rx, c24isObj(info, patParam))
		isWholeLen := func(e ast.Expr) bool {
			// len(pattern), or a variable whose only definition is len(pattern)
			e = core.Unparen(e)
			if call, ok := e.(*ast.CallExpr); ok {
				return lenPat(call)
			}
			if d, ok := c24soleDef(rx, identObj(info, e)); ok && !d.tuple {
				if call, ok := core.Unparen(d.rhs).(*ast.CallExpr); ok {
					return lenPat(call)
				}
			}
			return false
		}
		overEdge := c24edges(rx, func(a ast.Expr, truth bool) bool {
			o, owt, ok := c24limitAtom(rx, a, limits)
			return ok && isWholeLen(o) && truth == owt
		})
		underEdge := c24edges(rx, func(a ast.Expr, truth bool) bool {
			o, owt, ok := c24limitAtom(rx, a, limits)
			return ok && isWholeLen(o) && truth != owt
		})
		over := reg.knownEdges(overEdge)
		// helpers called with the pattern that test its length on all their paths and report the over-limit case
		var helperPts []core.Point
		for _, h := range g.Calls(func(_ string, call *ast.CallExpr) bool { return rx.CalleeFunc(call) != nil }) {
			call := h.N.(*ast.CallExpr)
			hf := rx.CalleeFunc(call)
			for ai, a := range call.Args {
				if identObj(info, a) == patParam && x.limitChecker(hf, ai, limits) {
					helperPts = append(helperPts, h.P)
				}
			}
		}
		if len(over) > 0 || len(helperPts) > 0 {
			// design 1: the whole pattern is measured in the regex check
			bad := false
			var tr []string
			for _, e := range over {
				if t, found := reg.path(c24edgeStart(e[0].(*cfg.Block), e[1].(int)), isAdd, x.errEdge(rx), nil); found {
					bad, tr = true, t
				}
			}
			c.Verdict(!bad, "C24-R4", key+"|over limit => error", pos(c, rx.Decl), "the over-limit edge always records an error",
				"the pattern was found longer than the limit but the regex check can return without an error: over-long regular expressions are accepted", tr...)
			// no way through the function that neither errors nor passes the within-limit edge
			t2, found := reg.path(nil, func(p core.Point) bool { return isAdd(p) || core.At(helperPts...)(p) }, x.ee(rx, underEdge), func(p core.Point) bool { return reg.exit(p) || p == parsePt })
			c.Verdict(!found, "C24-R4", key+"|limit tested on every path", pos(c, rx.Decl), "parsing and every exit are reached only over the within-limit edge or after an error",
				"the regex check can parse the pattern, or return, without having compared its length with the limit: a regular expression over the length limit is accepted", t2...)
		} else {
			// design 2: is the pattern bounded while it is assembled?
			x.boundedBuilder(key, limits)
		}
	}

	// every PatternExpr is checked
	{
		key := "class=invalid regex|" + c24VA + "|PatternExpr"
		cl := c24clauseOf(va, "PatternExpr")
		if cl == nil {
			c.Undecided("C24-R4", key, pos(c, va.Decl), "no PatternExpr clause in the after-visit")
			return
		}
		ga := va.Graph()
		var callPts []core.Point
		for _, h := range ga.Calls(func(_ string, call *ast.CallExpr) bool { return va.CalleeFunc(call) == rx }) {
			if cl.reg.contains(h.N) {
				callPts = append(callPts, h.P)
			}
		}
		if len(callPts) == 0 {
			c.Fail("C24-R4", key, pos(c, cl.cc), "the PatternExpr clause never calls the regex check: neither invalid nor over-long regular expressions are detected")
			return
		}
		emptyEdge := c24edges(va, x.errFact(va), func(a ast.Expr, truth bool) bool {
			be, ok := a.(*ast.BinaryExpr)
			if !ok || (be.Op != token.EQL && be.Op != token.NEQ) {
				return false
			}
			for _, pr := range [][2]ast.Expr{{be.X, be.Y}, {be.Y, be.X}} {
				tv := va.Info().Types[pr[1]]
				if tv.Value == nil {
					continue
				}
				s := tv.Value.ExactString()
				if s == `""` && c24isStringy(va.Info().TypeOf(pr[0])) {
					return truth == (be.Op == token.EQL)
				}
				if s == "0" {
					if call, ok := core.Unparen(pr[0]).(*ast.CallExpr); ok {
						id := va.CalleeID(call)
						if id == "builtin.len" || strings.HasSuffix(id, ").Len") {
							return truth == (be.Op == token.EQL)
						}
					}
				}
			}
			return false
		})
		isAddA := x.isAdd(ga)
		tr, found := cl.reg.path(nil, func(p core.Point) bool { return isAddA(p) || core.At(callPts...)(p) }, x.ee(va, emptyEdge), nil)
		if found {
			c.Undecided("C24-R4", key, pos(c, cl.cc), "a PatternExpr can leave the after-visit without the regex check over a condition other than `the assembled pattern is empty`: "+c24join(tr))
		} else {
			c.Ok("C24-R4", key, pos(c, cl.cc), "every non-empty assembled pattern is passed to the regex check")
		}
	}
}

// limitChecker reports whether function hf compares the length of its
// parameter number pi with the regexp length limit on every path, and records
// an error on every path that follows the over-limit edge.
func (x *c24x) limitChecker(hf *core.Func, pi int, limits map[types.Object]bool) bool {
	if hf == nil || hf.Lit != nil || core.Rel(hf.Pkg.PkgPath) != c24PkgChecker {
		return false
	}
	info := hf.Info()
	var param types.Object
	i := 0
	for _, fl := range hf.Type.Params.List {
		for _, nm := range fl.Names {
			if i == pi {
				param = info.Defs[nm]
			}
			i++
		}
	}
	if param == nil || !c24isStringy(param.Type()) || len(c24defs(hf, param)) > 0 {
		return false
	}
	lenPat := c24lenOf(hf, c24isObj(info, param))
	whole := func(e ast.Expr) bool {
		e = core.Unparen(e)
		if call, ok := e.(*ast.CallExpr); ok {
			return lenPat(call)
		}
		if d, ok := c24soleDef(hf, identObj(info, e)); ok && !d.tuple {
			if call, ok := core.Unparen(d.rhs).(*ast.CallExpr); ok {
				return lenPat(call)
			}
		}
		return false
	}
	reg := c24whole(hf)
	edge := func(over bool) func(*cfg.Block, int) bool {
		return c24edges(hf, func(a ast.Expr, truth bool) bool {
			o, owt, ok := c24limitAtom(hf, a, limits)
			return ok && whole(o) && (truth == owt) == over
		})
	}
	overs := reg.knownEdges(edge(true))
	if len(overs) == 0 {
		return false
	}
	isAdd := x.isAdd(hf.Graph())
	for _, e := range overs {
		if _, found := reg.path(c24edgeStart(e[0].(*cfg.Block), e[1].(int)), isAdd, nil, nil); found {
			return false
		}
	}
	if _, found := reg.path(nil, isAdd, edge(false), nil); found {
		return false
	}
	x.c.Analysed(hf)
	return true
}

func c24isStringy(t types.Type) bool {
	if t == nil {
		return false
	}
	b, ok := t.Underlying().(*types.Basic)
	return ok && b.Info()&types.IsString != 0
}

// boundedBuilder handles the design in which the length limit is enforced
// while the pattern is assembled: then every append to the pattern builder
// must happen on the within-limit edge of a limit test in the same function.
func (x *c24x) boundedBuilder(key string, limits map[types.Object]bool) {
	c := x.c
	type app struct {
		f    *core.Func
		call *ast.CallExpr
	}
	var appends []app
	ntests, nbuilder := 0, 0
	for _, sf := range x.funcsOf(c24PkgChecker) {
		info := sf.Info()
		core.InspectNoLit(sf.Body, func(n ast.Node) bool {
			if lit, ok := n.(*ast.FuncLit); ok && lit != sf.Lit {
				return false
			}
			call, ok := n.(*ast.CallExpr)
			if !ok {
				return true
			}
			id := sf.CalleeID(call)
			if strings.HasPrefix(id, "strings.(*Builder).Write") {
				if fo, isV := usedObj(info, core.RecvExpr(call)).(*types.Var); isV && fo.IsField() {
					appends = append(appends, app{sf, call})
				}
			}
			return true
		})
		reg := c24whole(sf)
		ntests += len(reg.condBlocks(func(a ast.Expr) bool { _, _, ok := c24limitAtom(sf, a, limits); return ok }))
		nbuilder += len(reg.condBlocks(func(a ast.Expr) bool {
			o, _, ok := c24limitAtom(sf, a, limits)
			if !ok {
				return false
			}
			uses := false
			look := func(e ast.Expr) {
				ast.Inspect(e, func(n ast.Node) bool {
					if call, isC := n.(*ast.CallExpr); isC && sf.CalleeID(call) == "strings.(*Builder).Len" {
						uses = true
					}
					return true
				})
			}
			look(o)
			if d, okd := c24soleDef(sf, identObj(sf.Info(), o)); okd && !d.tuple {
				look(d.rhs) // `plen := b.Len() + len(text); plen > limit`
			}
			return uses
		}))
	}
	if ntests == 0 {
		c.Fail("C24-R4", key+"|limit tested", "-", "no comparison with the regexp length limit exists in the checker: the limit handed to Check is never enforced and regular expressions of any length are accepted")
		return
	}
	if nbuilder == 0 {
		c.Undecided("C24-R4", key+"|limit tested", "-", "the regexp length limit is compared somewhere in the checker, but neither with the length of the whole pattern in the regex check (or a helper it calls with the pattern) nor with the running length of the pattern builder: shape outside the recognised family")
		return
	}
	nbad := 0
	for i, a := range appends {
		g := a.f.Graph()
		reg := c24whole(a.f)
		pt, ok := g.PointOf(a.call)
		if !ok {
			continue
		}
		under := c24edges(a.f, func(at ast.Expr, truth bool) bool {
			_, owt, ok := c24limitAtom(a.f, at, limits)
			return ok && truth != owt
		})
		if tr, found := reg.path(nil, nil, under, core.At(pt)); found {
			nbad++
			c.Fail("C24-R4", fmt.Sprintf("%s|unbounded append#%d in %s", key, i+1, a.f.Key), pos(c, a.call), "the length limit is enforced while the pattern is assembled, but this append to the pattern builder (`"+exprStr(a.call)+"`) is reached without passing the within-limit edge of a limit test: text added here (a named pattern constant, for instance) is never counted, so a concatenation longer than the limit is accepted", tr...)
		}
	}
	for _, sf := range x.funcsOf(c24PkgChecker) {
		reg := c24whole(sf)
		over := c24edges(sf, func(at ast.Expr, truth bool) bool {
			_, owt, ok := c24limitAtom(sf, at, limits)
			return ok && truth == owt
		})
		for _, e := range reg.knownEdges(over) {
			if tr, found := reg.path(c24edgeStart(e[0].(*cfg.Block), e[1].(int)), x.isAdd(sf.Graph()), nil, nil); found {
				nbad++
				c.Fail("C24-R4", key+"|over limit => error in "+sf.Key, pos(c, sf.Decl), "the over-limit edge of the length test can be left without recording an error", tr...)
			}
		}
	}
	if nbad == 0 {
		c.Ok("C24-R4", key+"|bounded builder", "-", fmt.Sprintf("%d appends to the pattern builder, all on the within-limit edge", len(appends)))
	}
}

func (x *c24x) zeroDivisor(va *core.Func) {
	c := x.c
	key := "class=zero divisor|" + c24VA + "|BinaryExpr"
	cl := c24clauseOf(va, "BinaryExpr")
	opField, rhsField, iField := x.astField("BinaryExpr", "Op"), x.astField("BinaryExpr", "RHS"), x.astField("IntLit", "I")
	if cl == nil || cl.v == nil || opField == nil || rhsField == nil || iField == nil {
		c.Undecided("C24-R4", key, pos(c, va.Decl), "no BinaryExpr clause in the after-visit (or BinaryExpr has no Op/RHS field)")
	} else {
		info := va.Info()
		g := va.Graph()
		isOp := c24fieldOf(info, cl.v, opField)
		// token values
		tok := map[string]int64{}
		if pp := c.Prog.Pkgs[c24PkgParser]; pp != nil {
			for _, nm := range []string{"DIV", "MOD"} {
				if cn, ok := pp.Types.Scope().Lookup(nm).(*types.Const); ok {
					var v int64
					fmt.Sscan(cn.Val().ExactString(), &v)
					tok[nm] = v
				}
			}
		}
		// literal-zero tests: i.I == 0 where i comes from n.RHS.(*ast.IntLit)
		litVars := map[types.Object]bool{}
		var assertPts []core.Point
		core.InspectNoLit(cl.cc, func(n ast.Node) bool {
			ta, ok := n.(*ast.TypeAssertExpr)
			if !ok || ta.Type == nil || !c24fieldOf(info, cl.v, rhsField)(ta.X) || c24kind(info.TypeOf(ta.Type)) != "IntLit" {
				return true
			}
			if pt, okp := g.PointOf(ta); okp {
				assertPts = append(assertPts, pt)
				switch as := pt.Node().(type) {
				case *ast.AssignStmt:
					if len(as.Lhs) >= 1 {
						if o := identObj(info, as.Lhs[0]); o != nil {
							litVars[o] = true
						}
					}
				}
			}
			return true
		})
		zeroEdge, _ := c24valueEdges(va, func(e ast.Expr) bool {
			sel, isS := e.(*ast.SelectorExpr)
			if !isS || info.Uses[sel.Sel] != types.Object(iField) {
				return false
			}
			if litVars[identObj(info, sel.X)] {
				return true
			}
			ta, isTA := core.Unparen(sel.X).(*ast.TypeAssertExpr)
			return isTA && c24fieldOf(info, cl.v, rhsField)(ta.X)
		}, 0)
		hits := cl.reg.knownEdges(zeroEdge)
		if len(assertPts) == 0 || len(hits) == 0 {
			c.Fail("C24-R4", key, pos(c, cl.cc), "the BinaryExpr clause has no test of the right operand being the integer literal 0: `x / 0` and `x % 0` are accepted and fail at run time on every line")
		} else {
			bad := false
			for _, e := range hits {
				if tr, found := cl.reg.path(c24edgeStart(e[0].(*cfg.Block), e[1].(int)), x.isAdd(g), x.errEdge(va), nil); found {
					bad = true
					c.Fail("C24-R4", key+"|zero => error", pos(c, cl.cc), "the right operand was found to be the literal 0 but the clause can be left without recording an error", tr...)
					break
				}
			}
			if !bad {
				c.Ok("C24-R4", key+"|zero => error", pos(c, cl.cc), "the literal-zero edge always records an error")
			}
			// the test must not be narrowed by a condition on an operand's type that is evaluated before the
			// operand types are unified: a type that is still a variable then is not Equal to Int, and the
			// division by the literal 0 is accepted
			okVars := map[types.Object]bool{}
			core.InspectNoLit(cl.cc, func(n ast.Node) bool {
				if as, ok := n.(*ast.AssignStmt); ok && len(as.Lhs) == 2 && len(as.Rhs) == 1 {
					if ta, isTA := core.Unparen(as.Rhs[0]).(*ast.TypeAssertExpr); isTA && c24fieldOf(info, cl.v, rhsField)(ta.X) {
						if o := identObj(info, as.Lhs[1]); o != nil {
							okVars[o] = true
						}
					}
				}
				return true
			})
			isZeroAtom := func(e ast.Expr) bool {
				be, ok := core.Unparen(e).(*ast.BinaryExpr)
				if !ok || be.Op != token.EQL {
					return false
				}
				for _, pr := range [][2]ast.Expr{{be.X, be.Y}, {be.Y, be.X}} {
					if sel, isS := core.Unparen(pr[0]).(*ast.SelectorExpr); isS && info.Uses[sel.Sel] == types.Object(iField) && litVars[identObj(info, sel.X)] {
						if v, isC := constInt(info, pr[1]); isC && v == 0 {
							return true
						}
					}
				}
				return false
			}
			unifies := cl.reg.calls(c24Unify, c24PkgTypes+".LeastUpperBound")
			for _, b := range cl.reg.condBlocks(isZeroAtom) {
				cond, okc := c24cond(va, b)
				if !okc {
					continue
				}
				var extra []string
				_, known := c24eval3(cond, func(a ast.Expr) (bool, bool) {
					a = core.Unparen(a)
					if isZeroAtom(a) || okVars[identObj(info, a)] {
						return true, true
					}
					if be, ok := a.(*ast.BinaryExpr); ok && (be.Op == token.EQL || be.Op == token.NEQ) && (isOp(be.X) || isOp(be.Y)) {
						return true, true
					}
					if call, ok := a.(*ast.CallExpr); ok && strings.HasPrefix(va.CalleeID(call), c24PkgTypes+".") {
						extra = append(extra, exprStr(a))
					}
					return false, false
				})
				if known || len(extra) == 0 {
					continue
				}
				bp := core.Point{B: b, I: len(b.Nodes) - 1}
				if tr, early := cl.reg.path(nil, core.At(core.HitPoints(unifies)...), nil, core.At(bp)); early {
					c.Fail("C24-R4", key+"|zero test narrowed", pos(c, b.Nodes[len(b.Nodes)-1]), "the literal-zero test is narrowed by "+strings.Join(extra, ", ")+", evaluated before the operand types are unified: where the dividend's type is still a type variable (inferred later from the rest of the program) the test fails and `x / 0`, `x % 0` are accepted although the division turns out to be an integer division", tr...)
				} else {
					c.Note("C24-R4", key+"|zero test narrowed", pos(c, b.Nodes[len(b.Nodes)-1]), "the literal-zero test is also conditional on "+strings.Join(extra, ", ")+" (evaluated after unification): not decided")
				}
			}
			// per operator: no path that fits Op = v avoids both the test and an error
			swOf := c24tagSwitches(va)
			isAdd := x.isAdd(g)
			teEdge := c24edges(va, func(a ast.Expr, truth bool) bool {
				call, ok := a.(*ast.CallExpr)
				return ok && truth && va.CalleeID(call) == c24IsTE
			})
			for _, nm := range []string{"DIV", "MOD"} {
				v, have := tok[nm]
				k := key + "|Op=" + nm
				if !have {
					c.Undecided("C24-R4", k, "-", "token constant parser."+nm+" not found")
					continue
				}
				opAtom := func(a ast.Expr) (bool, bool) {
					be, ok := core.Unparen(a).(*ast.BinaryExpr)
					if !ok || (be.Op != token.EQL && be.Op != token.NEQ) {
						return false, false
					}
					for _, pr := range [][2]ast.Expr{{be.X, be.Y}, {be.Y, be.X}} {
						if isOp(pr[0]) {
							if cv, isC := constInt(info, pr[1]); isC {
								return (cv == v) == (be.Op == token.EQL), true
							}
						}
					}
					return false, false
				}
				infeasible := func(b *cfg.Block, si int) bool {
					if cond, ok := c24cond(va, b); ok {
						val, known := c24eval3(cond, opAtom)
						return known && val != (si == 0)
					}
					// a case value of `switch n.Op`
					if len(b.Succs) == 2 && len(b.Nodes) > 0 {
						if e, isE := b.Nodes[len(b.Nodes)-1].(ast.Expr); isE {
							if sw := swOf[e]; sw != nil && isOp(sw.Tag) {
								if cv, isC := constInt(info, e); isC {
									return (cv == v) != (si == 0)
								}
							}
						}
					}
					return false
				}
				tr, found := cl.reg.path(nil, func(p core.Point) bool { return isAdd(p) || core.At(assertPts...)(p) }, c24orEdges(infeasible, teEdge, x.errEdge(va)), nil)
				c.Verdict(!found, "C24-R4", k, pos(c, cl.cc), "every path that fits this operator reaches the literal-zero test or an error (operand-already-in-error edges excepted)",
					"for the operator "+nm+" the BinaryExpr clause can be left without reaching the literal-zero test of the right operand and without an error: `x "+map[string]string{"DIV": "/", "MOD": "%"}[nm]+" 0` is accepted", tr...)
			}
		}
	}
	// the constant folder
	of := c.MustFn("C24-R4", c24OptVA)
	if of == nil {
		return
	}
	g := of.Graph()
	info := of.Info()
	reg := c24whole(of)
	ndiv := 0
	for _, h := range g.Find(func(n ast.Node) bool {
		be, ok := n.(*ast.BinaryExpr)
		if !ok || (be.Op != token.QUO && be.Op != token.REM) {
			return false
		}
		b, isB := info.TypeOf(be).Underlying().(*types.Basic)
		return isB && b.Info()&types.IsInteger != 0 && info.Types[be].Value == nil
	}) {
		ndiv++
		be := h.N.(*ast.BinaryExpr)
		k := fmt.Sprintf("class=zero divisor|%s|integer %s#%d", c24OptVA, be.Op, ndiv)
		dsel, ok := core.Unparen(be.Y).(*ast.SelectorExpr)
		if !ok {
			c.Undecided("C24-R4", k, pos(c, be), "divisor is not a literal's value field")
			continue
		}
		same := func(e ast.Expr) bool {
			s, ok := core.Unparen(e).(*ast.SelectorExpr)
			return ok && info.Uses[s.Sel] == info.Uses[dsel.Sel] && identObj(info, s.X) != nil && identObj(info, s.X) == identObj(info, dsel.X)
		}
		isZero, nonZero := c24valueEdges(of, same, 0)
		tr, found := reg.path(nil, nil, nonZero, core.At(h.P))
		c.Verdict(!found, "C24-R4", k, pos(c, be), "reached only over the divisor-is-not-zero edge",
			"the constant folder evaluates an integer "+be.Op.String()+" whose divisor literal was not tested against 0 on this path: `1 "+be.Op.String()+" 0` panics the compiler instead of being rejected with a positioned error", tr...)
		bad := false
		for _, e := range reg.knownEdges(isZero) {
			if t, f2 := reg.path(c24edgeStart(e[0].(*cfg.Block), e[1].(int)), x.isAdd(g), nil, nil); f2 {
				bad = true
				c.Fail("C24-R4", k+"|zero => error", pos(c, be), "the folder found the divisor literal to be 0 but can return without recording an error: the division by the literal 0 is accepted", t...)
				break
			}
		}
		if !bad {
			c.Ok("C24-R4", k+"|zero => error", pos(c, be), "the divisor-is-zero edge always records an error")
		}
	}
	if ndiv == 0 {
		c.Note("C24-R4", "class=zero divisor|"+c24OptVA, pos(c, of.Decl), "the constant folder performs no Go integer division")
	}
}

// c24valueEdges builds the edge predicates "the subject is known to equal the
// integer constant v" and "… known to differ from it".  Recognised tests:
// `S == c`, `c == S`, `S != c` (inside any !/&&/|| skeleton), a case value of
// `switch S { case c: }`, and the same through a local whose only definition is S.
func c24valueEdges(f *core.Func, isSubject func(ast.Expr) bool, v int64) (eq, ne func(*cfg.Block, int) bool) {
	info := f.Info()
	subj := func(e ast.Expr) bool {
		e = core.Unparen(e)
		if isSubject(e) {
			return true
		}
		if d, ok := c24soleDef(f, identObj(info, e)); ok && !d.tuple {
			return isSubject(core.Unparen(d.rhs))
		}
		return false
	}
	sw := c24tagSwitches(f)
	mk := func(wantEq bool) func(*cfg.Block, int) bool {
		atoms := c24edges(f, func(a ast.Expr, truth bool) bool {
			be, ok := a.(*ast.BinaryExpr)
			if !ok || (be.Op != token.EQL && be.Op != token.NEQ) {
				return false
			}
			for _, pr := range [][2]ast.Expr{{be.X, be.Y}, {be.Y, be.X}} {
				if subj(pr[0]) {
					if cv, isC := constInt(info, pr[1]); isC && cv == v {
						return (truth == (be.Op == token.EQL)) == wantEq
					}
				}
			}
			return false
		})
		return func(b *cfg.Block, si int) bool {
			if atoms(b, si) {
				return true
			}
			if len(b.Succs) == 2 && len(b.Nodes) > 0 {
				if e, isE := b.Nodes[len(b.Nodes)-1].(ast.Expr); isE {
					if s := sw[e]; s != nil && subj(s.Tag) {
						if cv, isC := constInt(info, e); isC && cv == v {
							return (si == 0) == wantEq
						}
					}
				}
			}
			return false
		}
	}
	return mk(true), mk(false)
}

// c24tagSwitches maps every case value expression of a tagged switch in f to its switch statement.
func c24tagSwitches(f *core.Func) map[ast.Expr]*ast.SwitchStmt {
	out := map[ast.Expr]*ast.SwitchStmt{}
	core.InspectNoLit(f.Body, func(n ast.Node) bool {
		if sw, ok := n.(*ast.SwitchStmt); ok && sw.Tag != nil {
			for _, st := range sw.Body.List {
				for _, e := range st.(*ast.CaseClause).List {
					out[e] = sw
				}
			}
		}
		return true
	})
	return out
}

// ---------------------------------------------------------------------------
// R5: symbol-table discipline

func (x *c24x) r5() {
	c := x.c
	c.Rule("C24-R5", "SYMBOL-TABLE: (a) Scope.Insert stores into the symbol map only on the edge where the slot for that same name was found empty (an occupied name is never overwritten, whatever its kind) and, once the slot was found occupied, returns the occupant; (b) Symbol.Used is assigned only the constant true, only in the IDTerm / CaprefTerm / DecoStmt clauses of the checker's before-visit, on a symbol obtained from Scope.Lookup, and NewSymbol creates symbols unused")
	// (a)
	if f := c.MustFn("C24-R5", c24Insert); f != nil {
		g := f.Graph()
		info := f.Info()
		reg := c24whole(f)
		symbols := x.pkgField(c24PkgSymbol, "Scope", "Symbols")
		isMap := func(e ast.Expr) bool {
			ix, ok := core.Unparen(e).(*ast.IndexExpr)
			return ok && c24fieldOf(info, nil, symbols)(ix.X)
		}
		var occupant, okVar types.Object
		var lookupKey ast.Expr
		var stores []core.Hit
		for _, h := range g.Find(func(n ast.Node) bool { _, ok := n.(*ast.AssignStmt); return ok }) {
			as := h.N.(*ast.AssignStmt)
			if len(as.Lhs) == 1 && len(as.Rhs) == 1 && isMap(as.Rhs[0]) {
				occupant = identObj(info, as.Lhs[0])
				lookupKey = core.Unparen(as.Rhs[0]).(*ast.IndexExpr).Index
			}
			if len(as.Lhs) == 2 && len(as.Rhs) == 1 && isMap(as.Rhs[0]) {
				occupant = identObj(info, as.Lhs[0])
				okVar = identObj(info, as.Lhs[1])
				lookupKey = core.Unparen(as.Rhs[0]).(*ast.IndexExpr).Index
			}
			for _, l := range as.Lhs {
				if isMap(l) {
					stores = append(stores, h)
				}
			}
		}
		key := c24Insert
		if occupant == nil || len(stores) == 0 {
			c.Undecided("C24-R5", key, pos(c, f.Decl), "Scope.Insert does not read the slot into a variable and store into the same map: shape outside the recognised family")
		} else {
			sameKey := func(a, b ast.Expr) bool {
				sa, ok1 := core.Unparen(a).(*ast.SelectorExpr)
				sb, ok2 := core.Unparen(b).(*ast.SelectorExpr)
				if ok1 && ok2 {
					return info.Uses[sa.Sel] == info.Uses[sb.Sel] && identObj(info, sa.X) != nil && identObj(info, sa.X) == identObj(info, sb.X)
				}
				return identObj(info, a) != nil && identObj(info, a) == identObj(info, b)
			}
			okEdge := func(want bool) func(*cfg.Block, int) bool {
				return c24edges(f, func(a ast.Expr, truth bool) bool {
					return okVar != nil && identObj(info, a) == okVar && truth == want
				})
			}
			emptyEdge := c24orEdges(c24nilEdges(f, c24isObj(info, occupant)), okEdge(false))
			for i, s := range stores {
				as := s.N.(*ast.AssignStmt)
				k := fmt.Sprintf("%s|store#%d only into an empty slot", key, i+1)
				var ix *ast.IndexExpr
				for _, l := range as.Lhs {
					if isMap(l) {
						ix = core.Unparen(l).(*ast.IndexExpr)
					}
				}
				if !sameKey(ix.Index, lookupKey) {
					c.Undecided("C24-R5", k, pos(c, as), "the store uses a different key expression from the lookup")
					continue
				}
				tr, found := reg.path(nil, nil, emptyEdge, core.At(s.P))
				c.Verdict(!found, "C24-R5", k, pos(c, as), "reached only over the slot-is-empty edge",
					"Scope.Insert can store the new symbol although the name is already taken in this scope (for instance by a symbol of another kind): the earlier declaration is replaced, so the redeclaration is not reported and the replaced declaration is never reported as unused", tr...)
			}
			// returns the occupant once the slot was found occupied
			bad := false
			edges := reg.knownEdges(c24orEdges(c24nonNilEdges(f, c24isObj(info, occupant)), okEdge(true)))
			for _, e := range edges {
				goal := func(p core.Point) bool {
					r, ok := p.Node().(*ast.ReturnStmt)
					if !ok {
						return false
					}
					if len(r.Results) == 0 {
						return !c24isNamedResult(f, occupant)
					}
					return identObj(info, r.Results[0]) != occupant
				}
				if tr, found := reg.path(c24edgeStart(e[0].(*cfg.Block), e[1].(int)), nil, nil, goal); found {
					bad = true
					c.Fail("C24-R5", key+"|returns the occupant", pos(c, f.Decl), "after finding the name already present Scope.Insert can return something other than the existing symbol (nil = `inserted`): the checker sees no collision and accepts the redeclaration", tr...)
					break
				}
			}
			if len(edges) == 0 {
				c.Fail("C24-R5", key+"|returns the occupant", pos(c, f.Decl), "Scope.Insert never distinguishes an occupied slot")
			} else if !bad {
				c.Ok("C24-R5", key+"|returns the occupant", pos(c, f.Decl), "on the slot-is-occupied edge every return yields the occupant")
			}
		}
		if fa := c.Prog.Fn(c24InsAlias); fa != nil {
			c.Note("C24-R5", c24InsAlias, pos(c, fa.Decl), "not judged: it serves capture-group names only, whose redeclaration is outside the statement's classes (its result variable is shadowed by `alt :=`, so it always returns nil: collisions of capture-group aliases are not reported; the numeric names collide first in every case a program can produce)")
		}
	}
	// (b)
	usedField := x.pkgField(c24PkgSymbol, "Symbol", "Used")
	vb := c.Prog.Fn(c24VB)
	nw := 0
	for _, k := range c.Prog.SortedFuncKeys() {
		sf := c.Prog.Funcs[k]
		if c.Prog.IsTestSupport(sf) || !strings.HasPrefix(core.Rel(sf.Pkg.PkgPath), "internal/runtime") {
			continue
		}
		info := sf.Info()
		core.InspectNoLit(sf.Body, func(n ast.Node) bool {
			if lit, ok := n.(*ast.FuncLit); ok && lit != sf.Lit {
				return false
			}
			as, ok := n.(*ast.AssignStmt)
			if !ok || len(as.Lhs) != len(as.Rhs) {
				return true
			}
			for i, l := range as.Lhs {
				sel, isS := core.Unparen(l).(*ast.SelectorExpr)
				if !isS || usedField == nil || info.Uses[sel.Sel] != types.Object(usedField) {
					continue
				}
				nw++
				key := fmt.Sprintf("%s|Used write#%d", sf.Key, nw)
				v, isC := constBool(info, as.Rhs[i])
				inClause := ""
				if sf == vb {
					for _, cl := range c24clauses(vb) {
						if cl.reg.contains(as) && len(cl.kinds) == 1 {
							inClause = cl.kinds[0]
						}
					}
				}
				fromLookup := false
				if d, okd := c24soleDef(sf, identObj(info, sel.X)); okd {
					if call, isCall := core.Unparen(d.rhs).(*ast.CallExpr); isCall && sf.CalleeID(call) == c24Lookup {
						fromLookup = true
					}
				}
				okw := isC && v && fromLookup && (inClause == "IDTerm" || inClause == "CaprefTerm" || inClause == "DecoStmt")
				c.Verdict(okw, "C24-R5", key, pos(c, as), "marks a symbol found by Lookup in the "+inClause+" clause",
					"Symbol.Used is written here, outside a use site (IDTerm/CaprefTerm/DecoStmt clause of the checker's before-visit, on the result of Scope.Lookup, constant true): a declaration marked used without a use is never reported as unused")
			}
			return true
		})
	}
	if ns := c.Prog.Fn(c24NewSym); ns != nil && usedField != nil {
		okInit := false
		ast.Inspect(ns.Body, func(n ast.Node) bool {
			cl, ok := n.(*ast.CompositeLit)
			if !ok {
				return true
			}
			st, isS := ns.Info().TypeOf(cl).Underlying().(*types.Struct)
			if !isS {
				return true
			}
			okInit = true
			for i, el := range cl.Elts {
				var val ast.Expr
				if kv, isKV := el.(*ast.KeyValueExpr); isKV {
					if id, isI := kv.Key.(*ast.Ident); isI && ns.Info().Uses[id] == types.Object(usedField) {
						val = kv.Value
					}
				} else if i < st.NumFields() && st.Field(i) == usedField {
					val = el
				}
				if val != nil {
					if v, isC := constBool(ns.Info(), val); !isC || v {
						okInit = false
					}
				}
			}
			return true
		})
		c.Verdict(okInit, "C24-R5", c24NewSym+"|Used initially false", pos(c, ns.Decl), "new symbols start unused", "NewSymbol creates symbols already marked used: no declaration is ever reported as unused")
	}
	c.Floor("C24-R5", 7)
}

// ---------------------------------------------------------------------------
// R6: type errors are reported

func (x *c24x) r6() {
	c := x.c
	c.Rule("C24-R6", "TYPE-ERRORS-REPORTED: in the checker's after-visit the success edge of every types.AsTypeError(t, &err) test (a type error newly produced by Unify / LeastUpperBound, as opposed to IsTypeError which propagates one already reported) leads to an error on every path out of the function")
	va := c.MustFn("C24-R6", c24VA)
	if va == nil {
		return
	}
	g := va.Graph()
	reg := c24whole(va)
	ord := map[string]int{}
	teBlocks := reg.condBlocks(func(a ast.Expr) bool {
		call, ok := a.(*ast.CallExpr)
		return ok && va.CalleeID(call) == c24AsTE
	})
	sort.Slice(teBlocks, func(i, j int) bool {
		ci, _ := c24cond(va, teBlocks[i])
		cj, _ := c24cond(va, teBlocks[j])
		return ci.Pos() < cj.Pos()
	})
	for _, b := range teBlocks {
		cond, _ := c24cond(va, b)
		ctx := "outside the type switch"
		for _, cl := range c24clauses(va) {
			if cl.reg.contains(cond) && len(cl.kinds) > 0 {
				ctx = strings.Join(cl.kinds, ",")
			}
		}
		ord[ctx]++
		key := fmt.Sprintf("%s|%s|AsTypeError#%d", c24VA, ctx, ord[ctx])
		isTE := c24edges(va, func(a ast.Expr, truth bool) bool {
			call, ok := a.(*ast.CallExpr)
			return ok && truth && va.CalleeID(call) == c24AsTE
		})
		bad := false
		known := false
		for si := 0; si < 2; si++ {
			if !isTE(b, si) {
				continue
			}
			known = true
			if tr, found := reg.path(c24edgeStart(b, si), x.isAdd(g), x.errEdge(va), nil); found {
				bad = true
				c.Fail("C24-R6", key, pos(c, cond), "a type error detected here can leave the after-visit without an error being recorded: the ill-typed expression (for an index expression: the wrong number of keys) is accepted", tr...)
			}
		}
		if !known {
			c.Undecided("C24-R6", key, pos(c, cond), "the AsTypeError test is part of a condition whose success edge does not imply it")
		} else if !bad {
			c.Ok("C24-R6", key, pos(c, cond), "the type-error edge always records an error")
		}
	}
	c.Floor("C24-R6", 12)
}
