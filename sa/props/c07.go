package props

import (
	"fmt"
	"go/ast"
	"go/token"
	"go/types"
	"strings"

	"verif/sa/core"
)

// nthParam returns the object of the i-th parameter of f (nil if unnamed or absent).
func nthParam(f *core.Func, i int) types.Object {
	k := 0
	for _, fl := range f.Type.Params.List {
		if len(fl.Names) == 0 {
			k++
			continue
		}
		for _, n := range fl.Names {
			if k == i {
				return f.Info().Defs[n]
			}
			k++
		}
	}
	return nil
}

// reachableAvoiding reports a path from the entry of g to p that takes no edge
// carrying a condFact for which pred holds.
func reachableAvoiding(g *core.Graph, ef edgeFacts, p core.Point, pred func(condFact) bool) ([]string, bool) {
	tr, found := g.Search(core.Query{Goal: core.At(p), AvoidEdge: ef.avoid(pred)})
	return g.Trail(tr), found
}

func factIs(id, val string) func(condFact) bool {
	return func(f condFact) bool { return f.id == id && f.eq && f.val == val }
}

// callOn reports whether e (locals resolved) is a call of the method/function with the given callee id, and returns it.
func callOn(f *core.Func, e ast.Expr, id string) (*ast.CallExpr, bool) {
	call, ok := throughLocals(f, e).(*ast.CallExpr)
	if !ok || f.CalleeID(call) != id {
		return nil, false
	}
	return call, true
}

func c07(c *core.Check) {
	c.Explain = "Decides structural necessary conditions of C07 on the VM: (R0) the strptime memo is transparent (same rule as C05-R2: key covers value and layout, failed parses are not stored, the current-year fix-up is inside the memoised function so hits and misses agree); (R1) argument roles: the first value popped by strptime is the layout and the second the value, and they reach time.Parse / time.ParseInLocation in the (layout, value) positions, the location variant being reached only when v.loc is known to be non-nil and passing v.loc; the zero-year replacement is reached only when the parsed year is zero and the syslog option is on; (R2) the time register is written only by the strptime and settime instructions, settime stores time.Unix(n, 0), timestamp() pushes the register unless it is zero, else time.Now(); (R3) every datum update in the VM passes the time register as its timestamp and the datum layer substitutes time.Now() only for the zero time. Conditions are read through their control-flow meaning, not their spelling (either operand order, negation with swapped branches, early return, nesting, locals and helper functions are the same to the rules). What time.Parse returns and wall-clock values are not decided."
	c.Assume = append(c.Assume, "time.Parse/ParseInLocation semantics", "the checker requires strptime's layout to be a string literal")
	c05memo(c, "C07-R0")
	vm := extractVM(c)
	exe := c.Prog.Fn(vmExecute)
	pt := c.MustFn("C07-R1", vmParseTime)
	if vm == nil || exe == nil || pt == nil {
		c.Undecided("C07-R1", vmExecute, "-", "VM table not extracted")
		return
	}
	info := exe.Info()

	c.Rule("C07-R1", "ROLES: in the Strptime case ParseTime is called with (first popped string, second popped string); ParseTime passes its (first, second) parameters in that order to time.Parse and to time.ParseInLocation with v.loc; ParseInLocation is reached only over an edge on which v.loc is known to be non-nil and Parse only over one on which it is nil; the year fix-up AddDate(<now>.Year(), 0, 0) is made by ParseTime (or a function it calls) and reached only where the parsed year is known to be zero and v.syslogUseCurrentYear to be set")
	sc := vm.Cases["Strptime"]
	if sc == nil || len(sc.Pops) < 2 {
		c.Undecided("C07-R1", "Strptime case", "-", "case not found or has fewer than two pops")
	} else {
		layoutVar := sc.Pops[0].Var
		var ptCall *ast.CallExpr
		vm.inspectCase(sc, func(n ast.Node) bool {
			if call, ok := n.(*ast.CallExpr); ok && exe.CalleeID(call) == vmParseTime {
				ptCall = call
			}
			return true
		})
		if ptCall == nil {
			c.Fail("C07-R1", "Strptime calls ParseTime", pos(c, exe.Decl), "the strptime instruction no longer parses through ParseTime")
		} else {
			okLayout := identObj(info, ptCall.Args[0]) == layoutVar && layoutVar != nil && sc.Pops[0].Kind == "PopString"
			c.Verdict(okLayout, "C07-R1", "Strptime layout = first pop", pos(c, ptCall), "layout is the value on top of the stack (strptime's 2nd argument)", "ParseTime's layout argument is not the first popped string: value and layout are swapped")
			// the ts variable must be assigned from the second pop's string form
			tsObj := identObj(info, ptCall.Args[1])
			okVal := false
			// the value is bound in the `case string:` clause of a type switch on the second pop:
			// `switch s := <second pop>.(type) { case string: ts = s … }`
			vm.inspectCase(sc, func(n ast.Node) bool {
				sw, ok := n.(*ast.TypeSwitchStmt)
				if !ok || tsObj == nil {
					return true
				}
				var subject ast.Expr
				switch g := sw.Assign.(type) {
				case *ast.AssignStmt:
					if len(g.Rhs) == 1 {
						if ta, ok := core.Unparen(g.Rhs[0]).(*ast.TypeAssertExpr); ok {
							subject = ta.X
						}
					}
				case *ast.ExprStmt:
					if ta, ok := core.Unparen(g.X).(*ast.TypeAssertExpr); ok {
						subject = ta.X
					}
				}
				second := sc.Pops[1]
				onSecond := subject != nil && (core.Unparen(subject) == ast.Expr(second.Call) || (second.Var != nil && identObj(info, subject) == second.Var))
				if !onSecond {
					return true
				}
				for _, cl := range sw.Body.List {
					cc := cl.(*ast.CaseClause)
					isString := false
					for _, te := range cc.List {
						if t := info.TypeOf(te); t != nil && t.String() == "string" {
							isString = true
						}
					}
					if !isString || len(cc.List) != 1 {
						continue
					}
					bound := info.Implicits[cc]
					for _, st := range cc.Body {
						if as, ok := st.(*ast.AssignStmt); ok && len(as.Lhs) == 1 && len(as.Rhs) == 1 && identObj(info, as.Lhs[0]) == tsObj {
							r := core.Unparen(as.Rhs[0])
							if id, isID := r.(*ast.Ident); isID && bound != nil && info.Uses[id] == bound {
								okVal = true
							} else if ta, isTA := r.(*ast.TypeAssertExpr); isTA && second.Var != nil && identObj(info, ta.X) == second.Var {
								okVal = true // `switch v.(type) { case string: ts = v.(string) }`
							}
						}
					}
				}
				return true
			})
			c.Verdict(okVal, "C07-R1", "Strptime value = second pop", pos(c, ptCall), "value is the second popped string", "ParseTime's value argument does not come from the second popped value")
		}
	}
	{
		g := pt.Graph()
		pinfo := pt.Info()
		// roles by position: ParseTime(layout, value), as the Strptime case calls it
		lay, val := nthParam(pt, 0), nthParam(pt, 1)
		if lay == nil || val == nil {
			c.Undecided("C07-R1", "ParseTime parameters", pos(c, pt.Decl), "ParseTime does not have two named parameters")
		}
		locFacts := graphFacts(g, func(e ast.Expr) (condFact, bool) {
			if x, nonNilWhenTrue, ok := nilTest(pinfo, e); ok && fieldOfType(pt, x, "vm.VM", "loc") {
				if nonNilWhenTrue {
					return condFact{"loc set", "true", true}, true
				}
				return condFact{"loc set", "false", true}, true
			}
			return condFact{}, false
		})
		for _, want := range []string{"time.Parse", "time.ParseInLocation"} {
			hs := g.CallsTo(want)
			if len(hs) != 1 {
				c.Fail("C07-R1", "ParseTime calls "+want, pos(c, pt.Decl), fmt.Sprintf("expected one call of %s, found %d", want, len(hs)))
				continue
			}
			call := hs[0].N.(*ast.CallExpr)
			okArgs := lay != nil && val != nil && identObj(pinfo, call.Args[0]) == lay && identObj(pinfo, call.Args[1]) == val
			why := "the parse call does not receive (layout, value) in that order: timestamps are parsed with swapped roles"
			if want == "time.ParseInLocation" {
				if okArgs && !(len(call.Args) == 3 && fieldOfType(pt, call.Args[2], "vm.VM", "loc")) {
					okArgs, why = false, "ParseInLocation is not given the VM's configured location v.loc: timestamps are parsed in the wrong zone"
				}
				if tr, unguarded := reachableAvoiding(g, locFacts, hs[0].P, factIs("loc set", "true")); okArgs && unguarded {
					c.Fail("C07-R1", "ParseTime -> "+want, pos(c, call), "ParseInLocation is reached on a path where v.loc has not been found non-nil: the zone-aware parse is not chosen by the v.loc test", tr...)
					continue
				}
			} else {
				if tr, unguarded := reachableAvoiding(g, locFacts, hs[0].P, factIs("loc set", "false")); okArgs && unguarded {
					c.Fail("C07-R1", "ParseTime -> "+want, pos(c, call), "time.Parse (UTC) is reached on a path where v.loc has not been found nil: a configured time zone is ignored", tr...)
					continue
				}
			}
			c.Verdict(okArgs, "C07-R1", "ParseTime -> "+want, pos(c, call), "(layout, value) in order, zone variant chosen by v.loc", why)
		}
		// the zero-year fix-up: inside the memoised function (ParseTime or a function it calls)
		type site struct {
			f *core.Func
			h core.Hit
		}
		var fix []site
		for _, hf := range closureAvoiding(pt, vmErrorf) {
			if hf.Pkg != pt.Pkg {
				continue
			}
			for _, h := range hf.Graph().CallsTo("time.Time.AddDate") {
				fix = append(fix, site{hf, h})
			}
		}
		okYear, whyYear := len(fix) == 1, fmt.Sprintf("%d AddDate calls found in ParseTime and the functions it calls, expected 1", len(fix))
		var trYear []string
		if okYear {
			hf, h := fix[0].f, fix[0].h
			c.Analysed(hf)
			call := h.N.(*ast.CallExpr)
			hinfo := hf.Info()
			_, yearOfNow := callOn(hf, call.Args[0], "time.Time.Year")
			z1, c1 := constInt(hinfo, call.Args[1])
			z2, c2 := constInt(hinfo, call.Args[2])
			if !(len(call.Args) == 3 && yearOfNow && c1 && c2 && z1 == 0 && z2 == 0) {
				okYear, whyYear = false, "the fix-up is not AddDate(<now>.Year(), 0, 0)"
			} else {
				ef := graphFacts(hf.Graph(), func(e ast.Expr) (condFact, bool) {
					if fieldOfType(hf, e, "vm.VM", "syslogUseCurrentYear") {
						return condFact{"option", "true", true}, true
					}
					if b, ok := core.Unparen(e).(*ast.BinaryExpr); ok && (b.Op == token.EQL || b.Op == token.NEQ) {
						for _, p := range [][2]ast.Expr{{b.X, b.Y}, {b.Y, b.X}} {
							if _, isYear := callOn(hf, p[0], "time.Time.Year"); isYear {
								if n, isC := constInt(hinfo, p[1]); isC && n == 0 {
									if b.Op == token.EQL {
										return condFact{"year zero", "true", true}, true
									}
									return condFact{"year zero", "false", true}, true
								}
							}
						}
					}
					return condFact{}, false
				})
				if tr, un := reachableAvoiding(hf.Graph(), ef, h.P, factIs("year zero", "true")); un {
					okYear, whyYear, trYear = false, "the current year is added on a path where the parsed year has not been found to be zero", tr
				} else if tr, un := reachableAvoiding(hf.Graph(), ef, h.P, factIs("option", "true")); un {
					okYear, whyYear, trYear = false, "the current year is added on a path where v.syslogUseCurrentYear has not been found set", tr
				}
			}
		}
		c.Verdict(okYear, "C07-R1", "ParseTime zero-year fix-up", pos(c, pt.Decl), "AddDate(now.Year(),0,0) only where the year is zero and the option is on, inside the memoised function", "the current-year replacement is not applied inside ParseTime exactly when the parsed year is zero and the option is on ("+whyYear+"; moved outside the memoised function, it is skipped on memo hits)", trYear...)
		// errors are reported and lead to return
		errs := g.CallsTo(vmErrorf)
		c.Verdict(len(errs) >= 1, "C07-R1", "ParseTime reports failure", pos(c, pt.Decl), "errorf on parse failure", "a failed time parse is not reported as a runtime error")
	}
	c.Floor("C07-R1", 6)

	c.Rule("C07-R2", "REGISTER: thread.time is assigned only in the Strptime and Settime cases of execute (or helper functions those cases hand the thread to); Settime assigns time.Unix(n, 0) (optionally .UTC()) with n the popped integer; Timestamp pushes <thread>.time.Unix() only where the register is known not to be zero and time.Now().Unix() only where it is known to be zero")
	// nodes belonging to the two cases, helper bodies included
	inCases := map[ast.Node]string{}
	for _, op := range []string{"Strptime", "Settime"} {
		if vc := vm.Cases[op]; vc != nil {
			op := op
			vm.inspectCase(vc, func(n ast.Node) bool {
				if _, ok := n.(*ast.AssignStmt); ok {
					inCases[n] = op
				}
				return true
			})
		}
	}
	nreg := 0
	for _, sf := range shipped(c) {
		if core.Rel(sf.Pkg.PkgPath) != "internal/runtime/vm" || sf.Lit != nil {
			continue
		}
		sf := sf
		ast.Inspect(sf.Body, func(n ast.Node) bool {
			as, ok := n.(*ast.AssignStmt)
			if !ok {
				return true
			}
			for k, l := range as.Lhs {
				if !isFieldOf(sf.Info(), l, "vm.thread", "time") {
					continue
				}
				// a reset to the zero time (time.Time{}) outside the instruction cases clears the register, which is
				// what a fresh thread has: not a write of an instant
				if _, inCase := inCases[as]; !inCase && len(as.Lhs) == len(as.Rhs) && c07BeforeInstructions(c, sf, as) {
					if cl, isLit := core.Unparen(as.Rhs[k]).(*ast.CompositeLit); isLit && len(cl.Elts) == 0 {
						continue
					}
				}
				nreg++
				op, okSite := inCases[as]
				c.Verdict(okSite, "C07-R2", fmt.Sprintf("time register write #%d in %s", nreg, sf.Key), pos(c, as), "strptime/settime only", "the time register is written outside the strptime and settime instructions")
				if op == "Settime" && len(as.Lhs) == len(as.Rhs) {
					hf := funcContaining(c, as)
					if hf == nil {
						hf = sf
					}
					rhs := throughLocals(hf, as.Rhs[k])
					// strip .UTC()
					if u, isUTC := callOn(hf, rhs, "time.Time.UTC"); isUTC {
						rhs = throughLocals(hf, core.RecvExpr(u))
					}
					okv, whyv := false, "the stored value is not built by time.Unix"
					if u, isUnix := callOn(hf, rhs, "time.Unix"); isUnix && len(u.Args) == 2 {
						nsec, isC := constInt(hf.Info(), u.Args[1])
						var popVar types.Object
						if vc := vm.Cases["Settime"]; vc != nil && len(vc.Pops) == 1 && vc.Pops[0].Kind == "PopInt" {
							popVar = vc.Pops[0].Var
						}
						switch {
						case !isC || nsec != 0:
							whyv = "the nanosecond argument of time.Unix is not 0"
						case popVar == nil || identObj(hf.Info(), u.Args[0]) != popVar:
							whyv = "the seconds argument of time.Unix is not the integer popped by the instruction"
						default:
							okv = true
						}
					}
					c.Verdict(okv, "C07-R2", "Settime value", pos(c, as), "time.Unix(n, 0)", "settime does not store time.Unix(n, 0): "+whyv+" ("+exprStr(as.Rhs[k])+")")
				}
			}
			return true
		})
	}
	if tc := vm.Cases["Timestamp"]; tc != nil {
		// classify every push of the case
		type push struct {
			f    *core.Func
			call *ast.CallExpr
			kind string
		}
		var pushes []push
		vm.inspectCase(tc, func(n ast.Node) bool {
			call, ok := n.(*ast.CallExpr)
			if !ok || exe.CalleeID(call) != "internal/runtime/vm.(*thread).Push" || len(call.Args) != 1 {
				return true
			}
			hf := funcContaining(c, call)
			if hf == nil {
				return true
			}
			kind := "other"
			if u, isUnix := callOn(hf, call.Args[0], "time.Time.Unix"); isUnix {
				recv := core.RecvExpr(u)
				if _, isNow := callOn(hf, recv, "time.Now"); isNow {
					kind = "now"
				} else if fieldOfType(hf, recv, "vm.thread", "time") {
					kind = "register"
				}
			}
			pushes = append(pushes, push{hf, call, kind})
			return true
		})
		okT, whyT := true, ""
		var trT []string
		seen := map[string]int{}
		for _, p := range pushes {
			seen[p.kind]++
			g := p.f.Graph()
			ef := graphFacts(g, func(e ast.Expr) (condFact, bool) {
				if z, ok := core.Unparen(e).(*ast.CallExpr); ok && p.f.CalleeID(z) == "time.Time.IsZero" && fieldOfType(p.f, core.RecvExpr(z), "vm.thread", "time") {
					return condFact{"register zero", "true", true}, true
				}
				return condFact{}, false
			})
			pp, found := g.PointOf(p.call)
			if !found {
				okT, whyT = false, "a push of the case is not in the control-flow graph"
				continue
			}
			switch p.kind {
			case "now":
				if tr, un := reachableAvoiding(g, ef, pp, factIs("register zero", "true")); un {
					okT, whyT, trT = false, "the wall clock is pushed on a path where the time register has not been found zero: an instant set by strptime/settime is ignored", tr
				}
			case "register":
				if tr, un := reachableAvoiding(g, ef, pp, factIs("register zero", "false")); un {
					okT, whyT, trT = false, "the time register is pushed on a path where it has not been found non-zero: an unset register yields year 1 instead of the current time", tr
				}
			default:
				okT, whyT = false, "timestamp pushes something that is neither <thread>.time.Unix() nor time.Now().Unix(): "+exprStr(p.call.Args[0])
			}
		}
		if okT && (seen["now"] == 0 || seen["register"] == 0) {
			okT, whyT = false, fmt.Sprintf("expected a push of the register and a push of the wall clock, found %d and %d", seen["register"], seen["now"])
		}
		c.Verdict(okT, "C07-R2", "Timestamp", pos(c, exe.Decl), "register unless zero, else now", "timestamp() does not push the time register's Unix time when it is set and the wall clock otherwise ("+whyT+")", trT...)
	} else {
		c.Undecided("C07-R2", "Timestamp", "-", "case not found")
	}
	if pll := c.MustFn("C07-R2", processLogLine); pll != nil {
		// the register lives in the per-line thread: "otherwise it returns the current wall-clock time" needs a fresh (zero) register per line
		threadFreshness(c, "C07-R2", pll)
	}
	c.Floor("C07-R2", 8)

	c.Rule("C07-R3", "STAMP: every datum update call made by execute and the vm functions it calls (datum.SetInt/SetFloat/SetString/IncIntBy/DecIntBy) passes the field `time` of the thread as its timestamp; BaseDatum.stamp stores a time.Now() value only where its argument is known to be zero and the argument only where it is known not to be")
	nst := 0
	for _, hf := range closureAvoiding(exe, vmErrorf) {
		if hf.Pkg != exe.Pkg {
			continue
		}
		hf := hf
		ast.Inspect(hf.Body, func(n ast.Node) bool {
			call, ok := n.(*ast.CallExpr)
			if !ok {
				return true
			}
			id := hf.CalleeID(call)
			switch id {
			case "internal/metrics/datum.SetInt", "internal/metrics/datum.SetFloat", "internal/metrics/datum.SetString", "internal/metrics/datum.IncIntBy", "internal/metrics/datum.DecIntBy":
				nst++
				last := call.Args[len(call.Args)-1]
				lf := funcContaining(c, call)
				if lf == nil {
					lf = hf
				}
				c.Verdict(fieldOfType(lf, last, "vm.thread", "time"), "C07-R3", fmt.Sprintf("%s #%d", id[strings.LastIndex(id, ".")+1:], nst), pos(c, call), "stamped with the time register", "a datum update is not stamped with the time register ("+exprStr(last)+"): the datum does not carry the instant set by strptime/settime")
			}
			return true
		})
	}
	if sf := c.MustFn("C07-R3", "internal/metrics/datum.(*BaseDatum).stamp"); sf != nil {
		g := sf.Graph()
		sinfo := sf.Info()
		given := nthParam(sf, 0)
		ef := graphFacts(g, func(e ast.Expr) (condFact, bool) {
			if z, ok := core.Unparen(e).(*ast.CallExpr); ok && sf.CalleeID(z) == "time.Time.IsZero" && given != nil && identObj(sinfo, throughLocals(sf, core.RecvExpr(z))) == given {
				return condFact{"given zero", "true", true}, true
			}
			return condFact{}, false
		})
		// stores into the datum's Time field: atomic.StoreInt64(&d.Time, x) or d.Time = x
		type store struct {
			h   core.Hit
			val ast.Expr
		}
		var stores []store
		for _, h := range g.Find(func(n ast.Node) bool {
			switch x := n.(type) {
			case *ast.CallExpr:
				return sf.CalleeID(x) == "sync/atomic.StoreInt64" && len(x.Args) == 2
			case *ast.AssignStmt:
				return len(x.Lhs) == 1 && len(x.Rhs) == 1 && isFieldOf(sinfo, x.Lhs[0], "datum.BaseDatum", "Time")
			}
			return false
		}) {
			switch x := h.N.(type) {
			case *ast.CallExpr:
				stores = append(stores, store{h, x.Args[1]})
			case *ast.AssignStmt:
				stores = append(stores, store{h, x.Rhs[0]})
			}
		}
		okS, whyS := true, ""
		var trS []string
		nNow, nGiven := 0, 0
		for _, s := range stores {
			v := throughLocals(sf, s.val)
			usesNow := exprCalls(sf, v, "time.Now")
			usesGiven := given != nil && exprUses(sinfo, v, given)
			switch {
			case usesNow && !usesGiven:
				nNow++
				if tr, un := reachableAvoiding(g, ef, s.h.P, factIs("given zero", "true")); un {
					okS, whyS, trS = false, "the current time is stored on a path where the given time has not been found zero: the instant set by strptime/settime is overwritten by the wall clock", tr
				}
			case usesGiven && !usesNow:
				nGiven++
				if tr, un := reachableAvoiding(g, ef, s.h.P, factIs("given zero", "false")); un {
					okS, whyS, trS = false, "the given time is stored on a path where it has not been found non-zero: an unset time register stamps the datum with year 1 instead of the current time", tr
				}
			default:
				okS, whyS = false, "a store of the timestamp is neither the current time nor the given time: "+exprStr(s.val)
			}
		}
		if okS && (nNow == 0 || nGiven == 0) {
			okS, whyS = false, fmt.Sprintf("expected a store of the current time and a store of the given time, found %d and %d", nNow, nGiven)
		}
		c.Verdict(okS, "C07-R3", "BaseDatum.stamp", pos(c, sf.Decl), "now iff zero", "the datum layer does not substitute the current time exactly for the zero (unset) time ("+whyS+")", trS...)
	}
	c.Floor("C07-R3", 6)
}

// c07BeforeInstructions: the statement cannot run between two instructions of a line: it is not in execute
// nor in a function reachable from it, and in ProcessLogLine it precedes the first call of execute.
func c07BeforeInstructions(c *core.Check, sf *core.Func, n ast.Node) bool {
	ex := c.Prog.Fn(vmExecute)
	if ex == nil || sf == ex {
		return false
	}
	seen := map[*core.Func]bool{ex: true}
	work := []*core.Func{ex}
	for len(work) > 0 {
		f := work[0]
		work = work[1:]
		if f.Body == nil {
			continue
		}
		for _, cf := range f.Callees() {
			if !seen[cf] {
				seen[cf] = true
				work = append(work, cf)
			}
		}
	}
	if seen[sf] {
		return false
	}
	if pll := c.Prog.Fn(processLogLine); pll != nil && sf == pll {
		for _, h := range pll.Graph().CallsTo(vmExecute) {
			if h.N.Pos() <= n.Pos() {
				return false
			}
		}
		// inside the instruction loop?
		inLoop := false
		ast.Inspect(pll.Body, func(x ast.Node) bool {
			if fs, ok := x.(*ast.ForStmt); ok && fs.Pos() <= n.Pos() && n.End() <= fs.End() {
				inLoop = true
			}
			return true
		})
		return !inLoop
	}
	return true
}
