package props

import (
	"fmt"
	"go/ast"
	"strings"

	"verif/sa/core"
)

func c07(c *core.Check) {
	c.Explain = "Decides structural necessary conditions of C07 on the VM: (R0) the strptime memo is transparent (same rule as C05-R2: key covers value and layout, failed parses are not stored, the current-year fix-up is inside the memoised function so hits and misses agree); (R1) argument roles: the first value popped by strptime is the layout and the second the value, and they reach time.Parse / time.ParseInLocation in the (layout, value) positions, the location variant being selected by `v.loc != nil` and passing v.loc; the zero-year replacement is guarded by the syslog option; (R2) the time register is written only by the strptime and settime instructions, settime stores time.Unix(n, 0), timestamp() pushes the register unless it is zero, else time.Now(); (R3) every datum update in the VM passes the time register as its timestamp and the datum layer substitutes time.Now() only for the zero time. What time.Parse returns and wall-clock values are not decided."
	c.Assume = append(c.Assume, "time.Parse/ParseInLocation semantics", "the checker requires strptime's layout to be a string literal")
	c05memo(c, "C07-R0")
	vm := extractVM(c)
	exe := c.Prog.Fn(vmExecute)
	pt := c.MustFn("C07-R1", vmParseTime)
	if vm == nil || exe == nil || pt == nil {
		c.Undecided("C07-R1", vmExecute, "-", "VM table not extracted")
		return
	}
	info := exe.Info()

	c.Rule("C07-R1", "ROLES: in the Strptime case ParseTime is called with (first popped string, second popped string); ParseTime passes its (layout, value) parameters in that order to time.Parse and to time.ParseInLocation with v.loc, chosen by `v.loc != nil`; the year fix-up is inside ParseTime under `tm.Year() == 0 && v.syslogUseCurrentYear`")
	sc := vm.Cases["Strptime"]
	if sc == nil || len(sc.Pops) < 2 {
		c.Undecided("C07-R1", "Strptime case", "-", "case not found or has fewer than two pops")
	} else {
		layoutVar := sc.Pops[0].Var
		// the value variable: assigned from the type-switch binding in `case string:`
		var valueVar = func() interface{} { return nil }
		_ = valueVar
		var ptCall *ast.CallExpr
		vm.inspectCase(sc, func(n ast.Node) bool {
			if call, ok := n.(*ast.CallExpr); ok && exe.CalleeID(call) == vmParseTime {
				ptCall = call
			}
			return true
		})
		if ptCall == nil {
			c.Fail("C07-R1", "Strptime calls ParseTime", pos(c, exe.Decl), "the strptime instruction no longer parses through ParseTime")
		} else {
			okLayout := identObj(info, ptCall.Args[0]) == layoutVar && layoutVar != nil && sc.Pops[0].Kind == "PopString"
			c.Verdict(okLayout, "C07-R1", "Strptime layout = first pop", pos(c, ptCall), "layout is the value on top of the stack (strptime's 2nd argument)", "ParseTime's layout argument is not the first popped string: value and layout are swapped")
			// the ts variable must be assigned from the second pop's string form
			tsObj := identObj(info, ptCall.Args[1])
			okVal := false
			vm.inspectCase(sc, func(n ast.Node) bool {
				if as, ok := n.(*ast.AssignStmt); ok && len(as.Lhs) == 1 && identObj(info, as.Lhs[0]) == tsObj && tsObj != nil {
					// inside `case string:` of the type switch on the second pop
					if inCase(exe, as, "string") {
						okVal = true
					}
				}
				return true
			})
			c.Verdict(okVal, "C07-R1", "Strptime value = second pop", pos(c, ptCall), "value is the second popped string", "ParseTime's value argument does not come from the second popped value")
		}
	}
	{
		g := pt.Graph()
		lay, val := paramObj(pt, "layout"), paramObj(pt, "value")
		for _, want := range []string{"time.Parse", "time.ParseInLocation"} {
			hs := g.CallsTo(want)
			if len(hs) != 1 {
				c.Fail("C07-R1", "ParseTime calls "+want, pos(c, pt.Decl), fmt.Sprintf("expected one call of %s, found %d", want, len(hs)))
				continue
			}
			call := hs[0].N.(*ast.CallExpr)
			okArgs := identObj(pt.Info(), call.Args[0]) == lay && identObj(pt.Info(), call.Args[1]) == val && lay != nil && val != nil
			if want == "time.ParseInLocation" {
				okArgs = okArgs && len(call.Args) == 3 && strings.HasSuffix(core.PathOf(call.Args[2]), ".loc")
				guard := false
				for _, ic := range pt.EnclosingIfs(call.Pos()) {
					cond := strings.ReplaceAll(exprStr(ic.If.Cond), " ", "")
					if (strings.HasSuffix(cond, ".loc!=nil") && ic.InThen) || (strings.HasSuffix(cond, ".loc==nil") && !ic.InThen) {
						guard = true
					}
				}
				okArgs = okArgs && guard
			} else {
				guard := false
				for _, ic := range pt.EnclosingIfs(call.Pos()) {
					cond := strings.ReplaceAll(exprStr(ic.If.Cond), " ", "")
					if (strings.HasSuffix(cond, ".loc!=nil") && !ic.InThen) || (strings.HasSuffix(cond, ".loc==nil") && ic.InThen) {
						guard = true
					}
				}
				okArgs = okArgs && guard
			}
			c.Verdict(okArgs, "C07-R1", "ParseTime -> "+want, pos(c, call), "(layout, value) in order, zone variant chosen by v.loc", "the parse call does not receive (layout, value[, v.loc]) in that order under the v.loc test: timestamps are parsed with swapped roles or in the wrong zone")
		}
		yearIfs := ifsWhere(pt, func(is *ast.IfStmt) bool {
			s := strings.ReplaceAll(exprStr(is.Cond), " ", "")
			return strings.Contains(s, ".Year()==0") && strings.Contains(s, ".syslogUseCurrentYear") && strings.Contains(s, "&&")
		})
		okYear := len(yearIfs) == 1
		if okYear {
			okYear = false
			ast.Inspect(yearIfs[0].Body, func(n ast.Node) bool {
				if call, ok := n.(*ast.CallExpr); ok && pt.CalleeID(call) == "time.Time.AddDate" {
					if strings.Contains(exprStr(call.Args[0]), ".Year()") && exprStr(call.Args[1]) == "0" && exprStr(call.Args[2]) == "0" {
						okYear = true
					}
				}
				return true
			})
		}
		c.Verdict(okYear, "C07-R1", "ParseTime zero-year fix-up", pos(c, pt.Decl), "AddDate(now.Year(),0,0) under tm.Year()==0 && option", "the current-year replacement is not applied inside ParseTime exactly when the parsed year is zero and the option is on (moved outside the memoised function, it is skipped on memo hits)")
		// errors are reported and lead to return
		errs := g.CallsTo(vmErrorf)
		c.Verdict(len(errs) >= 1, "C07-R1", "ParseTime reports failure", pos(c, pt.Decl), "errorf on parse failure", "a failed time parse is not reported as a runtime error")
	}
	c.Floor("C07-R1", 6)

	c.Rule("C07-R2", "REGISTER: thread.time is assigned only in the Strptime and Settime cases of execute; Settime assigns time.Unix(n, 0) (optionally .UTC()) with n the popped integer; Timestamp pushes t.time.Unix() unless t.time.IsZero(), then time.Now().Unix()")
	nreg := 0
	for _, sf := range shipped(c) {
		if core.Rel(sf.Pkg.PkgPath) != "internal/runtime/vm" {
			continue
		}
		ast.Inspect(sf.Body, func(n ast.Node) bool {
			as, ok := n.(*ast.AssignStmt)
			if !ok {
				return true
			}
			for _, l := range as.Lhs {
				sel, ok := core.Unparen(l).(*ast.SelectorExpr)
				if !ok || sel.Sel.Name != "time" {
					continue
				}
				s := sf.Info().Selections[sel]
				if s == nil || !strings.HasSuffix(s.Recv().String(), "vm.thread") {
					continue
				}
				nreg++
				okSite := sf.Key == vmExecute && (inCase(sf, as, "code.Strptime") || inCase(sf, as, "code.Settime"))
				c.Verdict(okSite, "C07-R2", fmt.Sprintf("time register write #%d in %s", nreg, sf.Key), pos(c, as), "strptime/settime only", "the time register is written outside the strptime and settime instructions")
				if sf.Key == vmExecute && inCase(sf, as, "code.Settime") {
					r := strings.ReplaceAll(exprStr(as.Rhs[0]), " ", "")
					okv := strings.HasPrefix(r, "time.Unix(") && (strings.HasSuffix(r, ",0)") || strings.HasSuffix(r, ",0).UTC()"))
					c.Verdict(okv, "C07-R2", "Settime value", pos(c, as), "time.Unix(n, 0)", "settime does not store time.Unix(n, 0): "+r)
				}
			}
			return true
		})
	}
	if tc := vm.Cases["Timestamp"]; tc != nil {
		var zeroIf *ast.IfStmt
		vm.inspectCase(tc, func(n ast.Node) bool {
			if is, ok := n.(*ast.IfStmt); ok && strings.HasSuffix(strings.ReplaceAll(exprStr(is.Cond), " ", ""), ".time.IsZero()") && !strings.HasPrefix(exprStr(is.Cond), "!") {
				zeroIf = is
			}
			return true
		})
		okT := false
		if zeroIf != nil && zeroIf.Else != nil {
			thenS, elseS := "", ""
			ast.Inspect(zeroIf.Body, func(n ast.Node) bool {
				if call, ok := n.(*ast.CallExpr); ok && strings.HasSuffix(exe.CalleeID(call), ".Push") {
					thenS = strings.ReplaceAll(exprStr(call.Args[0]), " ", "")
				}
				return true
			})
			ast.Inspect(zeroIf.Else, func(n ast.Node) bool {
				if call, ok := n.(*ast.CallExpr); ok && strings.HasSuffix(exe.CalleeID(call), ".Push") {
					elseS = strings.ReplaceAll(exprStr(call.Args[0]), " ", "")
				}
				return true
			})
			okT = thenS == "time.Now().Unix()" && strings.HasSuffix(elseS, ".time.Unix()")
		}
		c.Verdict(okT, "C07-R2", "Timestamp", pos(c, exe.Decl), "register unless zero, else now", "timestamp() does not push the time register's Unix time when it is set and the wall clock otherwise")
	} else {
		c.Undecided("C07-R2", "Timestamp", "-", "case not found")
	}
	if pll := c.MustFn("C07-R2", processLogLine); pll != nil {
		// the register lives in the per-line thread: "otherwise it returns the current wall-clock time" needs a fresh (zero) register per line
		threadFreshness(c, "C07-R2", pll)
	}
	c.Floor("C07-R2", 8)

	c.Rule("C07-R3", "STAMP: every datum update call in execute (datum.SetInt/SetFloat/SetString/IncIntBy/DecIntBy) passes t.time as its timestamp; BaseDatum.stamp stores time.Now() exactly when the given time IsZero")
	nst := 0
	ast.Inspect(exe.Body, func(n ast.Node) bool {
		call, ok := n.(*ast.CallExpr)
		if !ok {
			return true
		}
		id := exe.CalleeID(call)
		switch id {
		case "internal/metrics/datum.SetInt", "internal/metrics/datum.SetFloat", "internal/metrics/datum.SetString", "internal/metrics/datum.IncIntBy", "internal/metrics/datum.DecIntBy":
			nst++
			last := call.Args[len(call.Args)-1]
			c.Verdict(core.PathOf(last) == "t.time", "C07-R3", fmt.Sprintf("%s #%d", id[strings.LastIndex(id, ".")+1:], nst), pos(c, call), "stamped with the time register", "a datum update is not stamped with the time register ("+exprStr(last)+"): the datum does not carry the instant set by strptime/settime")
		}
		return true
	})
	if sf := c.MustFn("C07-R3", "internal/metrics/datum.(*BaseDatum).stamp"); sf != nil {
		okS := false
		for _, is := range ifsWhere(sf, func(is *ast.IfStmt) bool {
			return strings.HasSuffix(strings.ReplaceAll(exprStr(is.Cond), " ", ""), ".IsZero()") && !strings.HasPrefix(exprStr(is.Cond), "!")
		}) {
			thenNow, elseGiven := false, false
			ast.Inspect(is.Body, func(n ast.Node) bool {
				if call, ok := n.(*ast.CallExpr); ok && sf.CalleeID(call) == "time.Now" {
					thenNow = true
				}
				return true
			})
			if is.Else != nil {
				ast.Inspect(is.Else, func(n ast.Node) bool {
					if id, ok := n.(*ast.Ident); ok && sf.Info().Uses[id] == paramObj(sf, sf.Type.Params.List[0].Names[0].Name) {
						elseGiven = true
					}
					return true
				})
			}
			okS = thenNow && elseGiven
		}
		c.Verdict(okS, "C07-R3", "BaseDatum.stamp", pos(c, sf.Decl), "now iff zero", "the datum layer does not substitute the current time exactly for the zero (unset) time")
	}
	c.Floor("C07-R3", 6)
}
