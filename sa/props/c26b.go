package props

import (
	"go/ast"
	"go/token"
	"strings"

	"verif/sa/core"
)

// C26-R6 LOAD-CONSULTS-THE-RUNNING-SET: once LoadProgram has opened an eligible
// file, it reports success only after CompileAndRun has been called (which
// compares the content with the handle that is running).  A shortcut taken
// before that decides "this program is already running" from something other
// than the set of running programs; whether that is right depends on an
// invariant between a cache and every place that unloads a program, which this
// rule does not follow: undecided, not accepted.
func init() { register("C26", c26Consults) }

func c26Consults(c *core.Check) {
	const rule = "C26-R6"
	c.Rule(rule, "LOAD-CONSULTS-THE-RUNNING-SET: in LoadProgram every path from the successful open of the program file to a return of nil passes the call of CompileAndRun; a return of nil that skips it (a memo on the file's size, time or name) is not accepted as deciding that the program is running")
	f := c.MustFn(rule, loadProgram)
	if f == nil {
		return
	}
	g := f.Graph()
	opens := append(g.CallsTo("os.OpenFile"), g.CallsTo("os.Open")...)
	cars := g.CallsTo(compileAndRun)
	if len(opens) == 0 || len(cars) == 0 {
		c.Undecided(rule, loadProgram, pos(c, f.Decl), "the open of the program file or the call of CompileAndRun was not found in LoadProgram")
		return
	}
	bad := false
	for _, op := range opens {
		for _, e := range normalExits(g) {
			if e.Kind == "return" && !returnsNil(f.Info(), e.Ret) {
				continue
			}
			if tr, found := pathAvoiding(g, &op.P, []core.Point{e.P}, core.HitPoints(cars)); found {
				// the failed-open branch returns before anything else: it is a nil/err return of its own; only
				// paths on which the open succeeded matter — those pass the `err != nil` false edge, which a
				// path-insensitive search cannot tell: accept exits that lie in a branch testing the open's error
				if afterOpenError(f, op, e) {
					continue
				}
				bad = true
				c.Undecided(rule, loadProgram+"|exit="+e.String(), ppos(c, e.P, f), "LoadProgram can report success for a file it opened without calling CompileAndRun: the shortcut decides that the program is already running without looking at the running programs; it is right only if every unload also invalidates whatever the shortcut looks at, which is not followed (path: "+strings.Join(tr, " > ")+")")
			}
		}
	}
	if !bad {
		c.Ok(rule, loadProgram, pos(c, f.Decl), "every success exit after the open passes CompileAndRun")
	}
	c.Floor(rule, 1)
}

// afterOpenError: the exit lies inside an if-statement whose condition tests the error variable assigned by the open.
func afterOpenError(f *core.Func, open core.Hit, e core.Exit) bool {
	if e.Ret == nil {
		return false
	}
	info := f.Info()
	for _, ic := range f.EnclosingIfs(e.Ret.Pos()) {
		x, _, ok := nilTest(info, ic.If.Cond)
		if !ok {
			continue
		}
		errObj := identObj(info, x)
		if errObj == nil {
			continue
		}
		// the open's assignment defines/assigns that variable
		if as := parentAssign(f, open.N); as != nil {
			for _, l := range as.Lhs {
				if identObj(info, l) == errObj {
					return true
				}
			}
		}
	}
	return false
}

// C26-R7 NO-DESCENT: a recursive directory walk (filepath.WalkDir / filepath.Walk)
// whose callback loads programs must refuse to descend: for a directory entry
// other than the root the callback returns SkipDir.  Returning nil for a
// directory makes the walk enter it, and the program files inside it are loaded
// (and keep a removed top-level program of the same name alive).
func init() { register("C26", c26NoDescent) }

func c26NoDescent(c *core.Check) {
	const rule = "C26-R7"
	c.Rule(rule, "NO-DESCENT: the program directory is listed with a non-recursive call (os.ReadDir and the like); if a recursive walk (filepath.WalkDir, filepath.Walk, fs.WalkDir) has a callback from which LoadProgram is reachable, then on the is-a-directory outcome of the entry's IsDir test the callback never returns nil unless the entry was found to be the root: it returns SkipDir")
	n := 0
	for _, sf := range shipped(c) {
		if core.Rel(sf.Pkg.PkgPath) != "internal/runtime" {
			continue
		}
		for _, h := range sf.Graph().Calls(func(id string, _ *ast.CallExpr) bool {
			return id == "path/filepath.WalkDir" || id == "path/filepath.Walk" || id == "io/fs.WalkDir"
		}) {
			call := h.N.(*ast.CallExpr)
			lit, ok := core.Unparen(call.Args[len(call.Args)-1]).(*ast.FuncLit)
			if !ok {
				c.Undecided(rule, sf.Key+"|walk", pos(c, call), "the callback of the recursive walk is not a function literal")
				n++
				continue
			}
			cb := c.Prog.FuncOf[lit]
			if cb == nil {
				continue
			}
			loads := len(cb.Graph().CallsTo(loadProgram)) > 0
			if !loads {
				continue
			}
			n++
			g := cb.Graph()
			info := cb.Info()
			ef := graphFacts(g, func(e ast.Expr) (condFact, bool) {
				if cl, ok := core.Unparen(e).(*ast.CallExpr); ok && strings.HasSuffix(cb.CalleeID(cl), ".IsDir") {
					return condFact{id: "isdir", val: "true", eq: true}, true
				}
				return condFact{}, false
			})
			dirEdges := ef.edgesWith(func(f condFact) bool { return f.id == "isdir" && f.val == "true" && f.eq })
			if len(dirEdges) == 0 {
				c.Fail(rule, sf.Key+"|walk callback", pos(c, lit), "the callback of a recursive directory walk loads programs and never tests whether the entry is a directory: the walk descends into every subdirectory and the program files inside are loaded")
				continue
			}
			// a comparison of the callback's path parameter with anything (the root) excuses a nil return
			pathParam := paramAt(cb, 0)
			rootEdge := graphFacts(g, func(e ast.Expr) (condFact, bool) {
				if be, ok := core.Unparen(e).(*ast.BinaryExpr); ok && (be.Op == token.EQL || be.Op == token.NEQ) {
					if identObj(info, be.X) == pathParam || identObj(info, be.Y) == pathParam {
						return condFact{id: "root", val: "true", eq: be.Op == token.EQL}, true
					}
				}
				return condFact{}, false
			}).avoid(func(f condFact) bool { return f.id == "root" && f.val == "true" && f.eq })
			bad := false
			for _, de := range dirEdges {
				for _, e := range normalExits(g) {
					if e.Kind == "return" && !returnsNil(info, e.Ret) {
						continue
					}
					de := de
					if tr, found := g.Search(core.Query{From: &de, Goal: core.At(e.P), AvoidEdge: rootEdge}); found {
						bad = true
						c.Fail(rule, sf.Key+"|walk callback|directory entry", ppos(c, e.P, cb), "for a directory entry the callback of the recursive walk returns nil, which makes the walk enter the directory (SkipDir refuses): program files in subdirectories are loaded under their base names, and a same-named file in a subdirectory keeps a removed program running", g.Trail(tr)...)
						break
					}
				}
				if bad {
					break
				}
			}
			if !bad {
				c.Ok(rule, sf.Key+"|walk callback|directory entry", pos(c, lit), "directories are refused")
			}
		}
	}
	if n == 0 {
		c.Ok(rule, "internal/runtime|no recursive walk", "-", "no recursive directory walk reaches LoadProgram")
	}
	c.Floor(rule, 1)
}
