package props

// C04-R6 (stack effect: the code generator and the VM agree on how many values
// every instruction takes and leaves) and C04-R7 (constant index into a string
// or slice of unknown length in the VM).
//
// Both rules read source only.  R6 uses a small structural path enumerator
// (sfEngine) over Go statements that is shared by the VM side (what an opcode
// case pops and pushes) and the code-generator side (which instructions a
// clause emits, in which order, around which children).

import (
	"fmt"
	"go/ast"
	"go/constant"
	"go/parser"
	"go/token"
	"go/types"
	"regexp"
	"sort"
	"strings"

	"golang.org/x/tools/go/cfg"

	"verif/sa/core"
)

func init() { register("C04", c04c) }

func c04c(c *core.Check) {
	c04StackEffect(c)
	c04ConstIndex(c)
}

// ---------------------------------------------------------------------------
// linear forms  c + k·KEYS
// ---------------------------------------------------------------------------

// sfLin is a stack depth (or a count of values) of the form c + k·KEYS, where
// KEYS is the number of keys of the metric an instruction addresses.
type sfLin struct{ c, k int }

func (a sfLin) add(b sfLin) sfLin { return sfLin{a.c + b.c, a.k + b.k} }
func (a sfLin) neg() sfLin        { return sfLin{-a.c, -a.k} }

// geq: a ≥ b for every KEYS ≥ 0.
func (a sfLin) geq(b sfLin) bool { return a.c >= b.c && a.k >= b.k }
func (a sfLin) min(b sfLin) sfLin {
	if b.c < a.c {
		a.c = b.c
	}
	if b.k < a.k {
		a.k = b.k
	}
	return a
}
func (a sfLin) String() string {
	switch {
	case a.k == 0:
		return fmt.Sprint(a.c)
	case a.c == 0 && a.k == 1:
		return "KEYS"
	case a.c == 0 && a.k == -1:
		return "-KEYS"
	case a.c == 0:
		return fmt.Sprintf("%d·KEYS", a.k)
	case a.k == 1:
		return fmt.Sprintf("%d+KEYS", a.c)
	case a.k == -1:
		return fmt.Sprintf("%d-KEYS", a.c)
	}
	return fmt.Sprintf("%d%+d·KEYS", a.c, a.k)
}

// ---------------------------------------------------------------------------
// the path enumerator
// ---------------------------------------------------------------------------

const sfMaxPaths = 6000

const (
	sfRun = iota
	sfReturn
	sfBreak
	sfContinue
	sfPanic
)

// sfRef names a child of an AST node of the mtail compiler: field `field` of
// struct `parent`; idx ≥ 0 selects an element of a list field, elem an
// arbitrary element (a range variable).
type sfRef struct {
	parent string
	field  string
	idx    int
	elem   bool
	ok     bool
}

func (r sfRef) String() string {
	s := r.parent + "." + r.field
	if r.idx >= 0 {
		s += fmt.Sprintf("[%d]", r.idx)
	}
	if r.elem {
		s += "[*]"
	}
	return s
}

type sfItem struct {
	kind string // vm: "pop" "push" "setpc"; codegen: "emit" "child" "setlabel"; both: "loop"
	node ast.Node
	f    *core.Func
	// emit
	ops   []string
	nilv  int // 0 unknown, 1 nil operand, 2 non-nil operand
	label token.Pos
	// child
	ref sfRef
	// loop: the item lists of the non-error paths through one iteration
	bodies [][]sfItem
	// loop: the list ranged over (codegen) / whether the count is the operand (vm)
	loopRef     sfRef
	loopOperand bool
}

// sfFact: the code generator established the dynamic kind of a child.
type sfFact struct {
	ref   sfRef
	kinds []string
	neg   bool
}

// sfPopFact: a VM path depends on the Go type of the k-th popped value (1-based).
type sfPopFact struct {
	pop   int
	types []string // the case types (for neg: every listed type, none matched)
	neg   bool
}

type sfTypeTest struct {
	x   ast.Expr
	typ ast.Expr
}

// sfVal is what the enumerator knows about a Go value.
type sfVal struct {
	ops   []string  // possible opcodes
	nilv  int       // nil-ness when stored in an interface
	label token.Pos // a jump label (position of its newLabel call)
	pop   int       // vm: produced by the pop with this ordinal
	tt    *sfTypeTest
	ref   sfRef
}

type sfPath struct {
	items      []sfItem
	env        map[types.Object]sfVal
	memo       map[string]bool
	trail      []string
	facts      []sfFact
	popFacts   []sfPopFact
	flags      map[string]bool
	err        bool
	exit       int
	ret        *ast.ReturnStmt
	unmodelled string
}

func newSfPath() *sfPath {
	return &sfPath{env: map[types.Object]sfVal{}, memo: map[string]bool{}, flags: map[string]bool{}}
}

func (p *sfPath) clone() *sfPath {
	q := &sfPath{err: p.err, exit: p.exit, ret: p.ret, unmodelled: p.unmodelled}
	q.items = append([]sfItem(nil), p.items...)
	q.trail = append([]string(nil), p.trail...)
	q.facts = append([]sfFact(nil), p.facts...)
	q.popFacts = append([]sfPopFact(nil), p.popFacts...)
	q.env = make(map[types.Object]sfVal, len(p.env))
	for k, v := range p.env {
		q.env[k] = v
	}
	q.memo = make(map[string]bool, len(p.memo))
	for k, v := range p.memo {
		q.memo[k] = v
	}
	q.flags = make(map[string]bool, len(p.flags))
	for k, v := range p.flags {
		q.flags[k] = v
	}
	return q
}

func (p *sfPath) running() bool { return p.exit == sfRun && p.unmodelled == "" && !p.err }

func (p *sfPath) npops() int {
	n := 0
	for _, it := range p.items {
		if it.kind == "pop" {
			n++
		}
	}
	return n
}

// sfClient adapts the enumerator to one side (VM or code generator).
type sfClient interface {
	// call handles a call (events, inlining of helpers); it returns the resulting paths.
	call(e *sfEngine, f *core.Func, call *ast.CallExpr, ps []*sfPath) []*sfPath
	// value abstracts an expression.
	value(f *core.Func, x ast.Expr, p *sfPath) sfVal
	// atom decides a leaf condition when the configuration fixes it.
	atom(f *core.Func, x ast.Expr, p *sfPath) (val, known bool)
	// tagValue gives the configured value of a switch tag: known=false when the tag is not configured;
	// other=true when the configured value matches no listed constant.
	tagValue(f *core.Func, tag ast.Expr) (v constant.Value, other, known bool)
	// typeSwitch says which clauses of a type switch over x are feasible; the last entry is "no clause".
	typeSwitch(f *core.Func, x ast.Expr, clauses [][]ast.Expr, p *sfPath) []bool
	// typeFact records that x has (neg: has none of) the listed types on p.
	typeFact(f *core.Func, x ast.Expr, typs []ast.Expr, neg bool, p *sfPath)
	// assign sees every assignment target.
	assign(f *core.Func, as *ast.AssignStmt, p *sfPath)
	// memoKey: a key under which the decision on a pure condition is remembered ("" = do not remember).
	memoKey(f *core.Func, x ast.Expr) string
	// decided is told about every decision taken on a leaf condition.
	decided(f *core.Func, x ast.Expr, val bool, p *sfPath)
	// relevant reports whether a call matters to this side (used for defer/go statements).
	relevant(f *core.Func, call *ast.CallExpr) bool
}

type sfEngine struct {
	cl     sfClient
	stack  []*core.Func
	prog   *core.Prog
	skipTA map[*ast.TypeAssertExpr]bool // comma-ok assertions: they do not establish the type
}

func sfSplit(ps []*sfPath) (run, done []*sfPath) {
	for _, p := range ps {
		if p.running() {
			run = append(run, p)
		} else {
			done = append(done, p)
		}
	}
	return
}

func (e *sfEngine) block(f *core.Func, list []ast.Stmt, ps []*sfPath) []*sfPath {
	for _, s := range list {
		run, done := sfSplit(ps)
		if len(run) == 0 {
			return ps
		}
		ps = append(done, e.stmt(f, s, run)...)
		if len(ps) > 16 {
			ps = sfDedupe(ps)
		}
		if len(ps) > sfMaxPaths {
			for _, p := range ps {
				if p.running() {
					p.unmodelled = "more than " + fmt.Sprint(sfMaxPaths) + " Go-level paths"
				}
			}
		}
	}
	return ps
}

// postCalls lists the calls inside n in evaluation order (arguments and
// receivers before the call), not entering function literals.
func postCalls(n ast.Node, out *[]*ast.CallExpr) {
	if n == nil {
		return
	}
	ast.Inspect(n, func(x ast.Node) bool {
		switch y := x.(type) {
		case *ast.FuncLit:
			return false
		case *ast.CallExpr:
			if ast.Node(y) != n {
				postCalls(y, out)
				return false
			}
		}
		return true
	})
	if c, ok := n.(*ast.CallExpr); ok {
		*out = append(*out, c)
	}
}

func (e *sfEngine) eval(f *core.Func, n ast.Node, ps []*sfPath) []*sfPath {
	if n == nil {
		return ps
	}
	var calls []*ast.CallExpr
	postCalls(n, &calls)
	for _, call := range calls {
		run, done := sfSplit(ps)
		if len(run) == 0 {
			return ps
		}
		ps = append(done, e.cl.call(e, f, call, run)...)
	}
	// a forced type assertion x.(T) establishes the type of x on the paths that continue
	ast.Inspect(n, func(x ast.Node) bool {
		if _, isLit := x.(*ast.FuncLit); isLit {
			return false
		}
		if ta, ok := x.(*ast.TypeAssertExpr); ok && ta.Type != nil && !e.skipTA[ta] {
			for _, p := range ps {
				if p.running() {
					e.cl.typeFact(f, ta.X, []ast.Expr{ta.Type}, false, p)
				}
			}
		}
		return true
	})
	return ps
}

// inline runs the body of helper h for the call.
func (e *sfEngine) inline(f *core.Func, call *ast.CallExpr, h *core.Func, ps []*sfPath) []*sfPath {
	for _, s := range e.stack {
		if s == h {
			for _, p := range ps {
				p.unmodelled = "recursive helper " + h.Key
			}
			return ps
		}
	}
	if len(e.stack) >= 6 {
		for _, p := range ps {
			p.unmodelled = "helper calls nested deeper than 6 at " + h.Key
		}
		return ps
	}
	// bind the parameters
	var params []types.Object
	for _, fl := range h.Type.Params.List {
		for _, nm := range fl.Names {
			params = append(params, h.Info().Defs[nm])
		}
	}
	for _, p := range ps {
		for i, po := range params {
			if po != nil && i < len(call.Args) && !call.Ellipsis.IsValid() {
				p.env[po] = e.cl.value(f, call.Args[i], p)
			}
		}
	}
	type mark struct{ nf, nt int }
	marks := map[*sfPath]mark{}
	for _, p := range ps {
		marks[p] = mark{len(p.popFacts), len(p.trail)}
	}
	e.stack = append(e.stack, h)
	var out []*sfPath
	for _, p := range ps {
		m := marks[p]
		for _, q := range e.block(h, h.Body.List, []*sfPath{p}) {
			// what a helper found out about the representation of a popped value stays inside it
			if len(q.popFacts) > m.nf {
				q.popFacts = q.popFacts[:m.nf]
			}
			if len(q.trail) > m.nt {
				q.trail = q.trail[:m.nt]
			}
			out = append(out, q)
		}
	}
	e.stack = e.stack[:len(e.stack)-1]
	for _, p := range out {
		switch p.exit {
		case sfReturn:
			p.exit, p.ret = sfRun, nil
		case sfBreak, sfContinue:
			p.unmodelled = "break/continue leaves helper " + h.Key
		}
	}
	return sfDedupe(out)
}

func (e *sfEngine) bind(f *core.Func, lhs []ast.Expr, rhs []ast.Expr, p *sfPath) {
	info := f.Info()
	if len(lhs) == len(rhs) {
		for i, l := range lhs {
			if o := identObj(info, l); o != nil {
				p.env[o] = e.cl.value(f, rhs[i], p)
			}
		}
		return
	}
	if len(rhs) != 1 || len(lhs) == 0 {
		return
	}
	r := core.Unparen(rhs[0])
	if ta, ok := r.(*ast.TypeAssertExpr); ok && len(lhs) == 2 && ta.Type != nil {
		if o := identObj(info, lhs[0]); o != nil {
			p.env[o] = e.cl.value(f, ta.X, p)
		}
		if o := identObj(info, lhs[1]); o != nil {
			p.env[o] = sfVal{tt: &sfTypeTest{ta.X, ta.Type}}
		}
		return
	}
	if o := identObj(info, lhs[0]); o != nil {
		p.env[o] = e.cl.value(f, r, p)
	}
	for _, l := range lhs[1:] {
		if o := identObj(info, l); o != nil {
			delete(p.env, o)
		}
	}
}

func (e *sfEngine) stmt(f *core.Func, s ast.Stmt, ps []*sfPath) []*sfPath {
	unmodel := func(why string) []*sfPath {
		for _, p := range ps {
			if p.running() {
				p.unmodelled = why + " at " + e.prog.Position(s.Pos())
			}
		}
		return ps
	}
	switch x := s.(type) {
	case nil:
		return ps
	case *ast.EmptyStmt:
		return ps
	case *ast.ExprStmt:
		return e.eval(f, x.X, ps)
	case *ast.IncDecStmt:
		return e.eval(f, x.X, ps)
	case *ast.SendStmt:
		return e.eval(f, x.Value, e.eval(f, x.Chan, ps))
	case *ast.AssignStmt:
		if len(x.Lhs) == 2 && len(x.Rhs) == 1 {
			if ta, ok := core.Unparen(x.Rhs[0]).(*ast.TypeAssertExpr); ok {
				if e.skipTA == nil {
					e.skipTA = map[*ast.TypeAssertExpr]bool{}
				}
				e.skipTA[ta] = true
			}
		}
		for _, r := range x.Rhs {
			ps = e.eval(f, r, ps)
		}
		for _, l := range x.Lhs {
			ps = e.eval(f, l, ps)
		}
		for _, p := range ps {
			if !p.running() {
				continue
			}
			if x.Tok == token.ASSIGN || x.Tok == token.DEFINE {
				e.bind(f, x.Lhs, x.Rhs, p)
			} else {
				for _, l := range x.Lhs {
					if o := identObj(f.Info(), l); o != nil {
						delete(p.env, o)
					}
				}
			}
			e.cl.assign(f, x, p)
		}
		return ps
	case *ast.DeclStmt:
		gd, ok := x.Decl.(*ast.GenDecl)
		if !ok {
			return ps
		}
		for _, sp := range gd.Specs {
			vs, ok := sp.(*ast.ValueSpec)
			if !ok {
				continue
			}
			if len(vs.Names) == 2 && len(vs.Values) == 1 {
				if ta, ok := core.Unparen(vs.Values[0]).(*ast.TypeAssertExpr); ok {
					if e.skipTA == nil {
						e.skipTA = map[*ast.TypeAssertExpr]bool{}
					}
					e.skipTA[ta] = true
				}
			}
			for _, v := range vs.Values {
				ps = e.eval(f, v, ps)
			}
			if len(vs.Values) > 0 {
				var lhs []ast.Expr
				for _, nm := range vs.Names {
					lhs = append(lhs, nm)
				}
				for _, p := range ps {
					if p.running() {
						e.bind(f, lhs, vs.Values, p)
					}
				}
			}
		}
		return ps
	case *ast.ReturnStmt:
		for _, r := range x.Results {
			ps = e.eval(f, r, ps)
		}
		for _, p := range ps {
			if p.running() {
				p.exit, p.ret = sfReturn, x
			}
		}
		return ps
	case *ast.BranchStmt:
		if x.Label != nil || (x.Tok != token.BREAK && x.Tok != token.CONTINUE) {
			return unmodel("goto/fallthrough/labelled branch")
		}
		for _, p := range ps {
			if p.running() {
				if x.Tok == token.BREAK {
					p.exit = sfBreak
				} else {
					p.exit = sfContinue
				}
			}
		}
		return ps
	case *ast.BlockStmt:
		return e.block(f, x.List, ps)
	case *ast.IfStmt:
		ps = e.stmt(f, x.Init, ps)
		run, done := sfSplit(ps)
		tps, fps := e.cond(f, x.Cond, run)
		out := append(done, e.block(f, x.Body.List, tps)...)
		if x.Else != nil {
			out = append(out, e.stmt(f, x.Else, fps)...)
		} else {
			out = append(out, fps...)
		}
		return out
	case *ast.SwitchStmt:
		ps = e.stmt(f, x.Init, ps)
		ps = e.eval(f, x.Tag, ps)
		run, done := sfSplit(ps)
		out := done
		var clauses []*ast.CaseClause
		var def *ast.CaseClause
		for _, cl := range x.Body.List {
			cc := cl.(*ast.CaseClause)
			if cc.List == nil {
				def = cc
			} else {
				clauses = append(clauses, cc)
			}
			for _, st := range cc.Body {
				if b, ok := st.(*ast.BranchStmt); ok && b.Tok == token.FALLTHROUGH {
					return unmodel("fallthrough")
				}
			}
		}
		var res []*sfPath
		switch {
		case x.Tag != nil:
			v, other, known := e.cl.tagValue(f, x.Tag)
			if known {
				var pick *ast.CaseClause
				if !other {
					for _, cc := range clauses {
						for _, ce := range cc.List {
							if tv, ok := f.Info().Types[ce]; ok && tv.Value != nil && v != nil && tv.Value.Kind() == v.Kind() && constant.Compare(tv.Value, token.EQL, v) {
								pick = cc
							}
						}
						if pick != nil {
							break
						}
					}
				}
				if pick == nil {
					pick = def
				}
				if pick != nil {
					res = e.block(f, pick.Body, run)
				} else {
					res = run
				}
			} else {
				// the tag is not known: every clause is an alternative
				for _, cc := range clauses {
					var cl []*sfPath
					for _, p := range run {
						q := p.clone()
						q.trail = append(q.trail, "case "+exprStr(cc.List[0]))
						cl = append(cl, q)
					}
					res = append(res, e.block(f, cc.Body, cl)...)
				}
				var rest []*sfPath
				for _, p := range run {
					rest = append(rest, p.clone())
				}
				if def != nil {
					res = append(res, e.block(f, def.Body, rest)...)
				} else {
					res = append(res, rest...)
				}
			}
		default:
			remaining := run
			for _, cc := range clauses {
				var taken []*sfPath
				for _, ce := range cc.List {
					var t []*sfPath
					t, remaining = e.cond(f, ce, remaining)
					taken = append(taken, t...)
				}
				res = append(res, e.block(f, cc.Body, taken)...)
			}
			if def != nil {
				res = append(res, e.block(f, def.Body, remaining)...)
			} else {
				res = append(res, remaining...)
			}
		}
		for _, p := range res {
			if p.exit == sfBreak {
				p.exit = sfRun
			}
		}
		return append(out, res...)
	case *ast.TypeSwitchStmt:
		ps = e.stmt(f, x.Init, ps)
		var X ast.Expr
		var bound *ast.Ident
		switch a := x.Assign.(type) {
		case *ast.ExprStmt:
			if ta, ok := core.Unparen(a.X).(*ast.TypeAssertExpr); ok {
				X = ta.X
			}
		case *ast.AssignStmt:
			if len(a.Rhs) == 1 {
				if ta, ok := core.Unparen(a.Rhs[0]).(*ast.TypeAssertExpr); ok {
					X = ta.X
				}
			}
			if len(a.Lhs) == 1 {
				bound, _ = a.Lhs[0].(*ast.Ident)
			}
		}
		if X == nil {
			return unmodel("type switch of an unknown form")
		}
		_ = bound
		ps = e.eval(f, X, ps)
		run, done := sfSplit(ps)
		out := done
		var lists [][]ast.Expr
		var ccs []*ast.CaseClause
		var all []ast.Expr
		hasDef := false
		for _, cl := range x.Body.List {
			cc := cl.(*ast.CaseClause)
			ccs = append(ccs, cc)
			lists = append(lists, cc.List)
			if cc.List == nil {
				hasDef = true
			}
			all = append(all, cc.List...)
		}
		var res []*sfPath
		for _, p := range run {
			feas := e.cl.typeSwitch(f, X, lists, p)
			for i, cc := range ccs {
				if !feas[i] {
					continue
				}
				q := p.clone()
				if cc.List == nil {
					e.cl.typeFact(f, X, all, true, q)
					q.trail = append(q.trail, "type default")
				} else {
					e.cl.typeFact(f, X, cc.List, false, q)
					q.trail = append(q.trail, "type "+exprStr(cc.List[0]))
					// the variable bound in this clause stands for X
					if obj := f.Info().Implicits[cc]; obj != nil {
						q.env[obj] = e.cl.value(f, X, q)
					}
				}
				res = append(res, e.block(f, cc.Body, []*sfPath{q})...)
			}
			if !hasDef && feas[len(ccs)] {
				q := p.clone()
				e.cl.typeFact(f, X, all, true, q)
				q.trail = append(q.trail, "type: no case")
				res = append(res, q)
			}
		}
		for _, p := range res {
			if p.exit == sfBreak {
				p.exit = sfRun
			}
		}
		return append(out, res...)
	case *ast.ForStmt:
		ps = e.stmt(f, x.Init, ps)
		return e.loop(f, x, x.Cond, x.Post, x.Body, ps)
	case *ast.RangeStmt:
		ps = e.eval(f, x.X, ps)
		return e.loop(f, x, nil, nil, x.Body, ps)
	case *ast.DeferStmt, *ast.GoStmt:
		var call *ast.CallExpr
		if d, ok := x.(*ast.DeferStmt); ok {
			call = d.Call
		} else {
			call = x.(*ast.GoStmt).Call
		}
		rel := false
		ast.Inspect(call, func(n ast.Node) bool {
			if cx, ok := n.(*ast.CallExpr); ok && e.cl.relevant(f, cx) {
				rel = true
			}
			return !rel
		})
		if rel && len(e.stack) > 1 {
			return unmodel("deferred or concurrent call with a stack effect")
		}
		return ps
	case *ast.LabeledStmt:
		return unmodel("labelled statement")
	case *ast.SelectStmt:
		return unmodel("select statement")
	}
	return unmodel(fmt.Sprintf("statement %T", s))
}

// loop summarises a loop by the item lists of the non-error paths through one iteration.
func (e *sfEngine) loop(f *core.Func, s ast.Stmt, cond ast.Expr, post ast.Stmt, body *ast.BlockStmt, ps []*sfPath) []*sfPath {
	for _, p := range ps {
		if !p.running() {
			continue
		}
		start := p.clone()
		start.items = nil
		its := e.eval(f, cond, []*sfPath{start})
		its = e.block(f, body.List, its)
		run, done := sfSplit(its)
		for _, q := range run {
			q.exit = sfContinue
		}
		its = append(done, e.stmt(f, post, run)...)
		var bodies [][]sfItem
		bad := ""
		nonEmpty := false
		for _, q := range its {
			if q.err || q.exit == sfPanic {
				continue
			}
			if q.unmodelled != "" {
				bad = q.unmodelled
				break
			}
			if q.exit == sfReturn {
				bad = "a loop is left by return on a path that reports no error, at " + e.prog.Position(s.Pos())
				break
			}
			if q.exit == sfBreak && len(q.items) > 0 {
				bad = "a loop is left by break after instructions/stack operations, at " + e.prog.Position(s.Pos())
				break
			}
			if len(q.items) > 0 {
				nonEmpty = true
			}
			bodies = append(bodies, q.items)
		}
		switch {
		case bad != "":
			p.unmodelled = bad
		case nonEmpty:
			p.items = append(p.items, sfItem{kind: "loop", node: s, f: f, bodies: bodies})
		}
	}
	return ps
}

// cond splits the paths by the value of a condition.
func (e *sfEngine) cond(f *core.Func, x ast.Expr, ps []*sfPath) (tps, fps []*sfPath) {
	if len(ps) == 0 {
		return nil, nil
	}
	x = core.Unparen(x)
	switch y := x.(type) {
	case *ast.UnaryExpr:
		if y.Op == token.NOT {
			f2, t2 := e.cond(f, y.X, ps)
			return t2, f2
		}
	case *ast.BinaryExpr:
		switch y.Op {
		case token.LAND:
			t1, f1 := e.cond(f, y.X, ps)
			t2, f2 := e.cond(f, y.Y, t1)
			return t2, append(f1, f2...)
		case token.LOR:
			t1, f1 := e.cond(f, y.X, ps)
			t2, f2 := e.cond(f, y.Y, f1)
			return append(t1, t2...), f2
		}
	}
	ps = e.eval(f, x, ps)
	for _, p := range ps {
		if !p.running() {
			// a path that ended while the condition was evaluated belongs to neither branch; keep it
			tps = append(tps, p)
			continue
		}
		if v, known := e.cl.atom(f, x, p); known {
			if v {
				tps = append(tps, p)
			} else {
				fps = append(fps, p)
			}
			continue
		}
		// a boolean bound to a comma-ok type assertion
		if o := identObj(f.Info(), x); o != nil {
			if v, ok := p.env[o]; ok && v.tt != nil {
				q := p.clone()
				e.cl.typeFact(f, v.tt.x, []ast.Expr{v.tt.typ}, false, p)
				e.cl.typeFact(f, v.tt.x, []ast.Expr{v.tt.typ}, true, q)
				p.trail = append(p.trail, exprStr(v.tt.x)+" is "+exprStr(v.tt.typ))
				q.trail = append(q.trail, exprStr(v.tt.x)+" is not "+exprStr(v.tt.typ))
				tps = append(tps, p)
				fps = append(fps, q)
				continue
			}
		}
		key := e.cl.memoKey(f, x)
		if key != "" {
			if v, ok := p.memo[key]; ok {
				if v {
					tps = append(tps, p)
				} else {
					fps = append(fps, p)
				}
				continue
			}
		}
		q := p.clone()
		if key != "" {
			p.memo[key], q.memo[key] = true, false
		}
		txt := exprStr(x)
		if len(txt) > 60 {
			txt = txt[:60] + "…"
		}
		p.trail = append(p.trail, txt)
		q.trail = append(q.trail, "!("+txt+")")
		e.cl.decided(f, x, true, p)
		e.cl.decided(f, x, false, q)
		tps = append(tps, p)
		fps = append(fps, q)
	}
	return
}

// structName returns the name of the (pointer to a) named struct type t when it
// is declared in a package whose path ends in pkgSuffix.
func structName(t types.Type, pkgSuffix string) string {
	if t == nil {
		return ""
	}
	if p, ok := t.(*types.Pointer); ok {
		t = p.Elem()
	}
	n, ok := t.(*types.Named)
	if !ok || n.Obj().Pkg() == nil || !strings.HasSuffix(n.Obj().Pkg().Path(), pkgSuffix) {
		return ""
	}
	return n.Obj().Name()
}

// fieldSel resolves a selector to (owning struct name, field name) for structs of a package ending in pkgSuffix.
func fieldSel(info *types.Info, e ast.Expr, pkgSuffix string) (owner, field string, ok bool) {
	sel, isSel := core.Unparen(e).(*ast.SelectorExpr)
	if !isSel {
		return "", "", false
	}
	s := info.Selections[sel]
	if s == nil || s.Kind() != types.FieldVal {
		return "", "", false
	}
	owner = structName(s.Recv(), pkgSuffix)
	if owner == "" {
		return "", "", false
	}
	return owner, sel.Sel.Name, true
}

var _ = cfg.KindRangeLoop
var _ = regexp.MustCompile
var _ = parser.ParseFile
var _ = sort.Strings

// ---------------------------------------------------------------------------
// VM side: the stack effect of every opcode case of (*VM).execute
// ---------------------------------------------------------------------------

const (
	vmPopID  = "internal/runtime/vm.(*thread).Pop"
	vmPushID = "internal/runtime/vm.(*thread).Push"
)

// sfEffect is the stack effect of one instruction on one class of non-error paths.
type sfEffect struct {
	need sfLin // values that must be on the stack when the instruction starts
	net  sfLin // change of the stack depth
	pops sfLin
	push sfLin
	dead string // non-empty: paths discharged by this (checked) reason
	why  string // the Go-level decisions of a path with this effect
	pos  token.Pos
}

func (e sfEffect) String() string {
	return fmt.Sprintf("pops %s, pushes %s", e.pops, e.push)
}

type sfOpEffect struct {
	op         string
	pos        token.Pos
	splitsNil  bool               // the case tests whether the operand is nil
	eff        map[int][]sfEffect // by operand nil-ness (0 when not split; else 1 nil, 2 non-nil)
	jump       map[int]int        // 0 no jump, 1 always, 2 conditional
	unmodelled map[int]string
	discharged []string
	noPath     map[int]bool // every path reports an error
}

type sfVM struct {
	c        *core.Check
	exe      *core.Func
	opVal    constant.Value
	opName   string
	nilCfg   int
	askedNil bool
	relFuncs map[*core.Func]bool
}

func (v *sfVM) isInstrField(f *core.Func, e ast.Expr, field string) bool {
	o, fl, ok := fieldSel(f.Info(), e, "internal/runtime/code")
	return ok && o == "Instr" && fl == field
}

func (v *sfVM) relevant(f *core.Func, call *ast.CallExpr) bool {
	id := f.CalleeID(call)
	if id == vmPopID || id == vmPushID || id == vmErrorf {
		return true
	}
	if h := f.CalleeFunc(call); h != nil && v.relFuncs[h] {
		return true
	}
	return false
}

func (v *sfVM) call(e *sfEngine, f *core.Func, call *ast.CallExpr, ps []*sfPath) []*sfPath {
	id := f.CalleeID(call)
	switch id {
	case vmPopID:
		for _, p := range ps {
			p.items = append(p.items, sfItem{kind: "pop", node: call, f: f})
		}
		return ps
	case vmPushID:
		for _, p := range ps {
			p.items = append(p.items, sfItem{kind: "push", node: call, f: f})
		}
		return ps
	case vmErrorf:
		for _, p := range ps {
			p.err = true
		}
		return ps
	case "builtin.panic":
		for _, p := range ps {
			p.err, p.exit = true, sfPanic
		}
		return ps
	}
	if h := f.CalleeFunc(call); h != nil && h.Lit == nil && v.relFuncs[h] {
		return e.inline(f, call, h, ps)
	}
	return ps
}

func (v *sfVM) value(f *core.Func, x ast.Expr, p *sfPath) sfVal {
	x = core.Unparen(x)
	if call, ok := x.(*ast.CallExpr); ok && f.CalleeID(call) == vmPopID {
		return sfVal{pop: p.npops()}
	}
	if o := identObj(f.Info(), x); o != nil {
		if val, ok := p.env[o]; ok {
			return val
		}
	}
	return sfVal{}
}

func (v *sfVM) atom(f *core.Func, x ast.Expr, p *sfPath) (bool, bool) {
	info := f.Info()
	if y, nonNilWhenTrue, ok := nilTest(info, x); ok && v.isInstrField(f, y, "Operand") {
		v.askedNil = true
		switch v.nilCfg {
		case 1:
			return !nonNilWhenTrue, true
		case 2:
			return nonNilWhenTrue, true
		}
		return false, false
	}
	if b, ok := x.(*ast.BinaryExpr); ok && (b.Op == token.EQL || b.Op == token.NEQ) {
		for _, pr := range [][2]ast.Expr{{b.X, b.Y}, {b.Y, b.X}} {
			if v.isInstrField(f, pr[0], "Opcode") {
				if tv, ok := info.Types[pr[1]]; ok && tv.Value != nil {
					eq := constant.Compare(tv.Value, token.EQL, v.opVal)
					return eq == (b.Op == token.EQL), true
				}
			}
		}
	}
	return false, false
}

func (v *sfVM) tagValue(f *core.Func, tag ast.Expr) (constant.Value, bool, bool) {
	if v.isInstrField(f, tag, "Opcode") {
		return v.opVal, false, true
	}
	return nil, false, false
}

func (v *sfVM) typeSwitch(f *core.Func, x ast.Expr, clauses [][]ast.Expr, p *sfPath) []bool {
	out := make([]bool, len(clauses)+1)
	for i := range out {
		out[i] = true
	}
	if !v.isInstrField(f, x, "Operand") {
		return out
	}
	// switch i.Operand.(type) { case nil: … }: the nil-ness of the operand decides
	v.askedNil = true
	if v.nilCfg == 0 {
		return out
	}
	nilClause := -1
	for i, cl := range clauses {
		for _, t := range cl {
			if isNilIdent(f.Info(), t) {
				nilClause = i
			}
		}
	}
	for i, cl := range clauses {
		onlyNil := len(cl) > 0
		for _, t := range cl {
			if !isNilIdent(f.Info(), t) {
				onlyNil = false
			}
		}
		switch v.nilCfg {
		case 1: // operand nil: the clause listing nil, else default / none
			if nilClause >= 0 {
				out[i] = i == nilClause
			} else {
				out[i] = cl == nil
			}
		case 2:
			if onlyNil {
				out[i] = false
			}
		}
	}
	if v.nilCfg == 1 {
		hasDef := false
		for _, cl := range clauses {
			if cl == nil {
				hasDef = true
			}
		}
		out[len(clauses)] = nilClause < 0 && !hasDef
	}
	return out
}

func (v *sfVM) typeFact(f *core.Func, x ast.Expr, typs []ast.Expr, neg bool, p *sfPath) {
	val := v.value(f, x, p)
	if val.pop == 0 {
		return
	}
	var ts []string
	for _, t := range typs {
		ts = append(ts, typeStr(f.Info().TypeOf(t)))
	}
	p.popFacts = append(p.popFacts, sfPopFact{pop: val.pop, types: ts, neg: neg})
}

func (v *sfVM) assign(f *core.Func, as *ast.AssignStmt, p *sfPath) {
	// thread.<field> = … i.Operand …  : the instruction sets the program counter
	for i, l := range as.Lhs {
		o, _, ok := fieldSel(f.Info(), l, "internal/runtime/vm")
		if !ok || o != "thread" || i >= len(as.Rhs) {
			continue
		}
		if bt, isB := f.Info().TypeOf(l).Underlying().(*types.Basic); !isB || bt.Info()&types.IsInteger == 0 {
			continue // the program counter is an integer field
		}
		uses := false
		ast.Inspect(as.Rhs[i], func(n ast.Node) bool {
			if e, ok := n.(ast.Expr); ok && v.isInstrField(f, e, "Operand") {
				uses = true
			}
			return !uses
		})
		if uses {
			p.items = append(p.items, sfItem{kind: "setpc", node: as, f: f})
		}
	}
}

func (v *sfVM) memoKey(f *core.Func, x ast.Expr) string               { return "" }
func (v *sfVM) decided(f *core.Func, x ast.Expr, val bool, p *sfPath) {}

// loopFromOperand: the bounds of the loop derive from the instruction operand.
func (v *sfVM) loopFromOperand(it sfItem) bool {
	fs, ok := it.node.(*ast.ForStmt)
	if !ok {
		return false
	}
	f := it.f
	found := false
	check := func(n ast.Node) {
		if n == nil {
			return
		}
		ast.Inspect(n, func(y ast.Node) bool {
			e, ok := y.(ast.Expr)
			if !ok || found {
				return !found
			}
			if v.isInstrField(f, e, "Operand") {
				found = true
			}
			if id, ok := e.(*ast.Ident); ok {
				if obj := f.Info().Uses[id]; obj != nil {
					if d := onceDef(f, obj); d != nil {
						ast.Inspect(d, func(z ast.Node) bool {
							if ze, ok := z.(ast.Expr); ok && v.isInstrField(f, ze, "Operand") {
								found = true
							}
							return !found
						})
					}
				}
			}
			return !found
		})
	}
	check(fs.Init)
	check(fs.Cond)
	return found
}

// pathEffect turns the items of a VM path into an effect.
func (v *sfVM) pathEffect(p *sfPath) (eff sfEffect, setpc bool, bad string) {
	var d, minD sfLin
	for _, it := range p.items {
		switch it.kind {
		case "pop":
			d.c--
			eff.pops.c++
		case "push":
			d.c++
			eff.push.c++
		case "setpc":
			setpc = true
		case "loop":
			k := -1
			for _, b := range it.bodies {
				n := 0
				for _, bi := range b {
					if bi.kind != "pop" {
						return eff, false, "a loop in the case does something other than popping at " + v.c.Prog.Position(it.node.Pos())
					}
					n++
				}
				if k >= 0 && n != k {
					return eff, false, "the iterations of a loop pop different numbers of values at " + v.c.Prog.Position(it.node.Pos())
				}
				k = n
			}
			if k <= 0 {
				continue
			}
			if !v.loopFromOperand(it) {
				return eff, false, "a popping loop whose bound does not derive from the instruction operand at " + v.c.Prog.Position(it.node.Pos())
			}
			d.k -= k
			eff.pops.k += k
		}
		minD = minD.min(d)
	}
	eff.need = minD.neg()
	eff.net = d
	eff.why = strings.Join(p.trail, "; ")
	return eff, setpc, ""
}

// goRep lists the Go types that represent a value of an mtail type on the VM stack.
var goRep = map[string][]string{"String": {"string"}, "Int": {"int", "int64"}, "Float": {"float64"}, "Bool": {"bool"}}

// deadByDeclaredType: the path requires the k-th popped value to have a Go type that the declared
// parameter type of the builtin (types.Builtins) is never represented by.
func (v *sfVM) deadByDeclaredType(op string, p *sfPath) string {
	np := p.npops()
	for _, pf := range p.popFacts {
		cls, ok := builtinArgClass(v.c, op, pf.pop-1, np)
		if !ok {
			// the path may pop more than the builtin has parameters; try with the pops seen so far
			cls, ok = builtinArgClass(v.c, op, pf.pop-1, pf.pop)
		}
		if !ok {
			continue
		}
		reps := goRep[cls]
		if len(reps) == 0 {
			continue
		}
		if !pf.neg {
			any := false
			for _, t := range pf.types {
				if has(reps, t) {
					any = true
				}
			}
			if !any {
				return fmt.Sprintf("pop #%d of %s is the argument of a builtin declared %s in types.Builtins, represented by Go %s only; this path needs it to be %s", pf.pop, op, cls, strings.Join(reps, "/"), strings.Join(pf.types, "/"))
			}
		} else {
			all := true
			for _, r := range reps {
				if !has(pf.types, r) {
					all = false
				}
			}
			if all {
				return fmt.Sprintf("pop #%d of %s is the argument of a builtin declared %s: one of the cases %s always matches", pf.pop, op, cls, strings.Join(pf.types, "/"))
			}
		}
	}
	return ""
}

func sfEffKey(e sfEffect) string {
	return e.need.String() + "|" + e.net.String() + "|" + e.pops.String()
}

// vmEffects computes the table.
func vmEffects(c *core.Check) (map[string]*sfOpEffect, []string, string) {
	exe := c.Prog.Fn(vmExecute)
	if exe == nil {
		return nil, nil, "execute not found"
	}
	c.Analysed(exe)
	if c.Prog.Fn(vmPopID) == nil || c.Prog.Fn(vmPushID) == nil {
		return nil, nil, "thread.Pop / thread.Push not found"
	}
	rel := c.Prog.Reaching(func(f *core.Func) bool {
		return f.Key == vmPopID || f.Key == vmPushID || f.Key == vmErrorf
	})
	relFuncs := map[*core.Func]bool{}
	for f := range rel {
		if core.Rel(f.Pkg.PkgPath) == "internal/runtime/vm" && f.Key != vmPopID && f.Key != vmPushID && f.Key != vmErrorf && f != exe {
			relFuncs[f] = true
		}
	}
	// the opcodes of the top-level switch
	info := exe.Info()
	var top *ast.SwitchStmt
	for _, st := range exe.Body.List {
		if s, ok := st.(*ast.SwitchStmt); ok && s.Tag != nil {
			if o, fl, ok := fieldSel(info, s.Tag, "internal/runtime/code"); ok && o == "Instr" && fl == "Opcode" {
				top = s
			}
		}
	}
	if top == nil {
		return nil, nil, "the switch over the opcode was not found in execute"
	}
	tab := map[string]*sfOpEffect{}
	var order []string
	for _, cl := range top.Body.List {
		cc := cl.(*ast.CaseClause)
		for _, ce := range cc.List {
			tv, ok := info.Types[ce]
			if !ok || tv.Value == nil {
				continue
			}
			op := opName(ce)
			oe := &sfOpEffect{op: op, pos: ce.Pos(), eff: map[int][]sfEffect{}, jump: map[int]int{}, unmodelled: map[int]string{}, noPath: map[int]bool{}}
			tab[op] = oe
			order = append(order, op)
			run := func(nilCfg int) bool {
				cl := &sfVM{c: c, exe: exe, opVal: tv.Value, opName: op, nilCfg: nilCfg, relFuncs: relFuncs}
				eng := &sfEngine{cl: cl, prog: c.Prog, stack: []*core.Func{exe}}
				ps := eng.block(exe, exe.Body.List, []*sfPath{newSfPath()})
				seen := map[string]bool{}
				nset, nfree := 0, 0
				for _, p := range ps {
					if p.err {
						continue
					}
					if p.unmodelled != "" {
						oe.unmodelled[nilCfg] = p.unmodelled
						continue
					}
					eff, setpc, bad := cl.pathEffect(p)
					if bad != "" {
						oe.unmodelled[nilCfg] = bad
						continue
					}
					if len(p.popFacts) > 0 {
						if why := cl.deadByDeclaredType(op, p); why != "" {
							oe.discharged = append(oe.discharged, why)
							continue
						}
					}
					if setpc {
						nset++
					} else {
						nfree++
					}
					if k := sfEffKey(eff); !seen[k] {
						seen[k] = true
						eff.pos = ce.Pos()
						oe.eff[nilCfg] = append(oe.eff[nilCfg], eff)
					}
				}
				switch {
				case nset > 0 && nfree == 0:
					oe.jump[nilCfg] = 1
				case nset > 0:
					oe.jump[nilCfg] = 2
				}
				if len(oe.eff[nilCfg]) == 0 && oe.unmodelled[nilCfg] == "" {
					oe.noPath[nilCfg] = true
				}
				return cl.askedNil
			}
			if run(0) {
				oe.splitsNil = true
				delete(oe.eff, 0)
				delete(oe.jump, 0)
				u := oe.unmodelled[0]
				delete(oe.unmodelled, 0)
				delete(oe.noPath, 0)
				oe.discharged = nil
				run(1)
				run(2)
				_ = u
			}
		}
	}
	return tab, order, ""
}

// effectsFor returns the effects of op for an operand of the given nil-ness.
func (oe *sfOpEffect) effectsFor(nilv int) (effs []sfEffect, jump int, unmodelled string) {
	if !oe.splitsNil {
		return oe.eff[0], oe.jump[0], oe.unmodelled[0]
	}
	cfgs := []int{nilv}
	if nilv == 0 {
		cfgs = []int{1, 2}
	}
	seen := map[string]bool{}
	for _, k := range cfgs {
		if oe.unmodelled[k] != "" {
			unmodelled = oe.unmodelled[k]
		}
		for _, e := range oe.eff[k] {
			if !seen[sfEffKey(e)] {
				seen[sfEffKey(e)] = true
				effs = append(effs, e)
			}
		}
		if oe.jump[k] > jump {
			jump = oe.jump[k]
		}
	}
	return
}

func (oe *sfOpEffect) describe() string {
	one := func(k int) string {
		if oe.unmodelled[k] != "" {
			return "not modelled: " + oe.unmodelled[k]
		}
		if oe.noPath[k] {
			return "every path raises a runtime error or panics"
		}
		var parts []string
		for _, e := range oe.eff[k] {
			parts = append(parts, e.String())
		}
		s := strings.Join(parts, " | ")
		switch oe.jump[k] {
		case 1:
			s += ", jumps"
		case 2:
			s += ", may jump"
		}
		return s
	}
	if !oe.splitsNil {
		return one(0)
	}
	return "operand nil: " + one(1) + "; operand non-nil: " + one(2)
}

// sig identifies what the rest of the enumeration can observe of a path.
func (p *sfPath) sig() string {
	if p.err {
		return "ERR"
	}
	var b strings.Builder
	fmt.Fprintf(&b, "%d|%s|", p.exit, p.unmodelled)
	if p.ret != nil {
		fmt.Fprintf(&b, "r%d|", p.ret.Pos())
	}
	var wr func(items []sfItem)
	wr = func(items []sfItem) {
		for _, it := range items {
			fmt.Fprintf(&b, "%s:%s:%d:%d:%v:%d;", it.kind, strings.Join(it.ops, ","), it.nilv, it.label, it.ref, it.node.Pos())
			for _, bd := range it.bodies {
				b.WriteString("{")
				wr(bd)
				b.WriteString("}")
			}
		}
	}
	wr(p.items)
	var es []string
	for o, v := range p.env {
		if len(v.ops) > 0 || v.nilv != 0 || v.label != 0 || v.pop != 0 || v.tt != nil || v.ref.ok {
			tt := token.NoPos
			if v.tt != nil {
				tt = v.tt.x.Pos()
			}
			es = append(es, fmt.Sprintf("%d=%s/%d/%d/%d/%d/%v", o.Pos(), strings.Join(v.ops, ","), v.nilv, v.label, v.pop, tt, v.ref))
		}
	}
	sort.Strings(es)
	b.WriteString(strings.Join(es, " "))
	var ms []string
	for k, v := range p.memo {
		ms = append(ms, fmt.Sprintf("%s=%v", k, v))
	}
	for k := range p.flags {
		ms = append(ms, "F"+k)
	}
	sort.Strings(ms)
	b.WriteString("|" + strings.Join(ms, " "))
	for _, f := range p.facts {
		fmt.Fprintf(&b, "|%v%v%v", f.ref, f.kinds, f.neg)
	}
	for _, f := range p.popFacts {
		fmt.Fprintf(&b, "|p%d%v%v", f.pop, f.types, f.neg)
	}
	return b.String()
}

func sfDedupe(ps []*sfPath) []*sfPath {
	seen := map[string]bool{}
	var out []*sfPath
	for _, p := range ps {
		k := p.sig()
		if seen[k] {
			continue
		}
		seen[k] = true
		out = append(out, p)
	}
	return out
}

// ---------------------------------------------------------------------------
// grammar side: which node classes can stand where a value is expected
// ---------------------------------------------------------------------------

// sfGrammar is what R6 needs from parser.y.
type sfGrammar struct {
	g       *yGrammar
	classes map[string]map[string]bool            // nonterminal -> class keys ("IntLit", "BinaryExpr{PLUS}")
	operand map[string]bool                       // class keys built in a position where a value is expected
	stmt    map[string]bool                       // class keys built in statement position
	pos     map[string]map[string]map[string]bool // parent kind -> field -> kinds that can stand there
	acts    map[*yAlt]*ast.BlockStmt
	problem string
}

var sfDollar = regexp.MustCompile(`\$(\$|[0-9]+)`)

func classKind(key string) string {
	if i := strings.IndexByte(key, '{'); i >= 0 {
		return key[:i]
	}
	return key
}

func (sg *sfGrammar) parseAction(a *yAlt) *ast.BlockStmt {
	if b, ok := sg.acts[a]; ok {
		return b
	}
	src := sfDollar.ReplaceAllStringFunc(a.Action, func(m string) string {
		if m == "$$" {
			return "yyVAL"
		}
		return "yyD" + m[1:]
	})
	file, err := parser.ParseFile(token.NewFileSet(), "", "package p\nfunc _() {\n"+src+"\n}", 0)
	var body *ast.BlockStmt
	if err != nil {
		if sg.problem == "" {
			sg.problem = fmt.Sprintf("the action at %s:%d does not parse as Go: %v", sg.g.Path, a.Line, err)
		}
	} else {
		body = file.Decls[0].(*ast.FuncDecl).Body
	}
	sg.acts[a] = body
	return body
}

// astStructFields lists the field names of struct `kind` of the compiler's ast package.
func astStructFields(c *core.Check, kind string) []string {
	pkg := c.Prog.Pkgs["internal/runtime/compiler/ast"]
	if pkg == nil {
		return nil
	}
	o := pkg.Types.Scope().Lookup(kind)
	if o == nil {
		return nil
	}
	st, ok := o.Type().Underlying().(*types.Struct)
	if !ok {
		return nil
	}
	var out []string
	for i := 0; i < st.NumFields(); i++ {
		out = append(out, st.Field(i).Name())
	}
	return out
}

// sfCons is a node constructor found in an action.
type sfCons struct {
	kind   string
	ops    []string            // operator tokens when the node has an Op field
	fields map[string]ast.Expr // field -> value expression
	order  []string
}

func readGrammarClasses(c *core.Check, deadKinds map[string]bool) *sfGrammar {
	g, why := readGrammar(c)
	sg := &sfGrammar{g: g, classes: map[string]map[string]bool{}, operand: map[string]bool{}, stmt: map[string]bool{},
		pos: map[string]map[string]map[string]bool{}, acts: map[*yAlt]*ast.BlockStmt{}}
	if g == nil {
		sg.problem = "parser.y not readable: " + why
		return sg
	}
	symOf := func(a *yAlt, id *ast.Ident) (string, bool) {
		if !strings.HasPrefix(id.Name, "yyD") {
			return "", false
		}
		k := 0
		fmt.Sscan(id.Name[3:], &k)
		if k < 1 || k > len(a.Syms) {
			return "", false
		}
		return a.Syms[k-1], true
	}
	// locals of an action
	localsOf := func(body *ast.BlockStmt) map[string]ast.Expr {
		m := map[string]ast.Expr{}
		ast.Inspect(body, func(n ast.Node) bool {
			if as, ok := n.(*ast.AssignStmt); ok && as.Tok == token.DEFINE && len(as.Lhs) == len(as.Rhs) {
				for i, l := range as.Lhs {
					if id, ok := l.(*ast.Ident); ok {
						m[id.Name] = as.Rhs[i]
					}
				}
			}
			return true
		})
		return m
	}
	// constructor of the compiler's ast package: &ast.K{…} or ast.K{…}
	consOf := func(a *yAlt, e ast.Expr) *sfCons {
		if u, ok := e.(*ast.UnaryExpr); ok && u.Op == token.AND {
			e = u.X
		}
		cl, ok := e.(*ast.CompositeLit)
		if !ok {
			return nil
		}
		sel, ok := cl.Type.(*ast.SelectorExpr)
		if !ok {
			return nil
		}
		if x, ok := sel.X.(*ast.Ident); !ok || x.Name != "ast" {
			return nil
		}
		k := &sfCons{kind: sel.Sel.Name, fields: map[string]ast.Expr{}}
		names := astStructFields(c, k.kind)
		for i, el := range cl.Elts {
			if kv, ok := el.(*ast.KeyValueExpr); ok {
				if id, ok := kv.Key.(*ast.Ident); ok {
					k.fields[id.Name] = kv.Value
					k.order = append(k.order, id.Name)
				}
			} else if i < len(names) {
				k.fields[names[i]] = el
				k.order = append(k.order, names[i])
			}
		}
		if opx, ok := k.fields["Op"]; ok {
			if id, ok := opx.(*ast.Ident); ok {
				if s, isD := symOf(a, id); isD {
					k.ops = g.opTokens(s)
				} else {
					k.ops = []string{id.Name}
				}
			}
		}
		return k
	}
	keysOf := func(k *sfCons) []string {
		if len(k.ops) == 0 {
			return []string{k.kind}
		}
		var out []string
		for _, o := range k.ops {
			out = append(out, k.kind+"{"+o+"}")
		}
		return out
	}
	// the values an alternative assigns to $$
	valuesOf := func(a *yAlt) []ast.Expr {
		body := sg.parseAction(a)
		if body == nil || strings.TrimSpace(a.Action) == "" {
			if len(a.Syms) >= 1 && strings.TrimSpace(a.Action) == "" {
				return []ast.Expr{&ast.Ident{Name: "yyD1"}}
			}
			return nil
		}
		var out []ast.Expr
		ast.Inspect(body, func(n ast.Node) bool {
			if as, ok := n.(*ast.AssignStmt); ok && len(as.Lhs) == 1 && len(as.Rhs) == 1 {
				if id, ok := as.Lhs[0].(*ast.Ident); ok && id.Name == "yyVAL" {
					out = append(out, as.Rhs[0])
				}
			}
			return true
		})
		return out
	}
	// classes of an expression, given the current class table
	var exprClasses func(a *yAlt, locals map[string]ast.Expr, e ast.Expr, depth int) map[string]bool
	exprClasses = func(a *yAlt, locals map[string]ast.Expr, e ast.Expr, depth int) map[string]bool {
		out := map[string]bool{}
		if depth > 4 {
			return out
		}
		if id, ok := e.(*ast.Ident); ok {
			if s, isD := symOf(a, id); isD {
				for k := range sg.classes[s] {
					out[k] = true
				}
			} else if d, ok := locals[id.Name]; ok {
				return exprClasses(a, locals, d, depth+1)
			}
			return out
		}
		if k := consOf(a, e); k != nil {
			for _, key := range keysOf(k) {
				out[key] = true
			}
		}
		return out
	}
	// fixpoint of the class table
	for changed := true; changed; {
		changed = false
		for _, nt := range g.Order {
			for i := range g.Rules[nt] {
				a := &g.Rules[nt][i]
				body := sg.parseAction(a)
				var locals map[string]ast.Expr
				if body != nil {
					locals = localsOf(body)
				}
				for _, v := range valuesOf(a) {
					for k := range exprClasses(a, locals, v, 0) {
						if sg.classes[nt] == nil {
							sg.classes[nt] = map[string]bool{}
						}
						if !sg.classes[nt][k] {
							sg.classes[nt][k] = true
							changed = true
						}
					}
				}
			}
		}
	}
	// liveness by context
	type item struct {
		sym string
		ctx string // "stmt" or "operand"
	}
	seen := map[item]bool{}
	var work []item
	push := func(s, ctx string) {
		it := item{s, ctx}
		if _, isNT := g.Rules[s]; isNT && !seen[it] {
			seen[it] = true
			work = append(work, it)
		}
	}
	onlyBlocks := func(cls map[string]bool) bool {
		if len(cls) == 0 {
			return false
		}
		for k := range cls {
			if classKind(k) != "StmtList" {
				return false
			}
		}
		return true
	}
	addPos := func(parent, field string, cls map[string]bool) {
		if sg.pos[parent] == nil {
			sg.pos[parent] = map[string]map[string]bool{}
		}
		if sg.pos[parent][field] == nil {
			sg.pos[parent][field] = map[string]bool{}
		}
		for k := range cls {
			sg.pos[parent][field][classKind(k)] = true
		}
	}
	var visit func(a *yAlt, locals map[string]ast.Expr, e ast.Expr, ctx string, depth int)
	visit = func(a *yAlt, locals map[string]ast.Expr, e ast.Expr, ctx string, depth int) {
		if depth > 6 || e == nil {
			return
		}
		if id, ok := e.(*ast.Ident); ok {
			if s, isD := symOf(a, id); isD {
				push(s, ctx)
			} else if d, ok := locals[id.Name]; ok {
				visit(a, locals, d, ctx, depth+1)
			}
			return
		}
		k := consOf(a, e)
		if k == nil {
			return
		}
		for _, key := range keysOf(k) {
			if ctx == "stmt" {
				sg.stmt[key] = true
			} else {
				sg.operand[key] = true
			}
		}
		for _, fname := range k.order {
			v := k.fields[fname]
			cls := exprClasses(a, locals, v, 0)
			if len(cls) == 0 {
				continue
			}
			addPos(k.kind, fname, cls)
			if deadKinds[k.kind] {
				continue // the code generator never descends into this kind
			}
			cctx := "operand"
			if k.kind == "StmtList" || onlyBlocks(cls) {
				cctx = "stmt"
			}
			visit(a, locals, v, cctx, depth+1)
		}
	}
	if len(g.Order) > 0 {
		for _, a := range g.Rules[g.Order[0]] {
			for _, s := range a.Syms {
				push(s, "stmt")
			}
		}
	}
	for len(work) > 0 {
		it := work[0]
		work = work[1:]
		for i := range g.Rules[it.sym] {
			a := &g.Rules[it.sym][i]
			body := sg.parseAction(a)
			var locals map[string]ast.Expr
			if body != nil {
				locals = localsOf(body)
			}
			for _, v := range valuesOf(a) {
				visit(a, locals, v, it.ctx, 0)
			}
			if body == nil {
				continue
			}
			// X.(*ast.K).Children = append(X.(*ast.K).Children, $k)
			ast.Inspect(body, func(n ast.Node) bool {
				call, ok := n.(*ast.CallExpr)
				if !ok || len(call.Args) < 2 {
					return true
				}
				if id, ok := call.Fun.(*ast.Ident); !ok || id.Name != "append" {
					return true
				}
				sel, ok := call.Args[0].(*ast.SelectorExpr)
				if !ok {
					return true
				}
				ta, ok := sel.X.(*ast.TypeAssertExpr)
				if !ok {
					return true
				}
				parent := ""
				if st, ok := ta.Type.(*ast.StarExpr); ok {
					if ts, ok := st.X.(*ast.SelectorExpr); ok {
						parent = ts.Sel.Name
					}
				}
				if parent == "" {
					return true
				}
				for _, arg := range call.Args[1:] {
					id, ok := arg.(*ast.Ident)
					if !ok {
						continue
					}
					s, isD := symOf(a, id)
					if !isD {
						continue
					}
					addPos(parent, sel.Sel.Name, sg.classes[s])
					if parent == "StmtList" {
						push(s, "stmt")
					} else {
						push(s, "operand")
					}
				}
				return true
			})
		}
	}
	return sg
}

// ---------------------------------------------------------------------------
// code generator side
// ---------------------------------------------------------------------------

const (
	cgBefore   = "internal/runtime/compiler/codegen.(*codegen).VisitBefore"
	cgAfter    = "internal/runtime/compiler/codegen.(*codegen).VisitAfter"
	cgEmit     = "internal/runtime/compiler/codegen.(*codegen).emit"
	cgErrorf   = "internal/runtime/compiler/codegen.(*codegen).errorf"
	cgNewLabel = "internal/runtime/compiler/codegen.(*codegen).newLabel"
	cgSetLabel = "internal/runtime/compiler/codegen.(*codegen).setLabel"
	astWalk    = "internal/runtime/compiler/ast.Walk"
	cgOpType   = "internal/runtime/compiler/codegen.getOpcodeForType"
	astPkg     = "internal/runtime/compiler/ast"
)

// sfSel is the configured value of the selector field (Op of an operator node, Name of a builtin call).
type sfSel struct {
	field string         // "" = the kind has no selector
	val   constant.Value // nil with other=true: a value no clause mentions
	name  string         // token name / builtin name
	other bool
}

type sfCG struct {
	c        *core.Check
	kind     string
	sel      sfSel
	relFuncs map[*core.Func]bool
	typedOps map[string][]string // token name -> opcodes of typedOperators
	builtins map[string][]string // builtin name -> opcode of the builtin map
	rangeDef map[types.Object]*ast.RangeStmt
	ranged   map[*core.Func]bool
}

func (g *sfCG) relevant(f *core.Func, call *ast.CallExpr) bool {
	switch f.CalleeID(call) {
	case cgEmit, cgErrorf, cgSetLabel, astWalk:
		return true
	}
	if h := f.CalleeFunc(call); h != nil && g.relFuncs[h] {
		return true
	}
	return false
}

func (g *sfCG) rangeOf(f *core.Func, obj types.Object) *ast.RangeStmt {
	if !g.ranged[f] {
		g.ranged[f] = true
		ast.Inspect(f.Body, func(n ast.Node) bool {
			if rs, ok := n.(*ast.RangeStmt); ok && rs.Value != nil {
				if o := identObj(f.Info(), rs.Value); o != nil {
					g.rangeDef[o] = rs
				}
			}
			return true
		})
	}
	return g.rangeDef[obj]
}

// isListKind: a node kind that is nothing but a list of children.
func isListKind(kind string) bool { return kind == "ExprList" || kind == "StmtList" }

// childRef resolves an expression to the child of an AST node it denotes.
func (g *sfCG) childRef(f *core.Func, x ast.Expr, p *sfPath, depth int) sfRef {
	if depth > 8 || x == nil {
		return sfRef{}
	}
	info := f.Info()
	switch y := core.Unparen(x).(type) {
	case *ast.TypeAssertExpr:
		return g.childRef(f, y.X, p, depth+1)
	case *ast.Ident:
		obj := identObj(info, y)
		if obj == nil {
			return sfRef{}
		}
		if p != nil {
			if v, ok := p.env[obj]; ok && v.ref.ok {
				return v.ref
			}
		}
		if rs := g.rangeOf(f, obj); rs != nil {
			r := g.childRef(f, rs.X, p, depth+1)
			if r.ok && r.idx < 0 && !r.elem {
				r.elem = true
				return r
			}
			return sfRef{}
		}
		if d := onceDef(f, obj); d != nil {
			return g.childRef(f, d, p, depth+1)
		}
		// v, ok := <child>.(*T)
		var src ast.Expr
		ast.Inspect(f.Body, func(n ast.Node) bool {
			if as, ok := n.(*ast.AssignStmt); ok && as.Tok == token.DEFINE && len(as.Lhs) == 2 && len(as.Rhs) == 1 {
				if id, ok := as.Lhs[0].(*ast.Ident); ok && info.Defs[id] == obj {
					if ta, ok := core.Unparen(as.Rhs[0]).(*ast.TypeAssertExpr); ok {
						src = ta.X
					}
				}
			}
			return src == nil
		})
		if src != nil {
			return g.childRef(f, src, p, depth+1)
		}
	case *ast.IndexExpr:
		r := g.childRef(f, y.X, p, depth+1)
		if k, ok := constInt(info, y.Index); ok && r.ok && r.idx < 0 && !r.elem {
			r.idx = int(k)
			return r
		}
	case *ast.SelectorExpr:
		owner, field, ok := fieldSel(info, y, astPkg)
		if !ok {
			return sfRef{}
		}
		if isListKind(owner) {
			// <list node>.Children: the elements of the list that the inner expression denotes
			if inner := g.childRef(f, y.X, p, depth+1); inner.ok {
				return inner
			}
		}
		return sfRef{parent: owner, field: field, idx: -1, ok: true}
	}
	return sfRef{}
}

func (g *sfCG) value(f *core.Func, x ast.Expr, p *sfPath) sfVal {
	info := f.Info()
	x = core.Unparen(x)
	if isNilIdent(info, x) {
		return sfVal{nilv: 1}
	}
	if op, ok := constOpcode(info, x); ok {
		return sfVal{ops: []string{op}, nilv: 2}
	}
	if o := identObj(info, x); o != nil {
		if v, ok := p.env[o]; ok {
			return v
		}
	}
	nilv := 2
	if t := info.TypeOf(x); t != nil {
		if _, isIface := t.Underlying().(*types.Interface); isIface {
			nilv = 0
		}
	} else {
		nilv = 0
	}
	switch y := x.(type) {
	case *ast.CallExpr:
		switch f.CalleeID(y) {
		case cgNewLabel:
			return sfVal{label: y.Pos(), nilv: 2}
		case cgOpType:
			if len(y.Args) >= 1 {
				tok := ""
				if tv, ok := info.Types[y.Args[0]]; ok && tv.Value != nil {
					tok = opName(y.Args[0])
				} else if g.isSelector(f, y.Args[0]) && !g.sel.other {
					tok = g.sel.name
				}
				if ops := g.typedOps[tok]; len(ops) > 0 {
					return sfVal{ops: uniq(append([]string(nil), ops...)), nilv: 2}
				}
			}
		}
	case *ast.IndexExpr:
		if isPkgVar(info, y.X, "builtin") && g.isSelector(f, y.Index) && !g.sel.other {
			if ops := g.builtins[g.sel.name]; len(ops) > 0 {
				return sfVal{ops: ops, nilv: 2}
			}
		}
	}
	if r := g.childRef(f, x, p, 0); r.ok {
		return sfVal{ref: r, nilv: nilv}
	}
	return sfVal{nilv: nilv}
}

// isSelector: x is the selector field of the node the clause is about.
func (g *sfCG) isSelector(f *core.Func, x ast.Expr) bool {
	if g.sel.field == "" {
		return false
	}
	owner, field, ok := fieldSel(f.Info(), x, astPkg)
	return ok && owner == g.kind && field == g.sel.field
}

func (g *sfCG) call(e *sfEngine, f *core.Func, call *ast.CallExpr, ps []*sfPath) []*sfPath {
	id := f.CalleeID(call)
	switch id {
	case cgEmit:
		if len(call.Args) != 3 {
			break
		}
		for _, p := range ps {
			opv := g.value(f, call.Args[1], p)
			opd := g.value(f, call.Args[2], p)
			if len(opv.ops) == 0 {
				p.unmodelled = "the opcode of the emit at " + g.c.Prog.Position(call.Pos()) + " is not resolved"
				continue
			}
			p.items = append(p.items, sfItem{kind: "emit", node: call, f: f, ops: opv.ops, nilv: opd.nilv, label: opd.label})
		}
		return ps
	case cgErrorf:
		for _, p := range ps {
			p.err = true
		}
		return ps
	case cgSetLabel:
		for _, p := range ps {
			v := g.value(f, call.Args[0], p)
			if v.label == 0 {
				p.unmodelled = "setLabel of an unknown label at " + g.c.Prog.Position(call.Pos())
				continue
			}
			p.items = append(p.items, sfItem{kind: "setlabel", node: call, f: f, label: v.label})
		}
		return ps
	case astWalk:
		if len(call.Args) != 2 {
			break
		}
		for _, p := range ps {
			r := g.childRef(f, call.Args[1], p, 0)
			if !r.ok {
				p.unmodelled = "ast.Walk of something that is not a child of the node at " + g.c.Prog.Position(call.Pos())
				continue
			}
			p.items = append(p.items, sfItem{kind: "child", node: call, f: f, ref: r})
		}
		return ps
	case "builtin.panic":
		for _, p := range ps {
			p.err, p.exit = true, sfPanic
		}
		return ps
	}
	// c.errors.Add(…) reports a compile error as well
	if strings.HasSuffix(id, "errors.ErrorList).Add") {
		for _, p := range ps {
			p.err = true
		}
		return ps
	}
	if h := f.CalleeFunc(call); h != nil && h.Lit == nil && g.relFuncs[h] {
		return e.inline(f, call, h, ps)
	}
	return ps
}

func (g *sfCG) atom(f *core.Func, x ast.Expr, p *sfPath) (bool, bool) {
	info := f.Info()
	b, ok := x.(*ast.BinaryExpr)
	if !ok || (b.Op != token.EQL && b.Op != token.NEQ) {
		return false, false
	}
	for _, pr := range [][2]ast.Expr{{b.X, b.Y}, {b.Y, b.X}} {
		if g.isSelector(f, pr[0]) {
			if tv, ok := info.Types[pr[1]]; ok && tv.Value != nil {
				eq := !g.sel.other && g.sel.val != nil && tv.Value.Kind() == g.sel.val.Kind() && constant.Compare(tv.Value, token.EQL, g.sel.val)
				return eq == (b.Op == token.EQL), true
			}
		}
	}
	return false, false
}

func (g *sfCG) tagValue(f *core.Func, tag ast.Expr) (constant.Value, bool, bool) {
	if g.isSelector(f, tag) {
		return g.sel.val, g.sel.other, true
	}
	return nil, false, false
}

// isNodeParam: x is the ast.Node parameter of a visitor method.
func (g *sfCG) isNodeParam(f *core.Func, x ast.Expr) bool {
	o := identObj(f.Info(), x)
	v, ok := o.(*types.Var)
	if !ok || f.Key != cgBefore && f.Key != cgAfter {
		return false
	}
	for _, fl := range f.Type.Params.List {
		for _, nm := range fl.Names {
			if f.Info().Defs[nm] == v {
				return true
			}
		}
	}
	return false
}

func (g *sfCG) typeSwitch(f *core.Func, x ast.Expr, clauses [][]ast.Expr, p *sfPath) []bool {
	out := make([]bool, len(clauses)+1)
	if g.isNodeParam(f, x) {
		hit := false
		def := -1
		for i, cl := range clauses {
			if cl == nil {
				def = i
			}
			for _, t := range cl {
				if structName(f.Info().TypeOf(t), astPkg) == g.kind {
					out[i] = true
					hit = true
				}
			}
		}
		if !hit {
			if def >= 0 {
				out[def] = true
			} else {
				out[len(clauses)] = true
			}
		}
		return out
	}
	for i := range out {
		out[i] = true
	}
	return out
}

func (g *sfCG) typeFact(f *core.Func, x ast.Expr, typs []ast.Expr, neg bool, p *sfPath) {
	if g.isNodeParam(f, x) {
		return
	}
	r := g.childRef(f, x, p, 0)
	if !r.ok {
		return
	}
	var ks []string
	for _, t := range typs {
		if k := structName(f.Info().TypeOf(t), astPkg); k != "" {
			ks = append(ks, k)
		}
	}
	if len(ks) > 0 {
		p.facts = append(p.facts, sfFact{ref: r, kinds: ks, neg: neg})
	}
}

func (g *sfCG) assign(f *core.Func, as *ast.AssignStmt, p *sfPath) {
	for _, l := range as.Lhs {
		if o, fl, ok := fieldSel(f.Info(), l, "internal/runtime/code"); ok && o == "Instr" && fl == "Opcode" {
			p.unmodelled = "the opcode of an instruction already emitted is rewritten at " + g.c.Prog.Position(as.Pos())
		}
	}
}

// memoKey renders a condition that depends on nothing but the node itself and
// package-level objects; the node variable is written $n, so the same test in
// VisitBefore and VisitAfter gets the same key.
func (g *sfCG) memoKey(f *core.Func, x ast.Expr) string {
	info := f.Info()
	ok := true
	var render func(e ast.Expr) string
	render = func(e ast.Expr) string {
		switch y := e.(type) {
		case *ast.ParenExpr:
			return render(y.X)
		case *ast.Ident:
			switch o := info.Uses[y].(type) {
			case *types.PkgName:
				return o.Imported().Path()
			case *types.Var:
				if structName(o.Type(), astPkg) == g.kind && len(f.Type.Params.List) > 0 {
					return "$n"
				}
				if o.Pkg() != nil && o.Parent() == o.Pkg().Scope() {
					return o.Pkg().Path() + "." + o.Name()
				}
				ok = false
				return ""
			case *types.Const, *types.Func, *types.Nil, *types.TypeName, *types.Builtin:
				return y.Name
			}
			ok = false
			return ""
		case *ast.SelectorExpr:
			return render(y.X) + "." + y.Sel.Name
		case *ast.CallExpr:
			var as []string
			for _, a := range y.Args {
				as = append(as, render(a))
			}
			return render(y.Fun) + "(" + strings.Join(as, ",") + ")"
		case *ast.BinaryExpr:
			return "(" + render(y.X) + y.Op.String() + render(y.Y) + ")"
		case *ast.UnaryExpr:
			return y.Op.String() + render(y.X)
		case *ast.StarExpr:
			return "*" + render(y.X)
		case *ast.BasicLit:
			return y.Value
		case *ast.TypeAssertExpr:
			if y.Type != nil {
				return render(y.X) + ".(" + render(y.Type) + ")"
			}
		case *ast.IndexExpr:
			return render(y.X) + "[" + render(y.Index) + "]"
		}
		ok = false
		return ""
	}
	s := render(x)
	if !ok {
		return ""
	}
	return s
}

// decided flags the paths on which an identifier is not bound to a metric variable.
func (g *sfCG) decided(f *core.Func, x ast.Expr, val bool, p *sfPath) {
	info := f.Info()
	if y, nonNilWhenTrue, ok := nilTest(info, x); ok {
		if o, fl, isF := fieldSel(info, y, astPkg); isF && o == g.kind && fl == "Symbol" && val != nonNilWhenTrue {
			p.flags["nonvar"] = true
		}
		return
	}
	b, ok := x.(*ast.BinaryExpr)
	if !ok || (b.Op != token.EQL && b.Op != token.NEQ) {
		return
	}
	for _, pr := range [][2]ast.Expr{{b.X, b.Y}, {b.Y, b.X}} {
		co, isConst := usedObj(info, pr[1]).(*types.Const)
		if !isConst || co.Pkg() == nil || !strings.HasSuffix(co.Pkg().Path(), "compiler/symbol") || co.Name() != "VarSymbol" {
			continue
		}
		if _, fl, isF := fieldSel(info, pr[0], "compiler/symbol"); isF && fl == "Kind" {
			if (b.Op == token.NEQ) == val {
				p.flags["nonvar"] = true
			}
		}
	}
}

// ---------------------------------------------------------------------------
// putting both sides together
// ---------------------------------------------------------------------------

type sfRunner struct {
	c        *core.Check
	vm       map[string]*sfOpEffect
	vb, va   *core.Func
	walk     *core.Func
	sg       *sfGrammar
	relFuncs map[*core.Func]bool
	typedOps map[string][]string
	builtins map[string][]string
	sigs     map[string][]string
	kindEff  map[string][]sfAlt
	kindBad  map[string]string
	notes    []string
	walkKids map[string][]string // kind -> fields walked by ast.Walk ("" entry = kind has no clause)
	walkHas  map[string]bool
	excluded []string
}

// againstGrammar: the path assumes that a child has none of the kinds that parser.y can put there.
func (r *sfRunner) againstGrammar(p *sfPath) string {
	for _, f := range p.facts {
		if !f.neg || f.ref.idx >= 0 || f.ref.elem {
			continue
		}
		pk := r.sg.pos[f.ref.parent][f.ref.field]
		if len(pk) == 0 {
			continue
		}
		all := true
		for k := range pk {
			if !has(f.kinds, k) {
				all = false
			}
		}
		if all {
			var ks []string
			for k := range pk {
				ks = append(ks, k)
			}
			sort.Strings(ks)
			return fmt.Sprintf("a Go-level path on which %s is not a %s is excluded: every production of parser.y that builds the node puts a %s there", f.ref, strings.Join(f.kinds, "/"), strings.Join(ks, "/"))
		}
	}
	return ""
}

func (r *sfRunner) client(kind string, sel sfSel) *sfCG {
	return &sfCG{c: r.c, kind: kind, sel: sel, relFuncs: r.relFuncs, typedOps: r.typedOps, builtins: r.builtins,
		rangeDef: map[types.Object]*ast.RangeStmt{}, ranged: map[*core.Func]bool{}}
}

// walkChildren extracts, per node kind, the fields that ast.Walk visits between VisitBefore and VisitAfter.
func (r *sfRunner) walkChildren() {
	r.walkKids, r.walkHas = map[string][]string{}, map[string]bool{}
	w := r.walk
	info := w.Info()
	ast.Inspect(w.Body, func(n ast.Node) bool {
		ts, ok := n.(*ast.TypeSwitchStmt)
		if !ok {
			return true
		}
		for _, cl := range ts.Body.List {
			cc := cl.(*ast.CaseClause)
			var fields []string
			ast.Inspect(cc, func(m ast.Node) bool {
				call, ok := m.(*ast.CallExpr)
				if !ok || len(call.Args) != 2 {
					return true
				}
				h := w.CalleeFunc(call)
				if h == nil || core.Rel(h.Pkg.PkgPath) != astPkg {
					return true
				}
				if h != w {
					// a helper of the package that walks a list of nodes
					callsWalk := false
					for _, cf := range h.Callees() {
						if cf == w {
							callsWalk = true
						}
					}
					if !callsWalk {
						return true
					}
				}
				if _, fl, ok := fieldSel(info, call.Args[1], astPkg); ok {
					fields = append(fields, fl)
				}
				return true
			})
			for _, t := range cc.List {
				if k := structName(info.TypeOf(t), astPkg); k != "" {
					r.walkKids[k] = fields
					r.walkHas[k] = true
				}
			}
		}
		return false
	})
}

// classPaths enumerates the Go-level paths of the code generator for one node class:
// VisitBefore, the children ast.Walk visits, VisitAfter.
func (r *sfRunner) classPaths(kind string, sel sfSel, beforeOnly bool) []*sfPath {
	g := r.client(kind, sel)
	eng := &sfEngine{cl: g, prog: r.c.Prog, stack: []*core.Func{r.vb}}
	ps := eng.block(r.vb, r.vb.Body.List, []*sfPath{newSfPath()})
	var out []*sfPath
	for _, p := range ps {
		if p.err || p.unmodelled != "" {
			out = append(out, p)
			continue
		}
		if p.exit != sfReturn || p.ret == nil || len(p.ret.Results) < 1 {
			p.unmodelled = "VisitBefore does not end in a return statement with a visitor"
			out = append(out, p)
			continue
		}
		if isNilIdent(r.vb.Info(), p.ret.Results[0]) {
			p.flags["handled"] = true // children handled by the clause, VisitAfter not called
			out = append(out, p)
			continue
		}
		if beforeOnly {
			out = append(out, p)
			continue
		}
		p.exit, p.ret = sfRun, nil
		if !r.walkHas[kind] {
			p.unmodelled = "ast.Walk has no clause for " + kind + " (it panics)"
			out = append(out, p)
			continue
		}
		for _, fl := range r.walkKids[kind] {
			p.items = append(p.items, sfItem{kind: "child", node: r.walk.Decl, f: r.walk, ref: sfRef{parent: kind, field: fl, idx: -1, ok: true}})
		}
		eng2 := &sfEngine{cl: g, prog: r.c.Prog, stack: []*core.Func{r.va}}
		out = append(out, eng2.block(r.va, r.va.Body.List, []*sfPath{p})...)
	}
	return sfDedupe(out)
}

// specialKind: node kinds that do not stand for one value.
//
//	IDTerm      – only ever the LHS of an IndexedExpr, which supplies the keys its Dload pops;
//	PatternExpr – a regular expression constant: no code, its consumer takes the regexp index;
//	ExprList, StmtList – lists.
func specialKind(k string) bool {
	return k == "IDTerm" || k == "PatternExpr" || k == "ExprList" || k == "StmtList"
}

// kindEffect computes the set of net effects of a special kind.
func (r *sfRunner) kindEffect(kind string) ([]sfAlt, string) {
	if e, ok := r.kindEff[kind]; ok {
		return e, r.kindBad[kind]
	}
	r.kindEff[kind] = nil // recursion guard
	seen := map[[2]sfLin]bool{}
	var out []sfAlt
	bad := ""
	for _, p := range r.classPaths(kind, sfSel{}, false) {
		if p.err {
			continue
		}
		if p.unmodelled != "" {
			bad = p.unmodelled
			continue
		}
		if p.flags["nonvar"] && len(p.items) == 0 {
			r.notes = append(r.notes, kind+": a path that generates no code is taken when the identifier is not bound to a metric variable ("+strings.Join(p.trail, "; ")+")")
			continue
		}
		so := r.simulate(kind, sfSel{}, p.items, p.facts, true)
		if so.unmodelled != "" {
			bad = so.unmodelled
			continue
		}
		if len(so.problems) > 0 {
			bad = so.problems[0]
			continue
		}
		for _, f := range so.finals {
			k := [2]sfLin{so.minD.neg(), f}
			if !seen[k] {
				seen[k] = true
				out = append(out, sfAlt{need: so.minD.neg(), net: f, exact: true, what: kind})
			}
		}
	}
	r.kindEff[kind], r.kindBad[kind] = out, bad
	return out, bad
}

type sfAlt struct {
	need, net sfLin
	exact     bool
	jump      int
	what      string
}

// contribution: what a child leaves on the stack.
func (r *sfRunner) contribution(kind string, sel sfSel, ref sfRef, facts []sfFact) (alts []sfAlt, unmodelled string) {
	posKinds := func(rf sfRef) map[string]bool {
		m := map[string]bool{}
		src := r.sg.pos[rf.parent][rf.field]
		if rf.idx >= 0 || rf.elem {
			src = r.sg.pos["ExprList"]["Children"]
		}
		for k := range src {
			m[k] = true
		}
		return m
	}
	one := func(rf sfRef) ([]sfAlt, string) {
		pk := posKinds(rf)
		for _, f := range facts {
			if f.ref.parent != rf.parent || f.ref.field != rf.field || f.ref.idx != rf.idx || f.ref.elem || rf.elem {
				continue
			}
			if !f.neg && len(f.kinds) == 1 {
				pk = map[string]bool{f.kinds[0]: true}
			} else if f.neg {
				for _, k := range f.kinds {
					delete(pk, k)
				}
			}
		}
		allBlocks := len(pk) > 0
		for k := range pk {
			if k != "StmtList" {
				allBlocks = false
			}
		}
		if allBlocks {
			return []sfAlt{{exact: false, what: "statements"}}, ""
		}
		if len(pk) == 1 {
			for k := range pk {
				if k == "IDTerm" || k == "PatternExpr" {
					effs, bad := r.kindEffect(k)
					if bad != "" {
						return nil, "the code of " + k + " is not modelled: " + bad
					}
					out := effs
					if len(out) == 0 {
						return nil, "no path generates code for " + k
					}
					return out, ""
				}
			}
		}
		return []sfAlt{{net: sfLin{1, 0}, exact: true, what: "value"}}, ""
	}
	if ref.idx < 0 && !ref.elem {
		pk := posKinds(ref)
		if len(pk) == 1 && pk["ExprList"] {
			if kind != "BuiltinExpr" || sel.field == "" || sel.other {
				return nil, "a list child of unknown length: " + ref.String()
			}
			sig, ok := r.sigs[sel.name]
			if !ok || len(sig) == 0 {
				return nil, "no signature in types.Builtins for " + sel.name
			}
			total := []sfAlt{{exact: true}}
			for i := 0; i < len(sig)-1; i++ {
				rf := ref
				rf.idx = i
				as, bad := one(rf)
				if bad != "" {
					return nil, bad
				}
				var next []sfAlt
				for _, t := range total {
					for _, a := range as {
						next = append(next, sfAlt{net: t.net.add(a.net), exact: t.exact && a.exact, what: "arguments"})
					}
				}
				total = next
			}
			return total, ""
		}
	}
	return one(ref)
}

type sfSimOut struct {
	finals     []sfLin
	exact      bool
	problems   []string
	probNode   ast.Node
	unmodelled string
	lastEmit   *sfItem
	minD       sfLin // lowest depth reached (≤ 0)
}

// simulate runs the instruction sequence of one Go-level path over all its runtime branches.
func (r *sfRunner) simulate(kind string, sel sfSel, items []sfItem, facts []sfFact, free bool) sfSimOut {
	out := sfSimOut{exact: true}
	// alternatives per item
	alts := make([][]sfAlt, len(items))
	labelAt := map[token.Pos]int{}
	for i, it := range items {
		switch it.kind {
		case "setlabel":
			if _, dup := labelAt[it.label]; dup {
				out.unmodelled = "a label is placed twice"
				return out
			}
			labelAt[it.label] = i
			alts[i] = []sfAlt{{exact: true, what: "label"}}
		case "child":
			as, bad := r.contribution(kind, sel, it.ref, facts)
			if bad != "" {
				out.unmodelled = bad
				return out
			}
			alts[i] = as
		case "emit":
			seen := map[string]bool{}
			for _, op := range it.ops {
				oe := r.vm[op]
				if oe == nil {
					out.unmodelled = "opcode " + op + " has no case in vm.execute"
					return out
				}
				effs, jump, bad := oe.effectsFor(it.nilv)
				if bad != "" {
					out.unmodelled = "the VM case of " + op + " is not modelled: " + bad
					return out
				}
				if len(effs) == 0 {
					out.unmodelled = "every path of the VM case of " + op + " raises an error"
					return out
				}
				for _, e := range effs {
					a := sfAlt{need: e.need, net: e.net, exact: true, jump: jump, what: op + " (" + e.String() + ")"}
					k := fmt.Sprint(a.need, a.net, a.jump)
					if !seen[k] {
						seen[k] = true
						alts[i] = append(alts[i], a)
					}
				}
			}
		case "loop":
			rs, ok := it.node.(*ast.RangeStmt)
			if !ok {
				out.unmodelled = "a for loop that emits code at " + r.c.Prog.Position(it.node.Pos())
				return out
			}
			lr := r.client(kind, sel).childRef(it.f, rs.X, nil, 0)
			if !lr.ok || !r.sg.pos[lr.parent][lr.field]["ExprList"] {
				out.unmodelled = "a loop that emits code and does not range over the index list of the node, at " + r.c.Prog.Position(it.node.Pos())
				return out
			}
			var per *sfLin
			for _, b := range it.bodies {
				so := r.simulate(kind, sel, b, facts, false)
				if so.unmodelled != "" {
					return so
				}
				if len(so.problems) > 0 {
					so.problems[0] = "in the loop over the index expressions: " + so.problems[0]
					return so
				}
				if !so.exact || len(so.finals) != 1 || so.finals[0].k != 0 {
					out.unmodelled = "the iterations of a loop do not leave a fixed number of values"
					return out
				}
				if per != nil && *per != so.finals[0] {
					out.problems = append(out.problems, fmt.Sprintf("the iterations of the loop over the index expressions leave different numbers of values (%s and %s)", *per, so.finals[0]))
					out.probNode = it.node
					return out
				}
				f := so.finals[0]
				per = &f
			}
			if per == nil {
				alts[i] = []sfAlt{{exact: true}}
			} else {
				alts[i] = []sfAlt{{net: sfLin{0, per.c}, exact: true, what: "one iteration per key"}}
			}
		default:
			out.unmodelled = "item " + it.kind
			return out
		}
	}
	for i := len(items) - 1; i >= 0; i-- {
		if items[i].kind == "setlabel" {
			continue
		}
		if items[i].kind == "emit" {
			out.lastEmit = &items[i]
		}
		break
	}
	type st struct {
		pos   int
		d     sfLin
		exact bool
	}
	seen := map[st]bool{}
	work := []st{{0, sfLin{}, true}}
	labelDepth := map[int]st{}
	finals := map[sfLin]bool{}
	problem := func(n ast.Node, s string) {
		for _, p := range out.problems {
			if p == s {
				return
			}
		}
		out.problems = append(out.problems, s)
		if out.probNode == nil {
			out.probNode = n
		}
	}
	for len(work) > 0 {
		s := work[len(work)-1]
		work = work[:len(work)-1]
		if seen[s] {
			continue
		}
		seen[s] = true
		if s.pos == len(items) {
			if s.exact {
				finals[s.d] = true
			} else {
				out.exact = false
			}
			continue
		}
		it := items[s.pos]
		if it.kind == "setlabel" {
			if prev, ok := labelDepth[s.pos]; ok {
				if prev.exact && s.exact && prev.d != s.d {
					problem(it.node, fmt.Sprintf("the runtime branches that meet at the label placed at %s arrive with different stack depths (%s and %s values above the start of the expression): one of them leaves a value too many or too few", r.c.Prog.Position(it.node.Pos()), prev.d, s.d))
				}
			} else {
				labelDepth[s.pos] = s
			}
			work = append(work, st{s.pos + 1, s.d, s.exact})
			continue
		}
		for _, a := range alts[s.pos] {
			if free {
				out.minD = out.minD.min(s.d.add(a.need.neg()))
			} else if (it.kind == "emit" || it.kind == "child") && !s.d.geq(a.need) {
				if s.exact {
					problem(it.node, fmt.Sprintf("%s is executed with %s values of this expression on the stack but pops %s: it takes values that belong to an enclosing expression or pops an empty stack (index out of range [-1] in thread.Pop)", a.what, s.d, a.need))
				} else {
					problem(it.node, fmt.Sprintf("%s pops %s values but only %s were pushed for it (what statements before it leave behind is not its operand)", a.what, a.need, s.d))
				}
				continue
			}
			nd := s.d.add(a.net)
			ex := s.exact && a.exact
			if it.kind == "emit" && a.jump > 0 {
				tgt, ok := labelAt[it.label]
				if it.label == 0 || !ok {
					out.unmodelled = "a jump whose label is not placed in the same clause at " + r.c.Prog.Position(it.node.Pos())
					return out
				}
				if tgt <= s.pos {
					out.unmodelled = "a backward jump at " + r.c.Prog.Position(it.node.Pos())
					return out
				}
				work = append(work, st{tgt, nd, ex})
				if a.jump == 2 {
					work = append(work, st{s.pos + 1, nd, ex})
				}
				continue
			}
			work = append(work, st{s.pos + 1, nd, ex})
		}
	}
	for f := range finals {
		out.finals = append(out.finals, f)
	}
	sort.Slice(out.finals, func(i, j int) bool {
		if out.finals[i].c != out.finals[j].c {
			return out.finals[i].c < out.finals[j].c
		}
		return out.finals[i].k < out.finals[j].k
	})
	return out
}

func (r *sfRunner) describe(items []sfItem) string {
	var parts []string
	for _, it := range items {
		switch it.kind {
		case "emit":
			s := strings.Join(it.ops, "|")
			if it.nilv == 1 {
				s += "(nil)"
			}
			if it.label != 0 {
				s += "→L" + fmt.Sprint(int(it.label)%1000)
			}
			parts = append(parts, s)
		case "child":
			parts = append(parts, "<"+it.ref.field+">")
		case "setlabel":
			parts = append(parts, "L"+fmt.Sprint(int(it.label)%1000)+":")
		case "loop":
			parts = append(parts, "loop{…}")
		}
	}
	return strings.Join(parts, " ")
}

// selectorOf finds the field of `kind` that the visitor clauses switch on, and the constants they mention.
func (r *sfRunner) selectorOf(kind string) (field string, vals map[string]constant.Value) {
	vals = map[string]constant.Value{}
	for _, f := range []*core.Func{r.vb, r.va} {
		info := f.Info()
		note := func(x ast.Expr, consts []ast.Expr) {
			owner, fl, ok := fieldSel(info, x, astPkg)
			if !ok || owner != kind {
				return
			}
			if b, isB := info.TypeOf(x).Underlying().(*types.Basic); !isB || b.Info()&(types.IsInteger|types.IsString) == 0 {
				return
			}
			for _, ce := range consts {
				tv, ok := info.Types[ce]
				if !ok || tv.Value == nil {
					continue
				}
				if field == "" {
					field = fl
				}
				if fl != field {
					continue
				}
				name := opName(ce)
				if tv.Value.Kind() == constant.String {
					name = constant.StringVal(tv.Value)
				}
				vals[name] = tv.Value
			}
		}
		// the field is the one a switch statement of a clause is about; comparisons of that field add constants
		ast.Inspect(f.Body, func(n ast.Node) bool {
			if x, ok := n.(*ast.SwitchStmt); ok && x.Tag != nil {
				for _, cl := range x.Body.List {
					note(x.Tag, cl.(*ast.CaseClause).List)
				}
			}
			return true
		})
	}
	if field == "" {
		return
	}
	for _, f := range []*core.Func{r.vb, r.va} {
		info := f.Info()
		ast.Inspect(f.Body, func(n ast.Node) bool {
			x, ok := n.(*ast.BinaryExpr)
			if !ok || (x.Op != token.EQL && x.Op != token.NEQ) {
				return true
			}
			for _, pr := range [][2]ast.Expr{{x.X, x.Y}, {x.Y, x.X}} {
				owner, fl, ok := fieldSel(info, pr[0], astPkg)
				tv, isC := info.Types[pr[1]]
				if ok && owner == kind && fl == field && isC && tv.Value != nil {
					name := opName(pr[1])
					if tv.Value.Kind() == constant.String {
						name = constant.StringVal(tv.Value)
					}
					vals[name] = tv.Value
				}
			}
			return true
		})
	}
	return
}

func c04StackEffect(c *core.Check) {
	const R = "C04-R6"
	c.Rule(R, "STACK-EFFECT: (a) for every opcode, the values its case of (*VM).execute pops and pushes on the paths that raise no runtime error are extracted (split by `i.Operand != nil` where the case tests it, by the opcode where cases are shared, `KEYS` for a loop over the operand); (b) for every node class (kind and operator/builtin name) the code generator's instruction sequence on every Go-level path of VisitBefore + children + VisitAfter is executed abstractly over all its runtime branches (jumps to labels): no instruction pops more than the class's own children and instructions pushed, the runtime branches that meet at a label agree on the depth, and every class that parser.y allows where a value is expected (operand of an operator, condition, index, builtin argument) leaves exactly one value; (c) the last opcode emitted for such a class pushes exactly one value on every non-error path of its case")
	c.Explain += " C04-R6 decides the induction step of `no stack underflow`: both sides are read from source — the stack effect of every opcode from vm.execute (helpers that pop/push are followed; paths through v.errorf or panic are excluded because the program stops there), the instruction sequence of every node class from codegen.VisitBefore/VisitAfter and ast.Walk, the classes that may stand in a value position from the actions of parser.y — and composed: a child in a value position contributes +1 (the induction hypothesis, which is what is being verified for every such class), an IDTerm under an IndexedExpr contributes what its own clause was found to leave (1-KEYS), a PatternExpr 0, a block of statements ≥ 0. Not decided by R6: the DelStmt clause (it rewrites the last emitted opcode), that the number of index expressions equals the number of keys (KEYS; checker arity rule, C24), and which Go representation a value has (R2)."
	c.Assume = append(c.Assume,
		"R6: an IndexedExpr has as many index expressions as its metric has keys (the same symbol KEYS is used for the loop over n.Index and for the operand of Dload); a PatternExpr stands only where the code generator asserts it (match operand, first argument of subst); ConvExpr nodes are inserted by the checker in value positions only",
		"R6: a runtime-error path of an opcode (v.errorf, panic) ends the program for the line, so its stack effect is irrelevant")

	vm, order, why := vmEffects(c)
	if vm == nil {
		c.Undecided(R, vmExecute, "-", why)
		return
	}
	r := &sfRunner{c: c, vm: vm, kindEff: map[string][]sfAlt{}, kindBad: map[string]string{}}
	r.vb, r.va, r.walk = c.MustFn(R, cgBefore), c.MustFn(R, cgAfter), c.MustFn(R, astWalk)
	if r.vb == nil || r.va == nil || r.walk == nil {
		return
	}
	if c.Prog.Fn(cgEmit) == nil {
		c.Undecided(R, cgEmit, "-", "codegen.emit not found")
		return
	}
	rel := c.Prog.Reaching(func(f *core.Func) bool {
		return f.Key == cgEmit || f.Key == cgErrorf || f.Key == cgSetLabel || f.Key == astWalk
	})
	r.relFuncs = map[*core.Func]bool{}
	for f := range rel {
		if core.Rel(f.Pkg.PkgPath) == "internal/runtime/compiler/codegen" && f != r.vb && f != r.va {
			switch f.Key {
			case cgEmit, cgErrorf, cgSetLabel, cgNewLabel:
			default:
				if f.Decl.Recv != nil {
					r.relFuncs[f] = true
					c.Analysed(f)
				}
			}
		}
	}
	_, r.typedOps, _ = mapLiteralOpcodes(c, "internal/runtime/compiler/codegen", "typedOperators")
	_, r.builtins, _ = mapLiteralOpcodes(c, "internal/runtime/compiler/codegen", "builtin")
	r.sigs = builtinSignatures(c)
	r.walkChildren()

	// opcodes the code generator emits
	emits, _ := extractEmits(c)
	emitted := map[string]bool{}
	for _, es := range emits {
		for _, op := range es.Ops {
			emitted[op] = true
		}
	}

	// (a) the VM table
	table := map[string]string{}
	nEff := 0
	for _, op := range order {
		oe := vm[op]
		table[op] = oe.describe()
		key := "vm effect " + op
		bad := ""
		for _, u := range oe.unmodelled {
			if u != "" {
				bad = u
			}
		}
		switch {
		case bad != "" && emitted[op]:
			c.Undecided(R, key, c.Prog.Position(oe.pos), "the stack effect of the case is not modelled: "+bad)
		case bad != "":
			c.Note(R, key, c.Prog.Position(oe.pos), "not modelled ("+bad+"); the code generator never emits it")
		default:
			nEff++
			d := oe.describe()
			for _, w := range uniq(append([]string(nil), oe.discharged...)) {
				d += " [path excluded: " + w + "]"
			}
			c.Ok(R, key, c.Prog.Position(oe.pos), d)
		}
	}
	c.Extra["stack_effects"] = table

	// kinds with a clause in either visitor
	kinds := map[string]token.Pos{}
	for _, f := range []*core.Func{r.vb, r.va} {
		info := f.Info()
		ast.Inspect(f.Body, func(n ast.Node) bool {
			ts, ok := n.(*ast.TypeSwitchStmt)
			if !ok {
				return true
			}
			for _, cl := range ts.Body.List {
				for _, t := range cl.(*ast.CaseClause).List {
					if k := structName(info.TypeOf(t), astPkg); k != "" {
						if _, seen := kinds[k]; !seen || f == r.va {
							kinds[k] = t.Pos()
						}
					}
				}
			}
			return false
		})
	}
	// kinds whose children the code generator never visits
	dead := map[string]bool{}
	for k := range kinds {
		if fl, _ := r.selectorOf(k); fl != "" {
			continue
		}
		all, any := true, false
		for _, p := range r.classPaths(k, sfSel{}, true) {
			if p.err {
				continue
			}
			any = true
			if p.unmodelled != "" || !p.flags["handled"] {
				all = false
			}
			for _, it := range p.items {
				if it.kind == "child" || it.kind == "loop" {
					all = false
				}
			}
		}
		if all && any {
			dead[k] = true
		}
	}
	r.sg = readGrammarClasses(c, dead)
	if r.sg.problem != "" {
		c.Undecided(R, "grammar", "-", r.sg.problem)
		return
	}
	var opKeys []string
	for k := range r.sg.operand {
		opKeys = append(opKeys, k)
	}
	sort.Strings(opKeys)
	c.Extra["value_position_classes"] = opKeys
	var deadL []string
	for k := range dead {
		deadL = append(deadL, k)
	}
	sort.Strings(deadL)
	c.Extra["kinds_without_generated_children"] = deadL
	// every kind the grammar builds takes part
	for k := range r.sg.operand {
		if _, ok := kinds[classKind(k)]; !ok {
			kinds[classKind(k)] = token.NoPos
		}
	}
	for k := range r.sg.stmt {
		if _, ok := kinds[classKind(k)]; !ok {
			kinds[classKind(k)] = token.NoPos
		}
	}
	parserScope := func(name string) constant.Value {
		if pkg := c.Prog.Pkgs["internal/runtime/compiler/parser"]; pkg != nil {
			if o, ok := pkg.Types.Scope().Lookup(name).(*types.Const); ok {
				return o.Val()
			}
		}
		return nil
	}

	var kindNames []string
	for k := range kinds {
		kindNames = append(kindNames, k)
	}
	sort.Strings(kindNames)
	nClasses, nOperand := 0, 0
	lastSeen := map[string]bool{}
	classTable := map[string]string{}
	defer func() { c.Extra["r6_classes"] = classTable }()
	for _, kind := range kindNames {
		if isListKind(kind) {
			continue
		}
		type cls struct {
			key string
			sel sfSel
		}
		var classes []cls
		field, vals := r.selectorOf(kind)
		if field == "" {
			classes = []cls{{kind, sfSel{}}}
		} else {
			names := map[string]bool{}
			for n := range vals {
				names[n] = true
			}
			for k := range r.sg.operand {
				if classKind(k) == kind && k != kind {
					names[strings.TrimSuffix(k[len(kind)+1:], "}")] = true
				}
			}
			for k := range r.sg.stmt {
				if classKind(k) == kind && k != kind {
					names[strings.TrimSuffix(k[len(kind)+1:], "}")] = true
				}
			}
			if kind == "BuiltinExpr" {
				for n := range r.sigs {
					names[n] = true
				}
			}
			var ns []string
			for n := range names {
				ns = append(ns, n)
			}
			sort.Strings(ns)
			for _, n := range ns {
				v := vals[n]
				if v == nil {
					if kind == "BuiltinExpr" {
						v = constant.MakeString(n)
					} else {
						v = parserScope(n)
					}
				}
				if v == nil {
					continue
				}
				classes = append(classes, cls{kind + "{" + n + "}", sfSel{field: field, val: v, name: n}})
			}
			if kind != "BuiltinExpr" {
				classes = append(classes, cls{kind + "{other}", sfSel{field: field, other: true, name: "other"}})
			}
		}
		for _, cl := range classes {
			nClasses++
			key := "codegen " + cl.key
			ps := kinds[kind]
			posStr := "-"
			if ps.IsValid() {
				posStr = c.Prog.Position(ps)
			}
			// role
			role := "statement"
			inGrammar := false
			for k := range r.sg.operand {
				if classKind(k) == kind {
					inGrammar = true
				}
			}
			for k := range r.sg.stmt {
				if classKind(k) == kind {
					inGrammar = true
				}
			}
			switch {
			case specialKind(kind):
				role = "special"
			case kind == "BuiltinExpr":
				if sig := r.sigs[cl.sel.name]; len(sig) > 0 && sig[len(sig)-1] != "None" && r.sg.operand["BuiltinExpr"] {
					role = "value"
				}
			case r.sg.operand[cl.key]:
				role = "value"
			case !inGrammar && !cl.sel.other:
				role = "value" // built by a compiler pass (ConvExpr), in value positions
			}
			paths := r.classPaths(kind, cl.sel, false)
			var live []*sfPath
			unmod := ""
			for _, p := range paths {
				if p.err {
					continue
				}
				if p.unmodelled != "" {
					unmod = p.unmodelled
					continue
				}
				if kind == "IDTerm" && p.flags["nonvar"] && len(p.items) == 0 {
					continue
				}
				if why := r.againstGrammar(p); why != "" {
					r.excluded = append(r.excluded, cl.key+": "+why)
					continue
				}
				live = append(live, p)
			}
			if len(live) == 0 && unmod == "" {
				c.Note(R, key, posStr, "every Go-level path of the code generator for this class reports a compile error (or the class has no code): no accepted program contains it")
				continue
			}
			if unmod != "" {
				if role == "value" {
					c.Undecided(R, key, posStr, "the clause has a shape the rule does not model: "+unmod)
				} else {
					c.Note(R, key, posStr, "not decided (not a class that stands for a value): "+unmod)
				}
				continue
			}
			if role == "value" {
				nOperand++
			}
			{
				var seqs []string
				for _, p := range live {
					seqs = append(seqs, r.describe(p.items))
				}
				seqs = uniq(seqs)
				if len(seqs) > 6 {
					seqs = append(seqs[:6], fmt.Sprintf("… %d more", len(seqs)-6))
				}
				classTable[cl.key] = role + ": " + strings.Join(seqs, " || ")
			}
			var problems []string
			var probNode ast.Node
			undec := ""
			finals := map[string]bool{}
			for _, p := range live {
				so := r.simulate(kind, cl.sel, p.items, p.facts, role == "special")
				if so.unmodelled != "" {
					undec = so.unmodelled
					continue
				}
				seq := r.describe(p.items)
				for _, pr := range so.problems {
					problems = append(problems, pr+" [code: "+seq+"]")
					if probNode == nil {
						probNode = so.probNode
					}
				}
				for _, f := range so.finals {
					finals[f.String()] = true
				}
				switch role {
				case "value":
					if len(so.problems) > 0 {
						break
					}
					if !so.exact {
						undec = "the depth after a block of statements is not known"
						break
					}
					for _, f := range so.finals {
						if f != (sfLin{1, 0}) {
							problems = append(problems, fmt.Sprintf("the code for %s leaves %s values where exactly 1 is expected [code: %s; Go-level path: %s]: the instruction that consumes the value of this expression (`x = <expr>`, a comparison, an index, a builtin argument, the jump of a condition) pops a stack that is one value short — index out of range [-1] in thread.Pop, recovered as a VM panic — or leaves a stray value under the next operand", cl.key, f, seq, strings.Join(p.trail, "; ")))
							if probNode == nil && len(p.items) > 0 {
								probNode = p.items[len(p.items)-1].node
							}
						}
					}
					// (c) the last opcode
					if so.lastEmit != nil {
						for _, op := range so.lastEmit.ops {
							lk := "result of " + cl.key + ": last opcode " + op
							if lastSeen[lk] {
								continue
							}
							lastSeen[lk] = true
							effs, _, _ := vm[op].effectsFor(so.lastEmit.nilv)
							okAll := true
							bad := ""
							for _, e := range effs {
								if e.push != (sfLin{1, 0}) {
									okAll = false
									bad = e.String()
								}
							}
							c.Verdict(okAll, R, lk, c.Prog.Position(vm[op].pos), "pushes exactly one value on every non-error path ("+vm[op].describe()+")",
								fmt.Sprintf("%s is the last instruction emitted for %s, whose value the enclosing expression or statement pops, but its case in vm.execute %s on a path that raises no runtime error: a program that uses the value (e.g. `last = hits++`, `hits++ > $1 {…}`) pops an empty stack — index out of range [-1] in thread.Pop, not one of the VM's checked errors", op, cl.key, bad))
						}
					}
				case "special":
					// reported below
				}
			}
			var fl []string
			for f := range finals {
				fl = append(fl, f)
			}
			sort.Strings(fl)
			switch {
			case len(problems) > 0:
				problems = uniq(problems)
				more := ""
				if len(problems) > 1 {
					more = fmt.Sprintf(" (+%d more)", len(problems)-1)
				}
				ppos := posStr
				if probNode != nil {
					ppos = c.Prog.Position(probNode.Pos())
				}
				c.Fail(R, key, ppos, problems[0]+more)
			case undec != "":
				if role == "value" {
					c.Undecided(R, key, posStr, undec)
				} else {
					c.Note(R, key, posStr, "not decided (not a class that stands for a value): "+undec)
				}
			case role == "value":
				c.Ok(R, key, posStr, fmt.Sprintf("%d Go-level paths, every runtime branch leaves exactly one value and never pops below its own start", len(live)))
			case role == "special":
				want := map[string]string{"IDTerm": "1-KEYS", "PatternExpr": "0"}[kind]
				got := strings.Join(fl, ",")
				c.Verdict(got == want, R, key, posStr, "leaves "+got+" values (composed into its parent: IndexedExpr supplies KEYS index values / the consumer of a pattern takes the regexp index)",
					"the code for "+kind+" leaves "+got+" values, its parents are composed assuming "+want)
			default:
				c.Ok(R, key, posStr, fmt.Sprintf("%d Go-level paths, no instruction pops below the start of the statement (leaves %s)", len(live), strings.Join(fl, " or ")))
			}
		}
	}
	for _, n := range uniq(r.notes) {
		// the path is discharged by a checked reason: the checker replaces identifiers that name a pattern constant
		chk := c.Prog.Fn(checkerAfter)
		found := false
		if chk != nil {
			ast.Inspect(chk.Body, func(x ast.Node) bool {
				if cl, ok := x.(*ast.CompositeLit); ok && structName(chk.Info().TypeOf(cl), astPkg) == "PatternExpr" {
					found = true
				}
				return !found
			})
		}
		if found {
			c.Note(R, "IDTerm without code", "-", n+"; the checker rejects undeclared identifiers and rewrites an identifier naming a pattern constant to a PatternExpr (checker.VisitAfter builds &ast.PatternExpr{…}), so under an IndexedExpr in a value position the identifier is a metric variable")
		} else {
			c.Undecided(R, "IDTerm without code", "-", n+"; the checker no longer rewrites pattern constants to PatternExpr: cannot exclude the path")
		}
	}
	c.Extra["r6_paths_excluded_by_grammar"] = uniq(r.excluded)
	c.Extra["r6_opcodes_with_effect"] = nEff
	c.Extra["r6_node_classes"] = nClasses
	c.Extra["r6_value_classes"] = nOperand
	if nEff < 58 {
		c.Undecided(R, "vm table", "-", fmt.Sprintf("only %d opcode cases have a modelled stack effect (61 on the tree the rule was written for)", nEff))
	}
	if nOperand < 40 {
		c.Undecided(R, "value classes", "-", fmt.Sprintf("only %d node classes were evaluated as standing for a value (42 on the tree the rule was written for)", nOperand))
	}
	c.Floor(R, 170)
}

// ---------------------------------------------------------------------------
// C04-R7: constant index into a string or slice of unknown length
// ---------------------------------------------------------------------------

type ciSite struct {
	node ast.Node
	base ast.Expr
	k    int64  // the constant
	need int64  // the length that must be established: k+1 for an index, k for a slice bound
	what string // "index [k]", "slice [k:]", "slice [:k]"
}

// lenLowerBound: when comparison `e` has the given truth value, is len(base) ≥ need established?
// It returns (when true, when false).
func ciImplies(f *core.Func, e ast.Expr, base string, need int64) (whenTrue, whenFalse, understood bool) {
	info := f.Info()
	e = core.Unparen(e)
	isLen := func(x ast.Expr) bool {
		call, ok := core.Unparen(x).(*ast.CallExpr)
		if !ok || len(call.Args) != 1 || f.CalleeID(call) != "builtin.len" {
			// a local defined once as len(base)
			if id, isId := core.Unparen(x).(*ast.Ident); isId {
				if obj := info.Uses[id]; obj != nil {
					if d := onceDef(f, obj); d != nil {
						if c2, ok := core.Unparen(d).(*ast.CallExpr); ok && len(c2.Args) == 1 && f.CalleeID(c2) == "builtin.len" {
							return canonExpr(f, c2.Args[0]) == base
						}
					}
				}
			}
			return false
		}
		return canonExpr(f, call.Args[0]) == base
	}
	isBase := func(x ast.Expr) bool { return canonExpr(f, x) == base }
	emptyString := func(x ast.Expr) bool {
		tv, ok := info.Types[x]
		return ok && tv.Value != nil && tv.Value.Kind() == constant.String && constant.StringVal(tv.Value) == ""
	}
	// a leaf that evaluates base[k] has len(base) > k whatever its outcome (it would have panicked otherwise; that index is a site of its own)
	if k, ok := ciIndexes(f, e, base); ok {
		return k+1 >= need, k+1 >= need, true
	}
	switch y := e.(type) {
	case *ast.BinaryExpr:
		op := y.Op
		var c int64
		switch {
		case isLen(y.X):
			v, ok := constInt(info, y.Y)
			if !ok {
				return false, false, false
			}
			c = v
		case isLen(y.Y):
			v, ok := constInt(info, y.X)
			if !ok {
				return false, false, false
			}
			c = v
			// c OP len  ==  len OP' c
			switch op {
			case token.LSS:
				op = token.GTR
			case token.GTR:
				op = token.LSS
			case token.LEQ:
				op = token.GEQ
			case token.GEQ:
				op = token.LEQ
			}
		case (op == token.EQL || op == token.NEQ) && (isBase(y.X) && emptyString(y.Y) || isBase(y.Y) && emptyString(y.X)):
			c = 0 // x == "" is len(x) == 0
		default:
			return false, false, false
		}
		switch op {
		case token.GTR: // len > c
			return c+1 >= need, false, true
		case token.GEQ:
			return c >= need, false, true
		case token.LSS: // false: len >= c
			return false, c >= need, true
		case token.LEQ: // false: len > c
			return false, c+1 >= need, true
		case token.EQL: // true: len == c; false: len != c
			return c >= need, c == 0 && need <= 1, true
		case token.NEQ:
			return c == 0 && need <= 1, c >= need, true
		}
	case *ast.CallExpr:
		// strings.HasPrefix(base, "lit") / HasSuffix: true establishes len(base) ≥ len(lit)
		id := f.CalleeID(y)
		if (id == "strings.HasPrefix" || id == "strings.HasSuffix") && len(y.Args) == 2 && isBase(y.Args[0]) {
			if tv, ok := info.Types[y.Args[1]]; ok && tv.Value != nil && tv.Value.Kind() == constant.String {
				return int64(len(constant.StringVal(tv.Value))) >= need, false, true
			}
		}
	}
	return false, false, false
}

// ciIndexes: n contains base[k] (or base[k:], base[:k]) with a constant k; it returns the largest length-1 so established.
func ciIndexes(f *core.Func, n ast.Node, base string) (int64, bool) {
	info := f.Info()
	best, found := int64(-1), false
	core.InspectNoLit(n, func(x ast.Node) bool {
		switch y := x.(type) {
		case *ast.IndexExpr:
			if k, ok := constInt(info, y.Index); ok && k >= 0 && canonExpr(f, y.X) == base {
				found = true
				if k > best {
					best = k
				}
			}
		case *ast.SliceExpr:
			for _, b := range []ast.Expr{y.Low, y.High} {
				if b == nil {
					continue
				}
				if k, ok := constInt(info, b); ok && k >= 1 && canonExpr(f, y.X) == base {
					found = true
					if k-1 > best {
						best = k - 1
					}
				}
			}
		}
		return true
	})
	return best, found
}

// ciConstLen: the base has a length known where it is built.
func ciConstLen(f *core.Func, base ast.Expr, depth int) (int64, string, bool) {
	info := f.Info()
	base = core.Unparen(base)
	if depth > 4 {
		return 0, "", false
	}
	if tv, ok := info.Types[base]; ok && tv.Value != nil && tv.Value.Kind() == constant.String {
		return int64(len(constant.StringVal(tv.Value))), "a string constant", true
	}
	switch x := base.(type) {
	case *ast.CompositeLit:
		n := int64(0)
		for _, el := range x.Elts {
			if _, isKV := el.(*ast.KeyValueExpr); isKV {
				return 0, "", false
			}
			n++
		}
		return n, fmt.Sprintf("a composite literal of %d elements", n), true
	case *ast.CallExpr:
		switch f.CalleeID(x) {
		case "builtin.make":
			if len(x.Args) >= 2 {
				if n, ok := constInt(info, x.Args[1]); ok {
					return n, fmt.Sprintf("made with the constant length %d", n), true
				}
			}
		case "strings.Split", "strings.SplitAfter":
			// at least one element unless the separator is empty and the string too
			if len(x.Args) == 2 {
				if tv, ok := info.Types[x.Args[1]]; ok && tv.Value != nil && tv.Value.Kind() == constant.String && constant.StringVal(tv.Value) != "" {
					return 1, "strings.Split with a non-empty separator returns at least one element", true
				}
			}
		}
	case *ast.Ident:
		if obj := info.Uses[x]; obj != nil {
			if d := onceDef(f, obj); d != nil {
				return ciConstLen(f, d, depth+1)
			}
		}
	}
	return 0, "", false
}

func c04ConstIndex(c *core.Check) {
	const R = "C04-R7"
	c.Rule(R, "CONSTANT-INDEX: in every function of package vm reachable from (*VM).execute (helpers that pop, convert or report included), every x[k], x[k:], x[:k] with a constant k ≥ 0 (k ≥ 1 for a slice bound) on a string or slice whose length is not fixed where it is built is reached only over an edge of a comparison that establishes len(x) > k (≥ k for a bound): the false edge of `len(x) == 0` / `x == \"\"`, the true edge of `len(x) > k`, `len(x) >= k+1`, `x != \"\"`, `strings.HasPrefix(x, lit)`, the body edge of a range over x (k = 0), in if/switch/negated/&&-|| form")
	c.Explain += " C04-R7: a constant index is the one kind of index whose safety depends on nothing but the length of its base, so it is decided by dominance in the control-flow graph (core.Graph.Search from the function entry to the site, cutting the edges on which a comparison establishes the length); bases whose length is fixed where they are built (arrays, constants, composite literals, make with a constant, strings.Split) are discharged by that reason, recomputed from the source each run. Not decided by R7: variable indexes (R5 decides the capture-group ones), slices of slices whose capacity matters, lengths established in a caller."
	exe := c.Prog.Fn(vmExecute)
	if exe == nil {
		c.Undecided(R, vmExecute, "-", "execute not found")
		return
	}
	var fs []*core.Func
	for _, f := range closureFrom(exe) {
		if core.Rel(f.Pkg.PkgPath) != "internal/runtime/vm" || c.Prog.IsTestSupport(f) {
			continue
		}
		fs = append(fs, f)
		fs = append(fs, f.Lits...)
	}
	nsites, nfuncs := 0, 0
	for _, f := range fs {
		info := f.Info()
		c.Analysed(f)
		nfuncs++
		var sites []ciSite
		nIndex := 0
		varLen := func(x ast.Expr) bool {
			t := info.TypeOf(x)
			if t == nil {
				return false
			}
			if tv, ok := info.Types[x]; ok && tv.Value != nil {
				return false // constant string
			}
			switch u := t.Underlying().(type) {
			case *types.Slice:
				return true
			case *types.Basic:
				return u.Info()&types.IsString != 0
			}
			return false // arrays, pointers to arrays, maps, type parameters
		}
		core.InspectNoLit(f.Body, func(n ast.Node) bool {
			if lit, ok := n.(*ast.FuncLit); ok && lit != f.Lit {
				return false
			}
			switch x := n.(type) {
			case *ast.IndexExpr:
				nIndex++
				if k, ok := constInt(info, x.Index); ok && k >= 0 && varLen(x.X) {
					sites = append(sites, ciSite{x, x.X, k, k + 1, fmt.Sprintf("index [%d]", k)})
				}
			case *ast.SliceExpr:
				nIndex++
				if !varLen(x.X) {
					break
				}
				for i, b := range []ast.Expr{x.Low, x.High, x.Max} {
					if b == nil {
						continue
					}
					if k, ok := constInt(info, b); ok && k >= 1 {
						what := []string{"slice [%d:]", "slice [:%d]", "slice [::%d]"}[i]
						sites = append(sites, ciSite{x, x.X, k, k, fmt.Sprintf(what, k)})
					}
				}
			}
			return true
		})
		if len(sites) == 0 {
			c.Ok(R, f.Key+"|scan", pos(c, f.Body), fmt.Sprintf("%d index/slice expressions, none with a constant index on a string or slice of unknown length", nIndex))
			continue
		}
		g := f.Graph()
		ord := map[string]int{}
		for _, s := range sites {
			nsites++
			tname := typeStr(info.TypeOf(s.base))
			slot := s.what + " of " + tname
			ord[slot]++
			key := fmt.Sprintf("%s|%s#%d", f.Key, slot, ord[slot])
			if n, why, ok := ciConstLen(f, s.base, 0); ok {
				c.Verdict(n >= s.need, R, key, pos(c, s.node), "the base is "+why, fmt.Sprintf("the base is %s but %s needs a length of at least %d: the expression always panics", why, s.what, s.need))
				continue
			}
			base := canonExpr(f, s.base)
			p, okP := g.PointOf(s.node)
			if !okP {
				c.Undecided(R, key, pos(c, s.node), "the site is not a node of the control-flow graph of "+f.Key)
				continue
			}
			ef := graphFacts(g, func(e ast.Expr) (condFact, bool) {
				wt, wf, _ := ciImplies(f, e, base, s.need)
				switch {
				case wt:
					return condFact{"long", "true", true}, true
				case wf:
					return condFact{"long", "false", true}, true
				}
				return condFact{}, false
			})
			cut := ef.avoid(func(cf condFact) bool { return cf.id == "long" && cf.eq && cf.val == "true" })
			// the body edge of a range loop over the base establishes len ≥ 1
			avoid := func(b *cfg.Block, si int) bool {
				if cut(b, si) {
					return true
				}
				if s.need <= 1 && b.Kind == cfg.KindRangeLoop && si == 0 {
					if rs, ok := b.Stmt.(*ast.RangeStmt); ok && canonExpr(f, rs.X) == base {
						return true
					}
				}
				return false
			}
			// short-circuit: `len(x) > 0 && x[0] == c` — the site sits in the right operand of && whose left establishes the length
			if ciShortCircuit(f, s, base) {
				c.Ok(R, key, pos(c, s.node), "guarded by the left operand of the && / || it stands in")
				continue
			}
			// a node evaluated earlier that indexes the same base at least as far: had it not panicked, the length is established
			var earlier []core.Point
			for _, b := range g.C.Blocks {
				if !b.Live {
					continue
				}
				for i, nd := range b.Nodes {
					if (core.Point{B: b, I: i}) == p {
						continue
					}
					if as, isAssign := nd.(*ast.AssignStmt); isAssign {
						// an assignment to the base itself does not say anything about the new value
						skip := false
						for _, l := range as.Lhs {
							if canonExpr(f, l) == base {
								skip = true
							}
						}
						if skip {
							continue
						}
					}
					if k, ok := ciIndexes(f, nd, base); ok && k+1 >= s.need {
						earlier = append(earlier, core.Point{B: b, I: i})
					}
				}
			}
			tr, found := g.Search(core.Query{Goal: core.At(p), AvoidEdge: avoid, Avoid: core.At(earlier...)})
			if !found {
				// the base must not be assigned between the test and the site
				if obj := identObj(info, s.base); obj != nil {
					stale := false
					for _, ap := range ciAssignments(f, g, obj) {
						ap := ap
						if _, again := g.Search(core.Query{From: &ap, Goal: core.At(p), AvoidEdge: avoid, Avoid: core.At(earlier...)}); again {
							stale = true
						}
					}
					if stale {
						c.Undecided(R, key, pos(c, s.node), fmt.Sprintf("%s of a %s: a length test precedes the site, but the variable is assigned again between the test and the site, so the value indexed is not the value tested", s.what, tname))
						continue
					}
				}
				c.Ok(R, key, pos(c, s.node), fmt.Sprintf("every path from the function entry passes a comparison (or an earlier index of the same value) that establishes a length of at least %d", s.need))
				continue
			}
			if f.Lit != nil {
				c.Undecided(R, key, pos(c, s.node), "no length test inside the function literal; a test in the enclosing function is not followed")
				continue
			}
			// a test of the base that the rule cannot read (a helper function, a comparison with a variable) is not a proof of anything
			opaque := ciOpaqueBlocks(f, g, s, base)
			if len(opaque) > 0 {
				if _, clear := g.Search(core.Query{Goal: core.At(p), Avoid: core.At(earlier...), AvoidEdge: func(b *cfg.Block, si int) bool { return avoid(b, si) || opaque[b] }}); !clear {
					c.Undecided(R, key, pos(c, s.node), "every path to the site on which no recognised comparison establishes the length passes a test of the same value that the rule cannot interpret (a helper function, a comparison with a variable): neither safe nor unsafe can be concluded")
					continue
				}
			}
			c.Fail(R, key, pos(c, s.node), fmt.Sprintf("%s of a %s is evaluated on a path on which nothing established that its length is at least %d: for a shorter value (an empty capture group, an empty string popped from the stack) the Go runtime panics with index/slice bounds out of range inside the VM — recovered as `panic in thread …`, a real crash with HardCrash — instead of the checked conversion or range error", s.what, tname, s.need), g.Trail(tr)...)
		}
	}
	c.Extra["r7_functions"] = nfuncs
	c.Extra["r7_constant_index_sites"] = nsites
	c.Floor(R, 12)
}

// ciAssignments lists the CFG points of the assignments to obj in f.
func ciAssignments(f *core.Func, g *core.Graph, obj types.Object) []core.Point {
	info := f.Info()
	var out []core.Point
	for _, h := range g.Find(func(n ast.Node) bool {
		switch s := n.(type) {
		case *ast.AssignStmt:
			for _, l := range s.Lhs {
				if id, ok := core.Unparen(l).(*ast.Ident); ok && (info.Uses[id] == obj || info.Defs[id] == obj) {
					return true
				}
			}
		case *ast.ValueSpec:
			for _, nm := range s.Names {
				if info.Defs[nm] == obj {
					return true
				}
			}
		case *ast.UnaryExpr:
			return s.Op == token.AND && identObj(info, s.X) == obj
		}
		return false
	}) {
		out = append(out, h.P)
	}
	return out
}

// ciOpaqueBlocks: the two-way blocks whose condition has a leaf that mentions the base but is none of the recognised comparisons.
func ciOpaqueBlocks(f *core.Func, g *core.Graph, s ciSite, base string) map[*cfg.Block]bool {
	info := f.Info()
	root := s.base
	for {
		switch x := core.Unparen(root).(type) {
		case *ast.SelectorExpr:
			root = x.X
			continue
		case *ast.IndexExpr:
			root = x.X
			continue
		case *ast.StarExpr:
			root = x.X
			continue
		}
		break
	}
	obj := identObj(info, root)
	out := map[*cfg.Block]bool{}
	if obj == nil {
		return out
	}
	var leaves func(e ast.Expr, fn func(ast.Expr))
	leaves = func(e ast.Expr, fn func(ast.Expr)) {
		e = core.Unparen(e)
		switch y := e.(type) {
		case *ast.UnaryExpr:
			if y.Op == token.NOT {
				leaves(y.X, fn)
				return
			}
		case *ast.BinaryExpr:
			if y.Op == token.LAND || y.Op == token.LOR {
				leaves(y.X, fn)
				leaves(y.Y, fn)
				return
			}
		}
		fn(e)
	}
	for _, b := range g.C.Blocks {
		if !b.Live || len(b.Succs) != 2 || len(b.Nodes) == 0 {
			continue
		}
		e, ok := b.Nodes[len(b.Nodes)-1].(ast.Expr)
		if !ok {
			continue
		}
		if e.Pos() <= s.node.Pos() && s.node.End() <= e.End() {
			continue // the site itself stands in this condition
		}
		leaves(e, func(l ast.Expr) {
			if !exprUses(info, l, obj) {
				return
			}
			if _, _, understood := ciImplies(f, l, base, s.need); !understood {
				out[b] = true
			}
		})
	}
	return out
}

// ciShortCircuit: the site stands in Y of `X && Y` where X true establishes the length, or in Y of `X || Y` where X false does.
func ciShortCircuit(f *core.Func, s ciSite, base string) bool {
	ok := false
	ast.Inspect(f.Body, func(n ast.Node) bool {
		b, isB := n.(*ast.BinaryExpr)
		if !isB || ok {
			return !ok
		}
		if (b.Op == token.LAND || b.Op == token.LOR) && b.Y.Pos() <= s.node.Pos() && s.node.End() <= b.Y.End() {
			info := f.Info()
			for _, cf := range condFacts(info, b.X, b.Op == token.LAND, func(e ast.Expr) (condFact, bool) {
				wt, wf, _ := ciImplies(f, e, base, s.need)
				switch {
				case wt:
					return condFact{"long", "true", true}, true
				case wf:
					return condFact{"long", "false", true}, true
				}
				return condFact{}, false
			}) {
				if cf.id == "long" && cf.eq && cf.val == "true" {
					ok = true
				}
			}
		}
		return true
	})
	return ok
}
