// Place at: internal/runtime/compiler/zz_witness_c03_fragment_test.go    Run: go test -count=1 -run 'TestWitnessC03Fragment' ./internal/runtime/compiler/
//
// C03 (compilation finishes in bounded time, "oversized regexes"): the regular-expression length limit is applied
// to whole patterns only.  The text of a named fragment (`const NAME /.../`) is stored unchecked and pasted into
// every later pattern that names it, so fragments defined from each other double per line:
//     const A0 /aaaaaaaaaaaaaaaa/
//     const A1 // + A0 + A0
//     const A2 // + A1 + A1   ...
// 25 short lines build a 268 MB string; compile time and memory are exponential in the size of the program
// (14 lines 0.1 s, 18 lines 1.5 s, 20 lines 5 s, 24 lines more than 20 s on the machine this was written on).
package compiler_test

import (
	"fmt"
	"strings"
	"testing"
	"time"

	"github.com/google/mtail/internal/runtime/compiler"
)

func TestWitnessC03FragmentDoubling(t *testing.T) {
	var b strings.Builder
	b.WriteString("const A0 /aaaaaaaaaaaaaaaa/\n")
	const levels = 24
	for i := 1; i <= levels; i++ {
		fmt.Fprintf(&b, "const A%d // + A%d + A%d\n", i, i-1, i-1)
	}
	src := b.String()
	type result struct {
		ok  bool
		err error
		d   time.Duration
	}
	done := make(chan result, 1)
	go func() {
		c, err := compiler.New()
		if err != nil {
			done <- result{err: err}
			return
		}
		start := time.Now()
		obj, err := c.Compile("witness", strings.NewReader(src))
		done <- result{ok: obj != nil, err: err, d: time.Since(start)}
	}()
	select {
	case r := <-done:
		if r.ok == (r.err != nil) {
			t.Errorf("Compile returned code=%v err=%v: want exactly one", r.ok, r.err)
		}
		if r.d > 5*time.Second {
			t.Errorf("compiling a %d byte program took %v", len(src), r.d)
		}
	case <-time.After(10 * time.Second):
		t.Fatalf("compiling a %d byte program (%d lines) did not finish within 10s: the %d-th fragment alone is %d bytes of pattern text", len(src), levels+1, levels, 16<<levels)
	}
}
