// place at internal/exporter/zz_c22_json_nan_test.go ; run: go test -count=1 -run 'TestC22JSONNonFinite' ./internal/exporter/
package exporter

import (
	"context"
	"encoding/json"
	"math"
	"net/http"
	"net/http/httptest"
	"testing"
	"time"

	"github.com/google/mtail/internal/metrics"
	"github.com/google/mtail/internal/metrics/datum"
	"github.com/google/mtail/internal/testutil"
)

// One non-finite float datum (a program doing `g = float($1)` on the input
// "NaN", or a histogram that observed it) must not take the whole JSON export
// down: every other metric still has to be reported.
func TestC22JSONNonFinite(t *testing.T) {
	for _, tc := range []struct {
		name string
		bad  func() *metrics.Metric
	}{
		{"float NaN", func() *metrics.Metric {
			m := metrics.NewMetric("g", "prog", metrics.Gauge, metrics.Float)
			d, _ := m.GetDatum()
			datum.SetFloat(d, math.NaN(), time.Unix(1, 0))
			return m
		}},
		{"float +Inf", func() *metrics.Metric {
			m := metrics.NewMetric("g", "prog", metrics.Gauge, metrics.Float)
			d, _ := m.GetDatum()
			datum.SetFloat(d, math.Inf(1), time.Unix(1, 0))
			return m
		}},
		{"histogram sum NaN", func() *metrics.Metric {
			m := metrics.NewMetric("h", "prog", metrics.Histogram, metrics.Buckets)
			m.Buckets = []datum.Range{{Min: 0, Max: 1}}
			d, _ := m.GetDatum()
			datum.Observe(d, math.NaN(), time.Unix(1, 0))
			return m
		}},
	} {
		tc := tc
		t.Run(tc.name, func(t *testing.T) {
			ctx, cancel := context.WithCancel(context.Background())
			defer cancel()
			ms := metrics.NewStore()
			good := metrics.NewMetric("c", "prog", metrics.Counter, metrics.Int)
			d, _ := good.GetDatum()
			datum.SetInt(d, 37, time.Unix(1, 0))
			testutil.FatalIfErr(t, ms.Add(good))
			testutil.FatalIfErr(t, ms.Add(tc.bad()))
			e, err := New(ctx, ms, Hostname("gunstar"))
			testutil.FatalIfErr(t, err)
			defer e.Stop()
			response := httptest.NewRecorder()
			e.HandleJSON(response, &http.Request{})
			if response.Code != 200 {
				t.Fatalf("/json answered %d: %s", response.Code, response.Body.String())
			}
			var out []map[string]interface{}
			if err := json.Unmarshal(response.Body.Bytes(), &out); err != nil {
				t.Fatalf("response is not JSON: %v", err)
			}
			if len(out) != 2 {
				t.Errorf("want both metrics in the export, got %d", len(out))
			}
		})
	}
}
