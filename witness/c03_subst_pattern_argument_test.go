// Place at: internal/runtime/compiler/zz_witness_c03_subst_test.go    Run: go test -count=1 -run 'TestWitnessC03Subst' ./internal/runtime/compiler/
//
// C03 (the compiler never crashes): subst() whose first argument is a pattern-typed expression that is not a
// plain pattern -- a pattern constant concatenated with a string or with another constant -- type-checks
// (its type is Pattern) and then panics the code generator, which asserts that the argument node is a
// *ast.PatternExpr:  interface conversion: ast.Node is *ast.BinaryExpr, not *ast.PatternExpr.
package compiler_test

import (
	"fmt"
	"strings"
	"testing"

	"github.com/google/mtail/internal/runtime/compiler"
)

func TestWitnessC03SubstPatternArgument(t *testing.T) {
	for _, src := range []string{
		"const FOO /a/\ntext t\n/(.*)/ {\n  t = subst(FOO + \"b\", \"c\", $1)\n}\n",
		"const FOO /a/\ntext t\n/(.*)/ {\n  t = subst(FOO + FOO, \"c\", $1)\n}\n",
		"const FOO /a/\n/(.*)/ {\n  subst(FOO + \"b\", \"c\", $1)\n}\n",
	} {
		src := src
		t.Run("", func(t *testing.T) {
			panicked := ""
			func() {
				defer func() {
					if r := recover(); r != nil {
						panicked = fmt.Sprint(r)
					}
				}()
				c, err := compiler.New()
				if err != nil {
					t.Fatal(err)
				}
				obj, err := c.Compile("witness", strings.NewReader(src))
				switch {
				case obj != nil && err != nil:
					t.Errorf("Compile returned both code and errors for %q", src)
				case obj == nil && err == nil:
					t.Errorf("Compile returned neither code nor errors for %q", src)
				case err != nil && err.Error() == "":
					t.Errorf("Compile returned an empty error for %q", src)
				}
			}()
			if panicked != "" {
				t.Errorf("Compile panicked on\n%s\npanic: %s", src, panicked)
			}
		})
	}
}
