// Witness for F-C26a: UnloadProgram dereferences r.handles[name] without
// checking that the program is (still) loaded.  LoadAllPrograms snapshots the
// loaded names, releases the lock, loads every file and only then unloads the
// vanished ones; if the loader shuts down in between (lines channel closed:
// every handle is deleted), the unload hits a missing entry and panics.
// The deterministic form of that history is unloading a name that is not loaded.
// Place in internal/runtime/ and run: go test -run TestWitnessC26 ./internal/runtime/
package runtime

import (
	"sync"
	"testing"

	"github.com/google/mtail/internal/logline"
	"github.com/google/mtail/internal/metrics"
	"github.com/google/mtail/internal/testutil"
)

func TestWitnessC26UnloadVanishedHandle(t *testing.T) {
	store := metrics.NewStore()
	lines := make(chan *logline.LogLine)
	var wg sync.WaitGroup
	l, err := New(lines, &wg, "", store)
	testutil.FatalIfErr(t, err)
	defer func() {
		if r := recover(); r != nil {
			t.Errorf("UnloadProgram panicked on a name that is no longer loaded: %v", r)
		}
		close(lines)
		wg.Wait()
	}()
	l.UnloadProgram("gone.mtail")
}
