// Place at internal/exporter/witness_c13_string_datum_test.go ; run: go test -count=1 -run 'TestWitnessC13StringDatum' ./internal/exporter/
//
// C13 (C13-R7): a non-text metric whose variable is assigned a string holds a
// *datum.String (the type checker infers String for `gauge g` with `g = $1`).
// promValueForDatum has no case for it and Collect exports the constant 0: the
// Prometheus exposition shows a value the store never held.  A datum without
// a numeric value cannot be represented and must be left out, like a text
// metric, without disturbing the rest of the scrape.
package exporter

import (
	"bytes"
	"context"
	"strings"
	"sync"
	"testing"
	"time"

	"github.com/google/mtail/internal/logline"
	"github.com/google/mtail/internal/metrics"
	"github.com/google/mtail/internal/metrics/datum"
	"github.com/google/mtail/internal/runtime"
)

func witnessC13Exposition(t *testing.T, store *metrics.Store) string {
	t.Helper()
	e, err := New(context.Background(), store)
	if err != nil {
		t.Fatal(err)
	}
	var buf bytes.Buffer
	if err := e.Write(&buf); err != nil {
		t.Fatalf("scrape failed: %v", err)
	}
	return buf.String()
}

func witnessC13Check(t *testing.T, out string) {
	t.Helper()
	for _, line := range strings.Split(out, "\n") {
		if strings.HasPrefix(line, "state{") || strings.HasPrefix(line, "state ") {
			t.Errorf("string-valued gauge exposed as a number the store never held: %q", line)
		}
	}
	if !strings.Contains(out, `hits{prog="p.mtail",word="hello"} 3`) {
		t.Errorf("the numeric metric of the same program is missing from the scrape")
	}
	if t.Failed() {
		t.Logf("exposition:\n%s", out)
	}
}

// The store content is produced by a real program.
func TestWitnessC13StringDatumFromProgram(t *testing.T) {
	store := metrics.NewStore()
	lines := make(chan *logline.LogLine)
	var wg sync.WaitGroup
	r, err := runtime.New(lines, &wg, "", store)
	if err != nil {
		t.Fatal(err)
	}
	prog := "gauge state\ncounter hits by word\n/(?P<w>\\S+) (?P<n>\\d+)/ {\n  state = $w\n  hits[$w] += $n\n}\n"
	if err := r.CompileAndRun("p.mtail", strings.NewReader(prog)); err != nil {
		t.Fatal(err)
	}
	lines <- logline.New(context.Background(), "log", "hello 3")
	close(lines)
	wg.Wait()
	var typ metrics.Type = -1
	var val string
	_ = store.Range(func(m *metrics.Metric) error {
		if m.Name == "state" {
			typ = m.Type
			m.RLock()
			if len(m.LabelValues) == 1 {
				val = m.LabelValues[0].Value.ValueString()
			}
			m.RUnlock()
		}
		return nil
	})
	if typ != metrics.String || val != "hello" {
		t.Fatalf("precondition: want gauge `state` of type String holding \"hello\", got type %v value %q", typ, val)
	}
	witnessC13Check(t, witnessC13Exposition(t, store))
}

// The same store content built through the metrics API.
func TestWitnessC13StringDatumInStore(t *testing.T) {
	store := metrics.NewStore()
	g := metrics.NewMetric("state", "p.mtail", metrics.Gauge, metrics.String)
	d, err := g.GetDatum()
	if err != nil {
		t.Fatal(err)
	}
	datum.SetString(d, "hello", time.Unix(1, 0))
	c := metrics.NewMetric("hits", "p.mtail", metrics.Counter, metrics.Int, "word")
	d, err = c.GetDatum("hello")
	if err != nil {
		t.Fatal(err)
	}
	datum.SetInt(d, 3, time.Unix(1, 0))
	for _, m := range []*metrics.Metric{g, c} {
		if err := store.Add(m); err != nil {
			t.Fatal(err)
		}
	}
	witnessC13Check(t, witnessC13Exposition(t, store))
}
