// Place at internal/tailer/logstream/zz_c17_socket_accept_vs_shutdown_test.go ; run: go test -count=1 -run 'TestC17SocketStreamConnectionDuringShutdown' ./internal/tailer/logstream/
//
// C17 ("for every schedule of writes, writer closes and cancellations ... the
// stream's output ends, after delivering everything it read"): a connection
// that is accepted while the stream socket is being cancelled must either be
// served or be refused -- it must not crash the process.  On the defective
// code the accept loop does connWg.Add(1) only after Accept has returned,
// while the shutdown goroutine, once the listener is closed, does
// connWg.Wait() (which returns at once when no handler is running) and then
// close(ss.lines).  A handler started for the just-accepted connection then
// sends its line on the closed channel: "panic: send on closed channel".
// The schedule is hit within a few hundred rounds (a fraction of a second to a
// few seconds); the test runs rounds for at most 60s and passes if none panics.

//go:build unix

package logstream_test

import (
	"context"
	"net"
	"path/filepath"
	"sync"
	"testing"
	"time"

	"github.com/google/mtail/internal/tailer/logstream"
	"github.com/google/mtail/internal/testutil"
	"github.com/google/mtail/internal/waker"
)

func TestC17SocketStreamConnectionDuringShutdown(t *testing.T) {
	deadline := time.Now().Add(60 * time.Second)
	dir := testutil.TestTempDir(t)
	rounds := 0
	for time.Now().Before(deadline) && rounds < 20000 {
		rounds++
		var wg sync.WaitGroup
		addr := filepath.Join(dir, "s")
		ctx, cancel := context.WithCancel(context.Background())
		w := waker.NewTestAlways()
		ss, err := logstream.New(ctx, &wg, w, "unix://"+addr, logstream.OneShotDisabled)
		testutil.FatalIfErr(t, err)

		first := make(chan struct{})
		go func() {
			n := 0
			for range ss.Lines() {
				if n == 0 {
					close(first)
				}
				n++
			}
		}()

		// One complete connection first, so that the stream is in its steady
		// state (listener open, no handler running).
		s, err := net.Dial("unix", addr)
		testutil.FatalIfErr(t, err)
		_, err = s.Write([]byte("first\n"))
		testutil.FatalIfErr(t, err)
		testutil.FatalIfErr(t, s.Close())
		<-first

		// Now clients connect while the stream is cancelled.
		var cw sync.WaitGroup
		for k := 0; k < 4; k++ {
			cw.Add(1)
			go func() {
				defer cw.Done()
				c, err := net.Dial("unix", addr)
				if err != nil {
					return // refused: the listener is already closed, fine
				}
				_, _ = c.Write([]byte("x\n"))
				_ = c.Close()
			}()
		}
		if rounds%2 == 0 {
			time.Sleep(time.Duration(rounds%50) * time.Microsecond)
		}
		cancel()
		cw.Wait()
		wg.Wait() // a "send on closed channel" panic in a handler kills the test binary before this returns
	}
	t.Logf("%d rounds without a crash", rounds)
}
