// Witnesses for F-C04a/b/c: the VM's consumers disagree about the Go
// representations of an mtail Int ({int, int64}).  Place in internal/runtime/
// and run: go test -run TestWitnessC04 ./internal/runtime/
package runtime

import (
	"context"
	"strings"
	"sync"
	"testing"

	"github.com/google/mtail/internal/logline"
	"github.com/google/mtail/internal/metrics"
	"github.com/google/mtail/internal/metrics/datum"
	"github.com/google/mtail/internal/testutil"
)

func runWitness(t *testing.T, prog string, lines ...string) (*metrics.Store, string) {
	t.Helper()
	store := metrics.NewStore()
	ch := make(chan *logline.LogLine)
	var wg sync.WaitGroup
	l, err := New(ch, &wg, "", store)
	testutil.FatalIfErr(t, err)
	testutil.FatalIfErr(t, l.CompileAndRun("p.mtail", strings.NewReader(prog)))
	for _, x := range lines {
		ch <- logline.New(context.Background(), "log", x)
	}
	l.handleMu.RLock()
	h := l.handles["p.mtail"]
	l.handleMu.RUnlock()
	close(ch)
	wg.Wait()
	return store, h.vm.RuntimeErrorString()
}

// F-C04a: an int literal assigned to a float gauge reaches PopFloat as int64.
func TestWitnessC04IntToFloatGauge(t *testing.T) {
	store, rerr := runWitness(t, "gauge f\n/(\\d+\\.\\d+)/ {\n  f = $1\n}\n/x/ {\n  f = 3\n}\n", "1.5", "x")
	if rerr != "" {
		t.Errorf("accepted program faulted in the VM: %s", rerr)
	}
	d, err := store.FindMetricOrNil("f", "p.mtail").GetDatum()
	testutil.FatalIfErr(t, err)
	if got := datum.GetFloat(d); got != 3 {
		t.Errorf("f = %v, want 3", got)
	}
}

// F-C04b: settime(len($1)): len pushes a Go int, Settime accepts int64 only.
func TestWitnessC04SettimeLen(t *testing.T) {
	store, rerr := runWitness(t, "counter c\n/(.*)/ {\n  settime(len($1))\n  c++\n}\n", "abc")
	if rerr != "" {
		t.Errorf("accepted program faulted in the VM: %.120s", rerr)
	}
	d, err := store.FindMetricOrNil("c", "p.mtail").GetDatum()
	testutil.FatalIfErr(t, err)
	if got := datum.GetInt(d); got != 1 {
		t.Errorf("c = %v, want 1", got)
	}
}

// F-C04c: an int condition value (len of an empty capture) never makes Jnm jump.
func TestWitnessC04IntCondition(t *testing.T) {
	store, _ := runWitness(t, "counter c\n/y(.*)/ && len($1) {\n  c++\n}\n", "y", "yabc")
	d, err := store.FindMetricOrNil("c", "p.mtail").GetDatum()
	testutil.FatalIfErr(t, err)
	if got := datum.GetInt(d); got != 1 {
		t.Errorf("c = %v after lines y, yabc; want 1 (len of the empty capture is 0, i.e. false)", got)
	}
}
