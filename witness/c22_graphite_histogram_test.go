// place at internal/exporter/zz_c22_graphite_test.go ; run: go test -count=1 -run 'TestC22GraphiteHistogramOwnBuckets' ./internal/exporter/
package exporter

import (
	"sort"
	"strings"
	"testing"
	"time"

	"github.com/google/mtail/internal/metrics"
	"github.com/google/mtail/internal/metrics/datum"
	"github.com/google/mtail/internal/testutil"
)

// A histogram with two label sets that observed different values: every label
// set's bucket and count lines must carry that label set's own buckets.
func TestC22GraphiteHistogramOwnBuckets(t *testing.T) {
	*graphitePrefix = ""
	ts := time.Unix(1343124840, 0)
	h := metrics.NewMetric("hist", "prog", metrics.Histogram, metrics.Buckets, "xxx")
	h.Buckets = []datum.Range{{Min: 0, Max: 10}, {Min: 10, Max: 20}}
	a, err := h.GetDatum("a")
	testutil.FatalIfErr(t, err)
	b, err := h.GetDatum("b")
	testutil.FatalIfErr(t, err)
	// label set a: three small observations; label set b: one large one.
	datum.Observe(a, 1, ts)
	datum.Observe(a, 2, ts)
	datum.Observe(a, 3, ts)
	datum.Observe(b, 15, ts)

	var got []string
	for _, rec := range FakeSocketWrite(metricToGraphite, h) {
		got = append(got, strings.Split(strings.TrimSuffix(rec, "\n"), "\n")...)
	}
	sort.Strings(got)
	want := []string{
		"prog.hist.xxx.a 6 1343124840",
		"prog.hist.xxx.a.bin_10 3 1343124840",
		"prog.hist.xxx.a.bin_20 0 1343124840",
		"prog.hist.xxx.a.bin_inf 0 1343124840",
		"prog.hist.xxx.a.count 3 1343124840",
		"prog.hist.xxx.b 15 1343124840",
		"prog.hist.xxx.b.bin_10 0 1343124840",
		"prog.hist.xxx.b.bin_20 1 1343124840",
		"prog.hist.xxx.b.bin_inf 0 1343124840",
		"prog.hist.xxx.b.count 1 1343124840",
	}
	testutil.ExpectNoDiff(t, want, got)
}
