package exporter

// Witness for F-C12b: a push write error left the metric read-locked.
import (
	"errors"
	"expvar"
	"testing"
	"time"

	"github.com/google/mtail/internal/metrics"
	"github.com/google/mtail/internal/metrics/datum"
)

type failWriter struct{}

func (failWriter) Write([]byte) (int, error) { return 0, errors.New("boom") }

func TestWitnessC12Push(t *testing.T) {
	ms := metrics.NewStore()
	m := metrics.NewMetric("foo", "prog", metrics.Counter, metrics.Int, "k")
	for _, l := range []string{"a", "b"} {
		d, _ := m.GetDatum(l)
		datum.SetInt(d, 1, time.Unix(0, 0))
	}
	if err := ms.Add(m); err != nil {
		t.Fatal(err)
	}
	e := &Exporter{store: ms}
	if err := e.writeSocketMetrics(failWriter{}, metricToGraphite, &expvar.Int{}, &expvar.Int{}); err == nil {
		t.Fatal("expected the write error to be reported")
	}
	done := make(chan struct{})
	go func() {
		m.GetDatum("c")
		close(done)
	}()
	select {
	case <-done:
	case <-time.After(2 * time.Second):
		t.Fatal("metric still locked after a failed push")
	}
}
