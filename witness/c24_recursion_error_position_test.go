// Place at internal/runtime/compiler/c24_recursion_error_position_test.go ; run: go test -count=1 -run 'TestC24RecursionDepthErrorIsPositioned' ./internal/runtime/compiler/
//
// Witness for finding C24-R2 (checker.VisitBefore, `c.errors.Add(node.Pos(), …)`
// on the recursion-depth edge): when the node that exceeds the recursion limit
// is an empty statement list or an empty expression list, node.Pos() is nil,
// ErrorList.Add substitutes the position {"", -1, -1, -1} and the only error
// the program is rejected with is printed as ":0:0: Expression exceeded maximum
// recursion depth of 100" - it points nowhere in the source.
package compiler_test

import (
	"fmt"
	"regexp"
	"strconv"
	"strings"
	"testing"

	"github.com/google/mtail/internal/runtime/compiler"
)

func nestedDecorators(n int, pre, inner string) string {
	var b strings.Builder
	b.WriteString(pre)
	for i := 0; i < n; i++ {
		b.WriteString("@d {\n")
	}
	b.WriteString(inner)
	for i := 0; i < n; i++ {
		b.WriteString("}\n")
	}
	return b.String()
}

func TestC24RecursionDepthErrorIsPositioned(t *testing.T) {
	posRe := regexp.MustCompile(`^(.*):(\d+):(\d+)(-\d+)?: `)
	for _, tc := range []struct {
		name string
		prog string
	}{
		// the empty block of the 50th nested decoration is the node at depth 101
		{"emptyblock", nestedDecorators(50, "def d {\n  next\n}\n", "")},
		// the empty index list of the bare `c` is the node at depth 101
		{"emptyindex", nestedDecorators(49, "counter c\ndef d {\n  next\n}\n", "c\n")},
	} {
		t.Run(tc.name, func(t *testing.T) {
			c, err := compiler.New()
			if err != nil {
				t.Fatal(err)
			}
			name := tc.name + ".mtail"
			_, err = c.Compile(name, strings.NewReader(tc.prog))
			if err == nil {
				return // accepting the program is fine; rejecting it without a position is not
			}
			lines := strings.Count(tc.prog, "\n") + 1
			for _, e := range strings.Split(err.Error(), "\n") {
				if strings.HasPrefix(e, "\t") || e == "" {
					continue // continuation line of a message
				}
				m := posRe.FindStringSubmatch(e)
				if m == nil {
					t.Errorf("error without a position: %q", e)
					continue
				}
				line, _ := strconv.Atoi(m[2])
				col, _ := strconv.Atoi(m[3])
				if m[1] != name || line < 1 || line > lines || col < 1 {
					t.Errorf("error position %s:%d:%d is not inside the source (%s, %d lines): %q", m[1], line, col, name, lines, e)
				}
			}
			if t.Failed() {
				fmt.Println(err)
			}
		})
	}
}
