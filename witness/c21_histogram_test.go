// Witnesses for C21 findings.  Place in internal/runtime/ and run:
//   go test -run TestWitnessC21 ./internal/runtime/
package runtime

import (
	"math"
	"strings"
	"testing"
	"time"

	"github.com/google/mtail/internal/metrics/datum"
	"github.com/google/mtail/internal/runtime/compiler"
	"github.com/google/mtail/internal/testutil"
)

// F-C21a: NaN satisfies no `v <= bound` test, so no bucket is incremented
// while count and sum advance.
func TestWitnessC21NaNGoesToInfBucket(t *testing.T) {
	d := datum.MakeBuckets([]datum.Range{{0, 1}, {1, 2}, {2, math.Inf(+1)}}, time.Unix(0, 0))
	datum.Observe(d, math.NaN(), time.Unix(1, 0))
	datum.Observe(d, 1.5, time.Unix(2, 0))
	b := datum.GetBuckets(d)
	var total uint64
	for _, c := range b.GetBuckets() {
		total += c
	}
	if total != b.GetCount() {
		t.Errorf("bucket counts sum to %d but the observation count is %d", total, b.GetCount())
	}
	if got := b.GetBuckets()[datum.Range{Min: 2, Max: math.Inf(+1)}]; got != 1 {
		t.Errorf("+Inf bucket = %d after observing NaN, want 1", got)
	}
}

// F-C21b: the first declared boundary is exported as an upper bound only when
// it is > 0.
func TestWitnessC21FirstBoundaryExported(t *testing.T) {
	c, err := compiler.New()
	testutil.FatalIfErr(t, err)
	obj, err := c.Compile("h", strings.NewReader("histogram h buckets 0, 1, 2\n/(\\d+)/ {\n  h = $1\n}\n"))
	testutil.FatalIfErr(t, err)
	var maxes []float64
	for _, r := range obj.Metrics[0].Buckets {
		maxes = append(maxes, r.Max)
	}
	want := []float64{0, 1, 2, math.Inf(+1)}
	if len(maxes) != len(want) {
		t.Fatalf("exported upper bounds %v, want the declared boundaries plus +Inf %v", maxes, want)
	}
	for i := range want {
		if maxes[i] != want[i] {
			t.Fatalf("exported upper bounds %v, want %v", maxes, want)
		}
	}
}
