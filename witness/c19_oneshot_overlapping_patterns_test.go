// Place at internal/tailer/zz_witness_c19_oneshot_overlap_test.go ; run: go test -count=1 -run 'TestWitnessC19OneShotOverlappingPatterns' ./internal/tailer/
//
// One-shot mode, one small log file, reached by several configured patterns
// (here: the same path listed repeatedly; a literal path plus a glob behaves the
// same).  tailer.New adds the patterns one after the other.  The stream started
// for the first pattern reads the file to EOF, closes its channel, and the
// forwarding goroutine then removes the path from the stream map - while New is
// still adding the remaining patterns.  The next pattern that matches the file no
// longer finds it in the map and starts a second stream from offset 0: every line
// of the file is delivered again.  The property "every line of every file is
// processed exactly once" needs the number of delivered lines to equal the
// number of lines in the file.
package tailer

import (
	"context"
	"os"
	"path/filepath"
	"sync"
	"testing"
	"time"

	"github.com/google/mtail/internal/logline"
)

func TestWitnessC19OneShotOverlappingPatterns(t *testing.T) {
	tmp := t.TempDir()
	logfile := filepath.Join(tmp, "app.log")
	if err := os.WriteFile(logfile, []byte("one\ntwo\nthree\n"), 0o600); err != nil {
		t.Fatal(err)
	}
	const wantLines = 3
	for round := 0; round < 20; round++ {
		patterns := []string{logfile}
		for i := 0; i < 200; i++ {
			patterns = append(patterns, filepath.Join(tmp, "*.log"), logfile)
		}
		ctx, cancel := context.WithCancel(context.Background())
		lines := make(chan *logline.LogLine)
		var wg sync.WaitGroup
		got := 0
		counted := make(chan struct{})
		go func() {
			defer close(counted)
			for range lines {
				got++
			}
		}()
		_, err := New(ctx, &wg, lines, OneShot, LogPatterns(patterns))
		if err != nil {
			cancel()
			t.Fatal(err)
		}
		done := make(chan struct{})
		go func() { wg.Wait(); close(done) }()
		select {
		case <-done:
		case <-time.After(30 * time.Second):
			cancel()
			t.Fatal("one-shot tailer did not finish")
		}
		<-counted
		cancel()
		if got != wantLines {
			t.Fatalf("round %d: the file has %d lines but the one-shot tailer delivered %d: the file was streamed %d times", round, wantLines, got, got/wantLines)
		}
	}
}
