package exporter

// Witness for F-C12a: a label set that Prometheus cannot represent (a metric
// key called "prog" duplicates the program label) made Collect return from
// the store callback with the metric read-locked and the emitter goroutine
// blocked.  Copy to internal/exporter/ and run: go test -run TestWitnessC12Collect
import (
	"bytes"
	"context"
	"testing"
	"time"

	"github.com/google/mtail/internal/metrics"
	"github.com/google/mtail/internal/metrics/datum"
)

func TestWitnessC12Collect(t *testing.T) {
	ms := metrics.NewStore()
	m := metrics.NewMetric("foo", "prog", metrics.Counter, metrics.Int, "prog")
	d, _ := m.GetDatum("a")
	datum.SetInt(d, 1, time.Unix(0, 0))
	if err := ms.Add(m); err != nil {
		t.Fatal(err)
	}
	e, err := New(context.Background(), ms)
	if err != nil {
		t.Fatal(err)
	}
	var b bytes.Buffer
	_ = e.Write(&b)
	done := make(chan struct{})
	go func() {
		m.GetDatum("b") // needs the write lock
		close(done)
	}()
	select {
	case <-done:
	case <-time.After(2 * time.Second):
		t.Fatal("metric still locked after a scrape that could not represent a label set")
	}
}
