// Witness for F-C25a: a load refused by Store.Add (metric kind clash with
// another program) is not counted in prog_load_errors_total.
// Place in internal/runtime/ and run: go test -run TestWitnessC25 ./internal/runtime/
package runtime

import (
	"strings"
	"sync"
	"testing"

	"github.com/google/mtail/internal/logline"
	"github.com/google/mtail/internal/metrics"
	"github.com/google/mtail/internal/testutil"
)

func TestWitnessC25RefusedLoadCounted(t *testing.T) {
	store := metrics.NewStore()
	lines := make(chan *logline.LogLine)
	var wg sync.WaitGroup
	l, err := New(lines, &wg, "", store)
	testutil.FatalIfErr(t, err)
	testutil.FatalIfErr(t, l.CompileAndRun("a.mtail", strings.NewReader("counter foo\n/a/ {\n  foo++\n}\n")))
	before := ""
	if v := ProgLoadErrors.Get("b.mtail"); v != nil {
		before = v.String()
	}
	if err := l.CompileAndRun("b.mtail", strings.NewReader("gauge foo\n/a/ {\n  foo = 1\n}\n")); err == nil {
		t.Fatal("expected the kind clash to refuse the load")
	}
	after := ""
	if v := ProgLoadErrors.Get("b.mtail"); v != nil {
		after = v.String()
	}
	if before == after {
		t.Errorf("prog_load_errors_total[b.mtail] did not change (%q -> %q) although the load was refused", before, after)
	}
	close(lines)
	wg.Wait()
}
