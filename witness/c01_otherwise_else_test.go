// Witness for F-C01a: `otherwise` inside an else block "matches if no preceding
// conditional in the current scope has matched" (docs/Language.md), but the else
// block is entered without clearing the matched flag, so it inherits the
// enclosing scope's matches.  Place in internal/runtime/ and run:
//   go test -run TestWitnessC01 ./internal/runtime/
package runtime

import (
	"context"
	"strings"
	"sync"
	"testing"

	"github.com/google/mtail/internal/logline"
	"github.com/google/mtail/internal/metrics"
	"github.com/google/mtail/internal/metrics/datum"
	"github.com/google/mtail/internal/testutil"
)

func TestWitnessC01OtherwiseInElse(t *testing.T) {
	prog := "counter a\ncounter b\ncounter c\n/x/ {\n  a++\n}\n/y/ {\n  c++\n} else {\n  otherwise {\n    b++\n  }\n}\n"
	store := metrics.NewStore()
	ch := make(chan *logline.LogLine)
	var wg sync.WaitGroup
	l, err := New(ch, &wg, "", store)
	testutil.FatalIfErr(t, err)
	testutil.FatalIfErr(t, l.CompileAndRun("p.mtail", strings.NewReader(prog)))
	ch <- logline.New(context.Background(), "log", "x")
	close(ch)
	wg.Wait()
	d, err := store.FindMetricOrNil("b", "p.mtail").GetDatum()
	testutil.FatalIfErr(t, err)
	if got := datum.GetInt(d); got != 1 {
		t.Errorf("b = %d after line `x`; want 1: /y/ did not match, its else block ran, and no conditional inside that block matched before `otherwise`", got)
	}
}
