// Witness for F-C08a: buildLabelValueKey is not injective (the escape character
// itself is not escaped).  Place in internal/metrics/ and run:
//   go test -run TestWitnessC08 ./internal/metrics/
package metrics

import (
	"testing"
	"time"

	"github.com/google/mtail/internal/metrics/datum"
)

func TestWitnessC08DistinctTuplesDistinctData(t *testing.T) {
	m := NewMetric("foo", "prog", Counter, Int, "a", "b")
	d1, err := m.GetDatum("--\\", "")
	if err != nil {
		t.Fatal(err)
	}
	datum.SetInt(d1, 7, time.Unix(1, 0))
	d2, err := m.GetDatum("-\\", "-")
	if err != nil {
		t.Fatal(err)
	}
	if d1 == d2 {
		t.Errorf("tuples (%q,%q) and (%q,%q) address the same datum (value %d)", "--\\", "", "-\\", "-", datum.GetInt(d2))
	}
	if n := len(m.LabelValues); n != 2 {
		t.Errorf("metric holds %d label sets after creating two distinct tuples", n)
	}
}
