// place at internal/metrics/zz_c22_json_roundtrip_test.go ; run: go test -count=1 -run 'TestC22JSONRoundTripAllTypes' ./internal/metrics/
package metrics

import (
	"encoding/json"
	"fmt"
	"testing"
	"time"

	"github.com/google/mtail/internal/metrics/datum"
)

// The JSON form of a metric of every datum type must decode back to the same
// label sets and values (TestMetricJSONRoundTrip only tries Int).
func TestC22JSONRoundTripAllTypes(t *testing.T) {
	ts := time.Unix(1343124840, 0)
	for _, tc := range []struct {
		name string
		mk   func() *Metric
	}{
		{"float", func() *Metric {
			m := NewMetric("f", "prog", Gauge, Float, "k")
			d, _ := m.GetDatum("a")
			datum.SetFloat(d, 1.5, ts)
			return m
		}},
		{"float with integral value", func() *Metric {
			m := NewMetric("f", "prog", Gauge, Float, "k")
			d, _ := m.GetDatum("a")
			datum.SetFloat(d, 2, ts)
			return m
		}},
		{"string", func() *Metric {
			m := NewMetric("s", "prog", Text, String, "k")
			d, _ := m.GetDatum("a")
			datum.SetString(d, "hello", ts)
			return m
		}},
		{"histogram declaration without label values", func() *Metric {
			m := NewMetric("h", "prog", Histogram, Buckets, "k")
			m.Buckets = []datum.Range{{Min: 0, Max: 1}, {Min: 1, Max: 2}}
			return m
		}},
		{"histogram", func() *Metric {
			m := NewMetric("h", "prog", Histogram, Buckets, "k")
			m.Buckets = []datum.Range{{Min: 0, Max: 1}, {Min: 1, Max: 2}}
			d, _ := m.GetDatum("a")
			datum.Observe(d, 0.5, ts)
			datum.Observe(d, 1.5, ts)
			return m
		}},
	} {
		tc := tc
		t.Run(tc.name, func(t *testing.T) {
			defer func() {
				if r := recover(); r != nil {
					t.Errorf("decoding the exported JSON panicked: %v", r)
				}
			}()
			m := tc.mk()
			j, err := json.Marshal(m)
			if err != nil {
				t.Fatalf("marshal: %v", err)
			}
			r := newMetric(0)
			if err := json.Unmarshal(j, &r); err != nil {
				t.Fatalf("exported JSON %s does not decode: %v", j, err)
			}
			if fmt.Sprint(m.Buckets) != fmt.Sprint(r.Buckets) {
				t.Errorf("bucket declaration changed: exported %v, read back %v", m.Buckets, r.Buckets)
			}
			if len(r.LabelValues) != len(m.LabelValues) {
				t.Fatalf("want %d label values, got %d", len(m.LabelValues), len(r.LabelValues))
			}
			if len(m.LabelValues) == 0 {
				return
			}
			want, got := m.LabelValues[0].Value, r.LabelValues[0].Value
			if fmt.Sprintf("%T", want) != fmt.Sprintf("%T", got) {
				t.Errorf("datum type changed: exported %T, read back %T", want, got)
			}
			if want.ValueString() != got.ValueString() {
				t.Errorf("value changed: exported %s, read back %s", want.ValueString(), got.ValueString())
			}
			if want.TimeString() != got.TimeString() {
				t.Errorf("timestamp changed: exported %s, read back %s", want.TimeString(), got.TimeString())
			}
		})
	}
}
