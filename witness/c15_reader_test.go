// Witness for C15/C16: place in internal/tailer/logstream/ and run
//   go test -count=1 -run TestWitnessC15 ./internal/tailer/logstream/
package logstream

import (
	"context"
	"io"
	"testing"

	"github.com/google/mtail/internal/logline"
)

type witnessC15Chunks struct{ chunks []string }

func (c *witnessC15Chunks) Read(p []byte) (int, error) {
	if len(c.chunks) == 0 {
		return 0, io.EOF
	}
	n := copy(p, c.chunks[0])
	c.chunks = c.chunks[1:]
	return n, nil
}

// A fragment ending in a carriage return is flushed (file truncated while the
// writer was between "\r" and "\n"); the reader is reused, as the file stream
// does after a truncation, and the next data starts with a newline.  The
// carriage-return test in send then looks at the byte BEFORE the current line
// and computes a line end before its start: slice bounds out of range.
func TestWitnessC15CarriageReturnBeforeLineStart(t *testing.T) {
	lines := make(chan *logline.LogLine, 10)
	src := &witnessC15Chunks{chunks: []string{"abc\r", "\nxyz\n"}}
	lr := NewLineReader("w", lines, src, 128, func() {})
	ctx := context.Background()
	if _, err := lr.ReadAndSend(ctx); err != nil {
		t.Fatal(err)
	}
	lr.Finish(ctx) // generation ends: the fragment "abc\r" is delivered
	if _, err := lr.ReadAndSend(ctx); err != nil {
		t.Fatal(err)
	}
	close(lines)
	var got []string
	for l := range lines {
		got = append(got, l.Line)
	}
	want := []string{"abc\r", "", "xyz"}
	if len(got) != len(want) {
		t.Fatalf("got %q, want %q", got, want)
	}
	for i := range want {
		if got[i] != want[i] {
			t.Errorf("line %d: got %q, want %q", i, got[i], want[i])
		}
	}
}
