// Place at internal/tailer/logstream/zz_c17_socket_cancel_before_conn_test.go ; run: go test -count=1 -run 'TestC17SocketStreamCancelBeforeFirstConnection' ./internal/tailer/logstream/
//
// C17 ("the stream's output ends ... once ... it is cancelled"): a stream
// socket that is cancelled before any client has connected must close its
// listener and its lines channel.  On the defective code the shutdown
// goroutine is parked in a bare `<-started` that only the first accepted
// connection releases, so nobody closes the listener, Accept never returns,
// the lines channel is never closed and the WaitGroup never drains.

//go:build unix

package logstream_test

import (
	"context"
	"fmt"
	"path/filepath"
	"sync"
	"testing"
	"time"

	"github.com/google/mtail/internal/tailer/logstream"
	"github.com/google/mtail/internal/testutil"
	"github.com/google/mtail/internal/waker"
)

func TestC17SocketStreamCancelBeforeFirstConnection(t *testing.T) {
	for _, scheme := range []string{"unix", "tcp"} {
		for _, oneShot := range []logstream.OneShotMode{logstream.OneShotDisabled, logstream.OneShotEnabled} {
			scheme, oneShot := scheme, oneShot
			t.Run(fmt.Sprintf("%s/oneshot=%v", scheme, bool(oneShot)), func(t *testing.T) {
				var wg sync.WaitGroup
				var addr string
				switch scheme {
				case "unix":
					addr = filepath.Join(testutil.TestTempDir(t), "sock")
				case "tcp":
					addr = fmt.Sprintf("[::]:%d", testutil.FreePort(t))
				}
				ctx, cancel := context.WithCancel(context.Background())
				defer cancel()
				w := waker.NewTestAlways()

				ss, err := logstream.New(ctx, &wg, w, scheme+"://"+addr, oneShot)
				testutil.FatalIfErr(t, err)

				// No client ever connects.  Cancel the stream.
				cancel()

				closed := make(chan struct{})
				go func() {
					for range ss.Lines() {
					}
					close(closed)
				}()
				select {
				case <-closed:
				case <-time.After(2 * time.Second):
					t.Fatalf("lines channel of %s://%s not closed 2s after cancellation with no connection ever made", scheme, addr)
				}

				done := make(chan struct{})
				go func() { wg.Wait(); close(done) }()
				select {
				case <-done:
				case <-time.After(2 * time.Second):
					t.Fatalf("stream goroutines of %s://%s still running 2s after cancellation", scheme, addr)
				}
			})
		}
	}
}
