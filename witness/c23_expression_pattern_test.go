// Witness for C23 (found by a seeding agent on the unmodified tree): an expression the checker accepts
// as a pattern (`$x =~ ("a" + "b")`) was formatted without its brackets and the result does not parse.
// Place in internal/runtime/compiler/checker/ and run: go test -run TestWitnessC23ExpressionPattern ./internal/runtime/compiler/checker/

package checker_test

import (
	"strings"
	"testing"

	"github.com/google/mtail/internal/runtime/compiler/checker"
	"github.com/google/mtail/internal/runtime/compiler/parser"
)

func TestWitnessC23ExpressionPattern(t *testing.T) {
	for _, src := range []string{
		"counter c\n/(?P<x>\\S+)/ {\n  $x =~ (\"a\" + \"b\") {\n    c++\n  }\n}\n",
		"counter c\nconst P /b/\n/(?P<x>\\S+)/ {\n  $x =~ /a/ + P {\n    c++\n  }\n  $x !~ /a/ + /c/ {\n    c++\n  }\n  $x =~ \"q\" {\n    c++\n  }\n}\n",
	} {
		ast, err := parser.Parse("p", strings.NewReader(src))
		if err != nil {
			t.Fatal("parse:", err)
		}
		ast, err = checker.Check(ast, 0, 0)
		if err != nil {
			t.Fatal("check:", err)
		}
		u := parser.Unparser{}
		out := u.Unparse(ast)
		t.Logf("formatted:\n%s", out)
		if _, err := parser.Parse("p2", strings.NewReader(out)); err != nil {
			t.Errorf("formatted program does not parse: %v", err)
		}
	}
}
