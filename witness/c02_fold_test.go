// Witness for F-C02a: folding `IntLit % FloatLit` assigns the operand instead
// of the result literal, so the expression folds to 0.
// Place in internal/runtime/ and run: go test -run TestWitnessC02 ./internal/runtime/
package runtime

import (
	"context"
	"strings"
	"testing"

	"github.com/google/mtail/internal/logline"
	"github.com/google/mtail/internal/metrics/datum"
	"github.com/google/mtail/internal/runtime/compiler"
	"github.com/google/mtail/internal/runtime/vm"
	"github.com/google/mtail/internal/testutil"
)

func TestWitnessC02IntModFloat(t *testing.T) {
	prog := "gauge x\n/a/ {\n  x = 7 % 2.0\n}\n"
	var got [2]float64
	for i, opts := range [][]compiler.Option{nil, {compiler.DisableOptimisation()}} {
		c, err := compiler.New(opts...)
		testutil.FatalIfErr(t, err)
		obj, err := c.Compile("p", strings.NewReader(prog))
		testutil.FatalIfErr(t, err)
		v := vm.New("p", obj, false, nil, false, false)
		v.ProcessLogLine(context.Background(), logline.New(context.Background(), "log", "a"))
		d, err := obj.Metrics[0].GetDatum()
		testutil.FatalIfErr(t, err)
		got[i] = datum.GetFloat(d)
	}
	if got[0] != got[1] {
		t.Errorf("x = 7 %% 2.0: optimised compile gives %v, unoptimised gives %v", got[0], got[1])
	}
}
