// Witnesses for C11 findings (data races on metric state).  Place in
// internal/metrics/ and run with the race detector:
//   go test -race -count=1 -run TestWitnessC11 ./internal/metrics/
// Each test fails with "race detected during execution of test" on the code
// before the corresponding fix and passes after it.
package metrics

import (
	"encoding/json"
	"strconv"
	"sync"
	"testing"
	"time"
)

// worker keeps creating, expiring and deleting label values of m, like a VM
// running a program with `del ... after`.
func witnessC11Worker(m *Metric, stop <-chan struct{}, wg *sync.WaitGroup) {
	defer wg.Done()
	for i := 0; ; i++ {
		select {
		case <-stop:
			return
		default:
		}
		k := strconv.Itoa(i % 64)
		if _, err := m.GetDatum(k); err != nil {
			panic(err)
		}
		_ = m.ExpireDatum(time.Duration(i%3)*time.Nanosecond, k)
		if i%5 == 0 {
			_ = m.RemoveDatum(k)
		}
	}
}

// F-C11a/b: Store.Gc (and RemoveOldestDatum under it) scan LabelValues and
// read Expiry without the metric lock while a program updates the metric.
func TestWitnessC11GcRacesWithProgram(t *testing.T) {
	s := NewStore()
	m := NewMetric("foo", "prog", Counter, Int, "a")
	m.Limit = 8
	if err := s.Add(m); err != nil {
		t.Fatal(err)
	}
	stop := make(chan struct{})
	var wg sync.WaitGroup
	wg.Add(1)
	go witnessC11Worker(m, stop, &wg)
	for i := 0; i < 200; i++ {
		if err := s.Gc(); err != nil {
			t.Fatal(err)
		}
	}
	close(stop)
	wg.Wait()
}

// F-C11c: Store.Add copies the label values of the previous, still running
// version without its lock.
func TestWitnessC11ReloadRacesWithProgram(t *testing.T) {
	m := NewMetric("foo", "prog", Counter, Int, "a")
	stop := make(chan struct{})
	var wg sync.WaitGroup
	wg.Add(1)
	go witnessC11Worker(m, stop, &wg)
	for i := 0; i < 100; i++ {
		// m is the registered metric of the running version ...
		s := NewStore()
		if err := s.Add(m); err != nil {
			t.Fatal(err)
		}
		// ... and the edited program is loaded: its metric inherits m's label values.
		m2 := NewMetric("foo", "prog", Counter, Int, "a")
		if err := s.Add(m2); err != nil {
			t.Fatal(err)
		}
	}
	close(stop)
	wg.Wait()
}

// F-C11d: JSON export walks every metric by reflection without its lock.
func TestWitnessC11JSONRacesWithProgram(t *testing.T) {
	s := NewStore()
	m := NewMetric("foo", "prog", Counter, Int, "a")
	if err := s.Add(m); err != nil {
		t.Fatal(err)
	}
	stop := make(chan struct{})
	var wg sync.WaitGroup
	wg.Add(1)
	go witnessC11Worker(m, stop, &wg)
	for i := 0; i < 200; i++ {
		if _, err := json.Marshal(s); err != nil {
			t.Fatal(err)
		}
	}
	close(stop)
	wg.Wait()
}
