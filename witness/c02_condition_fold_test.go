// Witness for C02 ("the optimised compile rejects a program only for a division
// or modulus by a literal zero"), found on the pinned tree by reading after a
// seeding agent's side remark: the checker accepts any BinaryExpr as the
// condition of a block but not a literal, and the first optimiser pass, which
// runs before the checker, folds `1 + 1` into the literal 2.  The optimised
// compile therefore rejects a program that the unoptimised compile accepts.
//
// Place in internal/runtime/compiler/ (package compiler_test) and run
//   go test -run TestWitnessC02ConstantCondition ./internal/runtime/compiler/
package compiler_test

import (
	"strings"
	"testing"

	"github.com/google/mtail/internal/runtime/compiler"
)

func TestWitnessC02ConstantCondition(t *testing.T) {
	for _, src := range []string{
		"counter c\n1 + 1 {\n  c++\n}\n",
		"counter c\n2 * 3 - 6 {\n  c++\n}\n",
	} {
		plain, err := compiler.New(compiler.DisableOptimisation())
		if err != nil {
			t.Fatal(err)
		}
		opt, err := compiler.New()
		if err != nil {
			t.Fatal(err)
		}
		_, errPlain := plain.Compile("w", strings.NewReader(src))
		_, errOpt := opt.Compile("w", strings.NewReader(src))
		if (errPlain == nil) != (errOpt == nil) {
			t.Errorf("%q: unoptimised compile: %v; optimised compile: %v", src, errPlain, errOpt)
		}
	}
}
