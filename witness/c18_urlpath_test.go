// Place at internal/tailer/c18_urlpath_witness_test.go ; run: go test -count=1 -run TestC18 ./internal/tailer/
//
// C18: every regular file matching a pattern is tailed by exactly one stream and
// no path is tailed by two streams.  logstream.New opens url.Parse(pathname).Path
// instead of pathname for plain (scheme-less) pathnames, so the stream
// registered under the key ".../log#1" (or ".../log?x", ".../l%6Fg") actually
// reads ".../log": that file is read by two streams, every line of it is
// delivered twice, and the file that matched the pattern is never read.
package tailer

import (
	"context"
	"os"
	"path/filepath"
	"sort"
	"sync"
	"testing"
	"time"

	"github.com/google/mtail/internal/logline"
)

func c18Run(t *testing.T, files map[string]string) []string {
	t.Helper()
	dir := t.TempDir()
	for name, content := range files {
		if err := os.WriteFile(filepath.Join(dir, name), []byte(content), 0o600); err != nil {
			t.Fatal(err)
		}
	}
	ctx, cancel := context.WithCancel(context.Background())
	defer cancel()
	lines := make(chan *logline.LogLine, 16)
	var wg sync.WaitGroup
	ta, err := New(ctx, &wg, lines, OneShot, LogPatterns([]string{filepath.Join(dir, "*")}))
	if err != nil {
		t.Fatal(err)
	}
	_ = ta
	var got []string
	timeout := time.After(10 * time.Second)
loop:
	for {
		select {
		case l, ok := <-lines:
			if !ok {
				break loop
			}
			got = append(got, filepath.Base(l.Filename)+": "+l.Line)
		case <-timeout:
			t.Fatal("tailer did not finish in one-shot mode")
		}
	}
	wg.Wait()
	sort.Strings(got)
	return got
}

func c18Expect(t *testing.T, got, want []string) {
	t.Helper()
	sort.Strings(want)
	if len(got) != len(want) {
		t.Fatalf("lines delivered:\n got  %q\n want %q", got, want)
	}
	for i := range got {
		if got[i] != want[i] {
			t.Fatalf("lines delivered:\n got  %q\n want %q", got, want)
		}
	}
}

func TestC18FragmentInFileName(t *testing.T) {
	got := c18Run(t, map[string]string{"log": "from log\n", "log#1": "from log#1\n"})
	c18Expect(t, got, []string{"log: from log", "log#1: from log#1"})
}

func TestC18QueryInFileName(t *testing.T) {
	got := c18Run(t, map[string]string{"log": "from log\n", "log?old": "from log?old\n"})
	c18Expect(t, got, []string{"log: from log", "log?old: from log?old"})
}

func TestC18PercentInFileName(t *testing.T) {
	got := c18Run(t, map[string]string{"log": "from log\n", "l%6Fg": "from l%6Fg\n"})
	c18Expect(t, got, []string{"log: from log", "l%6Fg: from l%6Fg"})
}

func TestC18NotAURLFileName(t *testing.T) {
	got := c18Run(t, map[string]string{"log": "from log\n", "50%.log": "from 50%.log\n"})
	c18Expect(t, got, []string{"log: from log", "50%.log: from 50%.log"})
}
