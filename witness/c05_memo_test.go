// Witnesses for F-C05a/b: the strptime memo is keyed by the value text only and
// stores failed parses.  Place in internal/runtime/ and run:
//   go test -run TestWitnessC05 ./internal/runtime/
package runtime

import (
	"context"
	"strings"
	"sync"
	"testing"

	"github.com/google/mtail/internal/logline"
	"github.com/google/mtail/internal/metrics"
	"github.com/google/mtail/internal/metrics/datum"
	"github.com/google/mtail/internal/testutil"
)

func runC05(t *testing.T, prog string, lines ...string) *metrics.Store {
	t.Helper()
	store := metrics.NewStore()
	ch := make(chan *logline.LogLine)
	var wg sync.WaitGroup
	l, err := New(ch, &wg, "", store)
	testutil.FatalIfErr(t, err)
	testutil.FatalIfErr(t, l.CompileAndRun("memo.mtail", strings.NewReader(prog)))
	for _, x := range lines {
		ch <- logline.New(context.Background(), "log", x)
	}
	close(ch)
	wg.Wait()
	return store
}

// F-C05b: the same unparseable timestamp raises a runtime error on the first
// line only; afterwards the zero time is served from the memo and the line is
// processed as if strptime had succeeded.
func TestWitnessC05FailedParseNotMemoised(t *testing.T) {
	store := runC05(t, "counter c\n/^(\\S+)$/ {\n  strptime($1, \"2006-01-02\")\n  c++\n}\n", "garbage", "garbage", "garbage")
	d, err := store.FindMetricOrNil("c", "memo.mtail").GetDatum()
	testutil.FatalIfErr(t, err)
	if got := datum.GetInt(d); got != 0 {
		t.Errorf("c = %d: %d of 3 lines with an unparseable timestamp were processed as if strptime had succeeded (each must raise a runtime error and abort the line)", got, got)
	}
}

// F-C05a: the same text parsed with two layouts in one program.
func TestWitnessC05MemoKeyIncludesLayout(t *testing.T) {
	prog := "gauge us\ngauge eu\n/^us (\\S+)$/ {\n  strptime($1, \"01/02/2006\")\n  us = timestamp()\n}\n/^eu (\\S+)$/ {\n  strptime($1, \"02/01/2006\")\n  eu = timestamp()\n}\n"
	store := runC05(t, prog, "us 03/04/2021", "eu 03/04/2021")
	du, err := store.FindMetricOrNil("us", "memo.mtail").GetDatum()
	testutil.FatalIfErr(t, err)
	de, err := store.FindMetricOrNil("eu", "memo.mtail").GetDatum()
	testutil.FatalIfErr(t, err)
	if datum.GetInt(du) == datum.GetInt(de) {
		t.Errorf("us (March 4th) and eu (3rd of April) timestamps are both %d: the second strptime returned the first one's memoised result", datum.GetInt(du))
	}
}
