// Witnesses for C23 findings (the formatter changes a program's meaning).
// Place in internal/runtime/compiler/parser/ and run:
//   go test -count=1 -run TestWitnessC23 ./internal/runtime/compiler/parser/
// Each case parses a program, formats it, parses the result and compares the
// two syntax trees on every field the parser sets (positions excluded), then
// checks that formatting the output again yields the same text.
package parser

import (
	"fmt"
	"reflect"
	"strings"
	"testing"
)

func witnessC23Shape(v reflect.Value, b *strings.Builder) {
	switch v.Kind() {
	case reflect.Interface, reflect.Ptr:
		if v.IsNil() {
			b.WriteString("nil")
			return
		}
		witnessC23Shape(v.Elem(), b)
	case reflect.Struct:
		t := v.Type()
		fmt.Fprintf(b, "(%s", t.Name())
		for i := 0; i < t.NumField(); i++ {
			f := t.Field(i)
			ft := f.Type.String()
			if !f.IsExported() || strings.Contains(ft, "position.Position") || strings.Contains(ft, "symbol.") || strings.Contains(ft, "types.Type") || strings.Contains(ft, "sync.") || f.Name == "Index" && t.Name() == "PatternExpr" {
				continue
			}
			fmt.Fprintf(b, " %s=", f.Name)
			witnessC23Shape(v.Field(i), b)
		}
		b.WriteString(")")
	case reflect.Slice:
		b.WriteString("[")
		for i := 0; i < v.Len(); i++ {
			if i > 0 {
				b.WriteString(" ")
			}
			witnessC23Shape(v.Index(i), b)
		}
		b.WriteString("]")
	default:
		fmt.Fprintf(b, "%#v", v.Interface())
	}
}

func TestWitnessC23FormatPreservesProgram(t *testing.T) {
	for _, tc := range []struct{ name, prog string }{
		{"hidden", "hidden gauge g\n/a/ {\n  g = 1\n}\n"},
		{"exported name", "counter c as \"c-total\"\n/a/ {\n  c++\n}\n"},
		{"quoted metric name", "counter \"c-total\"\n"},
		{"quoted key", "counter c by \"a-b\", d\n"},
		{"grouping", "gauge g\n/(\\d+)/ {\n  g = ($1 + 2) * 3\n}\n"},
		{"right operand grouping", "gauge g\n/(\\d+)/ {\n  g = $1 - (2 - 3)\n}\n"},
		{"unary grouping", "gauge g\n/(\\d+)/ {\n  g = ~($1 + 2)\n}\n"},
		{"match operand", "counter c\n/(\\d+)/ && ($1 =~ /1/) == 1 {\n  c++\n}\n"},
		{"escaped quote", "text t\n/a/ {\n  t = \"a\\\"b\"\n}\n"},
		{"small bucket boundary", "histogram h buckets 0.0000001, 1\n"},
		{"float literal stays float", "gauge g\n/a/ {\n  g = 1.0\n}\n"},
		{"float bucket stays float", "histogram h buckets 1.0, 2.5\n"},
	} {
		tc := tc
		t.Run(tc.name, func(t *testing.T) {
			p := newParser(tc.name, strings.NewReader(tc.prog))
			if r := mtailParse(p); r != 0 || len(p.errors) > 0 {
				t.Fatalf("witness program does not parse: %v", p.errors)
			}
			u := Unparser{}
			out := u.Unparse(p.root)
			p2 := newParser(tc.name+" formatted", strings.NewReader(out))
			if r := mtailParse(p2); r != 0 || len(p2.errors) > 0 {
				t.Fatalf("formatted program does not parse: %v\n%s", p2.errors, out)
			}
			var a, b strings.Builder
			witnessC23Shape(reflect.ValueOf(p.root), &a)
			witnessC23Shape(reflect.ValueOf(p2.root), &b)
			if a.String() != b.String() {
				t.Errorf("formatting changed the program:\nsource:    %s\nformatted: %s\ntree before: %s\ntree after:  %s", tc.prog, out, a.String(), b.String())
			}
			u2 := Unparser{}
			if out2 := u2.Unparse(p2.root); out2 != out {
				t.Errorf("formatting is not idempotent:\n1st: %s\n2nd: %s", out, out2)
			}
		})
	}
}
