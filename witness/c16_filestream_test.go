// Witness for F-C16a (rotation loses the unterminated fragment) and F-C16c
// (truncation delivers the fragment twice, the second time glued to new data).
// Place in internal/tailer/logstream/ and run: go test -run TestWitnessC16 ./internal/tailer/logstream/
package logstream_test

import (
	"context"
	"os"
	"path/filepath"
	"sync"
	"testing"

	"github.com/google/mtail/internal/logline"
	"github.com/google/mtail/internal/tailer/logstream"
	"github.com/google/mtail/internal/testutil"
	"github.com/google/mtail/internal/waker"
)

func TestWitnessC16RotationFragment(t *testing.T) {
	var wg sync.WaitGroup
	tmpDir := testutil.TestTempDir(t)
	name := filepath.Join(tmpDir, "log")
	f := testutil.OpenLogFile(t, name)
	ctx, cancel := context.WithCancel(context.Background())
	defer cancel()
	waker, awaken := waker.NewTest(ctx, 1, "stream")
	fs, err := logstream.New(ctx, &wg, waker, name, logstream.OneShotDisabled)
	testutil.FatalIfErr(t, err)
	expected := []*logline.LogLine{
		{Context: context.TODO(), Filename: name, Line: "1"},
		{Context: context.TODO(), Filename: name, Line: "frag"},
		{Context: context.TODO(), Filename: name, Line: "2"},
	}
	checkLineDiff := testutil.ExpectLinesReceivedNoDiff(t, expected, fs.Lines())
	awaken(1, 1)
	testutil.WriteString(t, f, "1\nfrag")
	awaken(1, 1)
	testutil.FatalIfErr(t, os.Rename(name, name+".1"))
	f2 := testutil.OpenLogFile(t, name)
	defer f2.Close()
	testutil.WriteString(t, f2, "2\n")
	awaken(1, 1)
	awaken(1, 1)
	f.Close()
	cancel()
	wg.Wait()
	checkLineDiff()
}

func TestWitnessC16TruncationFragment(t *testing.T) {
	var wg sync.WaitGroup
	tmpDir := testutil.TestTempDir(t)
	name := filepath.Join(tmpDir, "log")
	f := testutil.OpenLogFile(t, name)
	defer f.Close()
	ctx, cancel := context.WithCancel(context.Background())
	defer cancel()
	waker, awaken := waker.NewTest(ctx, 1, "stream")
	fs, err := logstream.New(ctx, &wg, waker, name, logstream.OneShotDisabled)
	testutil.FatalIfErr(t, err)
	expected := []*logline.LogLine{
		{Context: context.TODO(), Filename: name, Line: "1"},
		{Context: context.TODO(), Filename: name, Line: "fragment"},
		{Context: context.TODO(), Filename: name, Line: "3"},
	}
	checkLineDiff := testutil.ExpectLinesReceivedNoDiff(t, expected, fs.Lines())
	awaken(1, 1)
	testutil.WriteString(t, f, "1\nfragment")
	awaken(1, 1)
	testutil.FatalIfErr(t, f.Close())
	awaken(1, 1)
	f = testutil.OpenLogFile(t, name) // truncates
	defer f.Close()
	awaken(1, 1)
	testutil.WriteString(t, f, "3\n")
	awaken(1, 1)
	cancel()
	wg.Wait()
	checkLineDiff()
}
