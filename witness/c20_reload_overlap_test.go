// Place at internal/runtime/witness_c20_reload_overlap_test.go ; run: go test -count=1 -run 'TestWitnessC20' ./internal/runtime/
//
// Witness for C20 (finding F-C20a, rules C20-R2a CompileAndRun|close#1|join and
// UnloadProgram|close#1|join): when a program is reloaded (or unloaded and
// loaded again) while its running version is still executing a line, the new
// version is started without waiting for the old one to return.  The old
// version's write then lands after the write of a line that arrived later, so
// the gauge does not hold the value of the last line that wrote it.

package runtime

import (
	"context"
	"errors"
	"strings"
	"sync"
	"testing"
	"time"

	"github.com/google/mtail/internal/logline"
	"github.com/google/mtail/internal/metrics"
	"github.com/google/mtail/internal/metrics/datum"
)

// The old version bumps `seen`, then touches its private hidden metric `gate`
// before writing g; the test holds that metric's lock to keep the old version
// inside the line, and polls `seen` to know that it is there.  The `init` line
// does not touch the gate.
const witnessC20ProgV1 = `gauge g
counter seen
hidden counter gate
/^init (\d+)$/ {
  g = $1
}
/^set (\d+)$/ {
  seen++
  gate++
  g = $1
}
`

// Same declaration of g at the same position: the store carries the datum over.
const witnessC20ProgV2 = `gauge g
/^set (\d+)$/ {
  g = $1
}
`

func witnessC20(t *testing.T, retire func(r *Runtime, prog string) error) {
	t.Helper()
	const prog = "witness.mtail"
	store := metrics.NewStore()
	lines := make(chan *logline.LogLine)
	var wg sync.WaitGroup
	r, err := New(lines, &wg, "", store)
	if err != nil {
		t.Fatal(err)
	}
	if err := r.CompileAndRun(prog, strings.NewReader(witnessC20ProgV1)); err != nil {
		t.Fatal(err)
	}
	r.handleMu.RLock()
	oldVM := r.handles[prog].vm
	r.handleMu.RUnlock()
	var gate *metrics.Metric
	for _, m := range oldVM.Metrics {
		if m.Name == "gate" {
			gate = m
		}
	}
	if gate == nil {
		t.Fatal("no gate metric in old program")
	}
	gate.Lock()
	gateHeld := true
	defer func() {
		if gateHeld {
			gate.Unlock()
		}
	}()
	// read returns the value of a dimensionless metric of the program without
	// creating anything in the store.
	read := func(name string) int64 {
		m := store.FindMetricOrNil(name, prog)
		if m == nil {
			return -1
		}
		m.RLock()
		defer m.RUnlock()
		if len(m.LabelValues) == 0 {
			return -1
		}
		return datum.GetInt(m.LabelValues[0].Value)
	}
	readG := func() int64 { return read("g") }
	ctx := context.Background()
	send := func(s string) { lines <- logline.New(ctx, "witness.log", s) }

	fed := make(chan error, 1)
	go func() {
		// An earlier line has written g, so the gauge has a value that the store
		// carries over to the next version of the program.
		send("init 1")
		for i := 0; read("g") != 1; i++ {
			if i > 2000 {
				fed <- errors.New("the old version never processed the first line")
				return
			}
			time.Sleep(time.Millisecond)
		}
		// Line k: taken by the old version, which stalls inside it.
		send("set 3")
		// `seen` is bumped before the gate: once it is 1 the old version is inside line k.
		for i := 0; read("seen") != 1; i++ {
			if i > 2000 {
				fed <- errors.New("the old version never started on line k")
				return
			}
			time.Sleep(time.Millisecond)
		}
		// The program is replaced while the old version is still busy with line k.
		if err := retire(r, prog); err != nil {
			fed <- err
			return
		}
		// Line k+1 arrives after the reload.
		send("set 4")
		send("sync")
		fed <- nil
	}()

	// Keep the old version busy for a while; stop early once line k+1 has been applied.
	deadline := time.Now().Add(500 * time.Millisecond)
	for time.Now().Before(deadline) && readG() != 4 {
		time.Sleep(5 * time.Millisecond)
	}
	overlapped := readG() == 4 // line k+1 applied while the old version was still inside line k
	gate.Unlock()
	gateHeld = false

	select {
	case err := <-fed:
		if err != nil {
			t.Fatal(err)
		}
	case <-time.After(30 * time.Second):
		t.Fatal("feeder did not finish")
	}
	close(lines)
	wg.Wait()

	if overlapped {
		t.Errorf("the new version applied line k+1 while the old version was still executing line k")
	}
	if got := readG(); got != 4 {
		t.Errorf("gauge g = %d after `init 1`, `set 3`, replacement of the program, `set 4`; want 4 (the value of the last line that wrote it)", got)
	}
}

func TestWitnessC20ReloadWhileOldVersionBusy(t *testing.T) {
	witnessC20(t, func(r *Runtime, prog string) error {
		return r.CompileAndRun(prog, strings.NewReader(witnessC20ProgV2))
	})
}

func TestWitnessC20UnloadThenLoadWhileOldVersionBusy(t *testing.T) {
	witnessC20(t, func(r *Runtime, prog string) error {
		r.UnloadProgram(prog)
		return r.CompileAndRun(prog, strings.NewReader(witnessC20ProgV2))
	})
}
