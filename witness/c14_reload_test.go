// Witnesses for C14 findings.  Place in internal/runtime/ and run:
//   go test -run TestWitnessC14 ./internal/runtime/
package runtime

import (
	"context"
	"strings"
	"sync"
	"testing"
	"time"

	"github.com/google/mtail/internal/logline"
	"github.com/google/mtail/internal/metrics"
	"github.com/google/mtail/internal/metrics/datum"
	"github.com/google/mtail/internal/testutil"
)

// F-C14a: a pending `del ... after` expiry is lost when the program is reloaded.
func TestWitnessC14ExpirySurvivesReload(t *testing.T) {
	s := metrics.NewStore()
	m1 := metrics.NewMetric("foo", "prog", metrics.Counter, metrics.Int, "a")
	testutil.FatalIfErr(t, s.Add(m1))
	_, err := m1.GetDatum("x")
	testutil.FatalIfErr(t, err)
	testutil.FatalIfErr(t, m1.ExpireDatum(time.Hour, "x"))
	m2 := metrics.NewMetric("foo", "prog", metrics.Counter, metrics.Int, "a")
	testutil.FatalIfErr(t, s.Add(m2))
	lv := m2.FindLabelValueOrNil([]string{"x"})
	if lv == nil {
		t.Fatal("label value not carried over")
	}
	if lv.Expiry != time.Hour {
		t.Errorf("pending expiry lost on reload: got %v, want 1h", lv.Expiry)
	}
}

// F-C14b: the 2nd metric of the new version is refused (kind clash with another
// program) after the 1st was already swapped into the store: the old version
// keeps running but its updates no longer reach the export.
func TestWitnessC14PartialRegistration(t *testing.T) {
	store := metrics.NewStore()
	lines := make(chan *logline.LogLine)
	var wg sync.WaitGroup
	l, err := New(lines, &wg, "", store)
	testutil.FatalIfErr(t, err)
	testutil.FatalIfErr(t, l.CompileAndRun("a.mtail", strings.NewReader("counter foo\n/a/ {\n  foo++\n}\n")))
	testutil.FatalIfErr(t, l.CompileAndRun("b.mtail", strings.NewReader("counter bar by k\n/^(?P<k>\\w+)$/ {\n  bar[$k]++\n}\n")))
	lines <- logline.New(context.Background(), "log", "x")
	if err := l.CompileAndRun("b.mtail", strings.NewReader("counter bar by k\ngauge foo\n/^(?P<k>\\w+)$/ {\n  bar[$k]++\n  foo = 1\n}\n")); err == nil {
		t.Fatal("expected the reload to be refused (kind clash on foo)")
	}
	lines <- logline.New(context.Background(), "log", "y")
	close(lines)
	wg.Wait()
	m := store.FindMetricOrNil("bar", "b.mtail")
	if m == nil {
		t.Fatal("bar not exported")
	}
	lv := m.FindLabelValueOrNil([]string{"y"})
	if lv == nil {
		t.Fatalf("exported bar has no label set y after a refused reload: the still-running previous version updates a metric that is no longer exported (label sets: %v)", m.LabelValues)
	}
	if got := datum.GetInt(lv.Value); got != 1 {
		t.Errorf("exported bar[y] = %d; want 1", got)
	}
}

// F-C14c: moving a declaration to another line leaves the old metric in the
// store next to the new one: two series foo{prog="p.mtail"}.
func TestWitnessC14MovedDeclarationDuplicates(t *testing.T) {
	store := metrics.NewStore()
	lines := make(chan *logline.LogLine)
	var wg sync.WaitGroup
	l, err := New(lines, &wg, "", store)
	testutil.FatalIfErr(t, err)
	testutil.FatalIfErr(t, l.CompileAndRun("p.mtail", strings.NewReader("counter foo\n/x/ {\n  foo++\n}\n")))
	testutil.FatalIfErr(t, l.CompileAndRun("p.mtail", strings.NewReader("\ncounter foo\n/x/ {\n  foo++\n}\n")))
	close(lines)
	wg.Wait()
	n := 0
	for _, m := range store.Metrics["foo"] {
		if m.Program == "p.mtail" {
			n++
		}
	}
	if n != 1 {
		t.Errorf("store holds %d metrics foo for program p.mtail after moving the declaration down one line; want 1", n)
	}
}

// F-C14c (type): changing the value type of a declaration likewise.
func TestWitnessC14TypeChangeDuplicates(t *testing.T) {
	s := metrics.NewStore()
	testutil.FatalIfErr(t, s.Add(metrics.NewMetric("foo", "prog", metrics.Counter, metrics.Int)))
	testutil.FatalIfErr(t, s.Add(metrics.NewMetric("foo", "prog", metrics.Counter, metrics.Float)))
	if n := len(s.Metrics["foo"]); n != 1 {
		t.Errorf("store holds %d metrics foo for program prog after a type change; want 1", n)
	}
}
