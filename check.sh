#!/bin/sh
# Usage: ./check.sh <property id> <quick|thorough>
# Re-analyses /repo's current working tree; rebuilds the analyser if missing.
cd "$(dirname "$0")"
export GOFLAGS=-mod=mod GOPROXY=off GOSUMDB=off GOTOOLCHAIN=local
unset GOWORK
if [ ! -x bin/mtailsa ] || [ -n "$(find sa -name '*.go' -newer bin/mtailsa 2>/dev/null | head -1)" ]; then
  ./setup.sh >/dev/null 2>&1 || { echo "BROKEN: cannot build the analyser"; exit 2; }
fi
if [ "${2:-quick}" = "thorough" ]; then
  exec python3 tools/thorough.py "$1"
fi
exec bin/mtailsa check -property "$1" -tier quick -root "${VERIF_ROOT:-/repo}"
